/*
 * executor for families `write` and `writeval` (properties C02, C13).
 *
 *   write    <ver> <cif tokens…>                   a whole CIF (token language of cifio.h)
 *   writeval <ver> <namehex> <value tokens…>       ONE scalar item `name value` in block `b` (the data name's length
 *                                                  places the value at a chosen column)
 *
 * Runs the real code:  build the CIF through the public API → record the order in which cif_walk() visits it (the order
 * the writer will see; no property fixes it) → cif_write() to a memory stream → cif_parse() of those bytes (CIF 2.0:
 * default options, nested frames permitted; CIF 1.1: prefer_cif2 = -1, line folding and prefix decoding enabled) with an
 * error callback that logs and continues.
 *
 * Observation (one line):
 *   w b=<build rc> [walk=<tokens of the CIF as walked>] rc=<cif_write rc> out=<hex of the BYTES written>
 *     [prc=<cif_parse rc> errs=<code,code…|-> orig=<canonical dump of the built CIF> back=<canonical dump of the re-parsed CIF>]
 *
 * `walk=` uses the token language with one change: inside a loop every packet is `P` followed by (namehex value) pairs in
 * the order and spelling handed to the item handler; the names after `L:<cat>:<n>` are those of cif_loop_get_names().
 */
#include "cifio.h"

#define MAXERRS 12
static int errs[MAXERRS];
static int nerrs;

static int log_error(int code, size_t line, size_t column, const UChar *text, size_t length, void *data) {
    (void) line; (void) column; (void) text; (void) length; (void) data;
    if (nerrs < MAXERRS) errs[nerrs] = code;
    nerrs++;
    return CIF_OK;
}

/* ---- recording walk ------------------------------------------------------------------------------------------- */

typedef struct { FILE *f; int rc; } rec_t;

static int rec_cif_start(cif_tp *cif, void *ctx) { (void) cif; (void) ctx; return CIF_TRAVERSE_CONTINUE; }
static int rec_cif_end(cif_tp *cif, void *ctx) { (void) cif; (void) ctx; return CIF_TRAVERSE_CONTINUE; }
static int rec_container_start(cif_container_tp *c, void *ctx, int is_block) {
    rec_t *r = (rec_t *) ctx;
    UChar *code = NULL;
    if (cif_container_get_code(c, &code) != CIF_OK) { r->rc = -2; return CIF_ERROR; }
    fprintf(r->f, " %c:", is_block ? 'B' : 'F'); fhex(r->f, code); free(code);
    return CIF_TRAVERSE_CONTINUE;
}
static int rec_block_start(cif_container_tp *c, void *ctx) { return rec_container_start(c, ctx, 1); }
static int rec_frame_start(cif_container_tp *c, void *ctx) { return rec_container_start(c, ctx, 0); }
static int rec_container_end(cif_container_tp *c, void *ctx) { (void) c; fprintf(((rec_t *) ctx)->f, " E"); return CIF_TRAVERSE_CONTINUE; }
static int rec_loop_start(cif_loop_tp *loop, void *ctx) {
    rec_t *r = (rec_t *) ctx;
    UChar *cat = NULL, **names = NULL;
    int n = 0, i;
    if (cif_loop_get_category(loop, &cat) != CIF_OK) { r->rc = -3; return CIF_ERROR; }
    if (cif_loop_get_names(loop, &names) != CIF_OK) { free(cat); r->rc = -4; return CIF_ERROR; }
    while (names[n]) n++;
    fprintf(r->f, " L:"); fhex(r->f, cat); fprintf(r->f, ":%d", n);
    for (i = 0; i < n; i++) { fprintf(r->f, " "); fhex(r->f, names[i]); free(names[i]); }
    free(names); free(cat);
    return CIF_TRAVERSE_CONTINUE;
}
static int rec_loop_end(cif_loop_tp *loop, void *ctx) { (void) loop; fprintf(((rec_t *) ctx)->f, " Z"); return CIF_TRAVERSE_CONTINUE; }
static int rec_packet_start(cif_packet_tp *p, void *ctx) { (void) p; fprintf(((rec_t *) ctx)->f, " P"); return CIF_TRAVERSE_CONTINUE; }
static int rec_packet_end(cif_packet_tp *p, void *ctx) { (void) p; (void) ctx; return CIF_TRAVERSE_CONTINUE; }
static int rec_item(UChar *name, cif_value_tp *value, void *ctx) {
    rec_t *r = (rec_t *) ctx;
    fprintf(r->f, " "); fhex(r->f, name); fprintf(r->f, " "); fdump_value(r->f, value);
    return CIF_TRAVERSE_CONTINUE;
}

static char *record_walk(cif_tp *cif, int *rc) {
    cif_handler_tp h = { rec_cif_start, rec_cif_end, rec_block_start, rec_container_end, rec_frame_start, rec_container_end,
                         rec_loop_start, rec_loop_end, rec_packet_start, rec_packet_end, rec_item };
    rec_t r;
    char *text = NULL;
    size_t sz = 0;
    r.f = open_memstream(&text, &sz);
    r.rc = 0;
    *rc = cif_walk(cif, &h, &r);
    fclose(r.f);
    return text;
}

/* ---- the observation ------------------------------------------------------------------------------------------- */

static void observe(cif_tp *cif, int ver) {
    struct cif_write_opts_s *wo = NULL;
    char *mem = NULL, *walked;
    size_t msz = 0, k;
    FILE *f;
    int rc, wrc;

    walked = record_walk(cif, &wrc);
    /* a walk that fails (e.g. CIF_EMPTY_LOOP for a loop without packets) is reported; the tokens seen so far are incomplete */
    if (wrc == CIF_OK) OUT(" walk=%s", walked[0] ? walked + 1 : "-"); else OUT(" walkrc=%d", wrc);
    free(walked);

    if (cif_write_options_create(&wo) != CIF_OK) { OUT(" rc=opts-failed"); return; }
    wo->cif_version = ver;
    f = open_memstream(&mem, &msz);
    rc = cif_write(f, wo, cif);
    fclose(f);
    free(wo);
    OUT(" rc=%d out=", rc);
    if (msz == 0) OUT("-");
    for (k = 0; k < msz; k++) OUT("%02x", (unsigned) (unsigned char) mem[k]);

    if (rc == CIF_OK) {
        struct cif_parse_opts_s *po = NULL;
        cif_tp *back = NULL;
        int prc, i;
        if (cif_parse_options_create(&po) != CIF_OK) { OUT(" prc=opts-failed"); free(mem); return; }
        po->error_callback = log_error;
        po->max_frame_depth = -1;
        if (ver == 1) { po->prefer_cif2 = -1; po->line_folding_modifier = 1; po->text_prefixing_modifier = 1; }
        nerrs = 0;
        f = fmemopen(mem, msz ? msz : 1, "rb");
        prc = cif_parse(f, po, &back);
        fclose(f);
        free(po);
        OUT(" prc=%d errs=", prc);
        if (nerrs == 0) OUT("-");
        for (i = 0; i < nerrs && i < MAXERRS; i++) OUT("%s%d", i ? "," : "", errs[i]);
        if (nerrs > MAXERRS) OUT(",more");
        OUT(" orig=");
        { char *t = NULL; size_t s = 0; FILE *m = open_memstream(&t, &s); fdump_cif(m, cif, 1); fclose(m); OUT("%s", s ? t + 1 : "-"); free(t); }
        OUT(" back=");
        if (back) { char *t = NULL; size_t s = 0; FILE *m = open_memstream(&t, &s); fdump_cif(m, back, 1); fclose(m); OUT("%s", s ? t + 1 : "-"); free(t); cif_destroy(back); }
        else OUT("~");
    }
    free(mem);
}

static void handle(int argc, char **argv) {
    cif_tp *cif = NULL;
    int ver, rc, pos;

    if (argc < 3) { OUT("bad-op"); return; }
    ver = atoi(argv[1]);
    if (cif_create(&cif) != CIF_OK) { OUT("w create-failed"); return; }
    if (strcmp(argv[0], "write") == 0) {
        pos = 2;
        rc = build_cif(cif, argv, argc, &pos);
        if (rc == CIF_OK && pos != argc) rc = -1;
    } else if (strcmp(argv[0], "writeval") == 0) {
        static const UChar bcode[] = { 'b', 0 };
        UChar *name = NULL;
        cif_block_tp *b = NULL;
        cif_value_tp *v = NULL;
        rc = -1;
        if (unhex(argv[2], &name, NULL) && name != NULL) {
            pos = 3;
            v = build_value(argv, argc, &pos, &rc);
            if (v != NULL && pos != argc) { rc = -1; }
            if (v != NULL && rc == CIF_OK) {
                if ((rc = cif_create_block(cif, bcode, &b)) == CIF_OK) {
                    rc = cif_container_set_value(b, name, v);
                    cif_container_free(b);
                }
            }
            if (v) cif_value_free(v);
        }
        free(name);
    } else {
        cif_destroy(cif);
        OUT("bad-op");
        return;
    }
    OUT("w b=%d", rc);
    if (rc == CIF_OK) observe(cif, ver);
    cif_destroy(cif);
}
