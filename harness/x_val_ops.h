/* x_val_ops.h — the operation interpreter shared by the executors of families `val` (x_val.c) and `valheap` (x_valheap.c). */
#ifndef VERIF_X_VAL_OPS_H
#define VERIF_X_VAL_OPS_H
/* executor for family `val` (property C19): one request = one sequence of value / list / table / packet operations on a
   pool of 8 value slots and 4 packet slots, executed on the REAL library.  See lean/Driver/Fam/Val.lean for the request
   language.  Prints per operation the return code and the dump of the objects it touched, at the end the dump of every
   slot.  References are resolved afresh for every operation through cif_value_get_element_at / cif_value_get_item_by_key
   / cif_packet_get_item, i.e. operations on members go through the pointers the API hands out ("by reference").
   Runs under ASan: a use-after-free or double free aborts the case. */
#include "value.c"
#include "x_gg.h"

#define NV 8
#define NP 4
static cif_value_tp *vals[NV];
static cif_packet_tp *pkts[NP];

typedef struct { UChar *orig; int valid; } key_tp;

/* `<orig>=<norm|!>`: the executor only needs the original spelling (the library normalises) */
static int parse_key(const char *t, key_tp *k) {
    char *copy = strdup(t), *eq = strchr(copy, '=');
    int ok;
    if (!eq) { free(copy); return 0; }
    *eq = 0;
    k->valid = strcmp(eq + 1, "!") != 0;
    ok = unhex(copy, &k->orig, NULL) && k->orig != NULL;
    free(copy);
    return ok;
}

static int parse_slot(const char *t, char which, int max) {
    char *end;
    long k;
    if (t[0] != which || !t[1]) return -1;
    k = strtol(t + 1, &end, 10);
    if (*end || k < 0 || k >= max) return -1;
    return (int) k;
}

/* resolve a reference to the object it designates; *is_pkt_root set when it is a packet itself */
static cif_value_tp *resolve(const char *ref, cif_packet_tp **pkt_root) {
    char *copy = strdup(ref), *p = copy, *tok;
    cif_value_tp *cur = NULL;
    cif_packet_tp *pk = NULL;
    int first = 1, ok = 1;
    if (pkt_root) *pkt_root = NULL;
    while (ok && (tok = strsep(&p, "/")) != NULL) {
        if (first) {
            int k;
            first = 0;
            if ((k = parse_slot(tok, 's', NV)) >= 0) { cur = vals[k]; ok = cur != NULL; }
            else if ((k = parse_slot(tok, 'p', NP)) >= 0) { pk = pkts[k]; ok = pk != NULL; }
            else ok = 0;
        } else if (tok[0] == 'k') {
            key_tp key;
            cif_value_tp *next = NULL;
            if (!parse_key(tok + 1, &key)) { ok = 0; break; }
            if (pk) { ok = cif_packet_get_item(pk, key.orig, &next) == CIF_OK; pk = NULL; }
            else ok = cur && cif_value_kind(cur) == CIF_TABLE_KIND && cif_value_get_item_by_key(cur, key.orig, &next) == CIF_OK;
            free(key.orig);
            cur = next;
        } else {
            char *end;
            unsigned long i = strtoul(tok, &end, 10);
            cif_value_tp *next = NULL;
            if (*end || !*tok || pk) { ok = 0; break; }
            ok = cur && cif_value_kind(cur) == CIF_LIST_KIND && cif_value_get_element_at(cur, i, &next) == CIF_OK;
            cur = next;
        }
    }
    free(copy);
    if (!ok) return NULL;
    if (pk) { if (pkt_root) *pkt_root = pk; return NULL; }
    return cur;
}

static void dump_packet(cif_packet_tp *p) {
    const UChar **names = NULL;
    int i;
    if (p == NULL) { OUT("_"); return; }
    OUT("{");
    if (cif_packet_get_names(p, &names) == CIF_OK) {
        for (i = 0; names[i]; i++) {
            cif_value_tp *e = NULL;
            OUT(" K:"); outhex(names[i]); OUT(" ");
            if (cif_packet_get_item(p, names[i], &e) == CIF_OK) dumpx_value(e); else OUT("!");
        }
        free(names);
    } else OUT(" !names");
    OUT(" }");
}

/* dump of the root slot a reference starts at */
static void dump_root_of(const char *ref) {
    int k;
    char head[16];
    size_t n = strcspn(ref, "/");
    if (n >= sizeof(head)) { OUT("?"); return; }
    memcpy(head, ref, n); head[n] = 0;
    OUT(" : ");
    if ((k = parse_slot(head, 's', NV)) >= 0) { if (vals[k]) dumpx_value(vals[k]); else OUT("_"); }
    else if ((k = parse_slot(head, 'p', NP)) >= 0) dump_packet(pkts[k]);
    else OUT("?");
}

/* the source argument of set/insert: `~` = NULL; *bad set when the reference does not resolve */
static cif_value_tp *source(const char *t, int *bad) {
    cif_value_tp *v;
    *bad = 0;
    if (strcmp(t, "~") == 0) return NULL;
    v = resolve(t, NULL);
    if (v == NULL) *bad = 1;
    return v;
}

/* receive a removed member into an empty value slot, or (dst = "~") let the library free it */
static int dst_slot(const char *t) {      /* -1 = "~", -2 = bad */
    int k;
    if (strcmp(t, "~") == 0) return -1;
    k = parse_slot(t, 's', NV);
    if (k < 0 || vals[k] != NULL) return -2;
    return k;
}

static void one_op(int n, char **a) {
    int rc, k, bad;
    if (n == 3 && !strcmp(a[0], "new")) {
        if ((k = parse_slot(a[1], 's', NV)) < 0 || vals[k]) { OUT("bad"); return; }
        rc = cif_value_create((cif_kind_tp) atoi(a[2]), &vals[k]);
        if (rc != CIF_OK) vals[k] = NULL;
        OUT("%d", rc); dump_root_of(a[1]);
    } else if (n >= 3 && !strcmp(a[0], "bld")) {
        int pos = 2;
        if ((k = parse_slot(a[1], 's', NV)) < 0 || vals[k]) { OUT("bad"); return; }
        vals[k] = build_value(a, n, &pos, &rc);
        if (vals[k] == NULL || pos != n) { if (vals[k]) { cif_value_free(vals[k]); vals[k] = NULL; } OUT("bad"); return; }
        OUT("0"); dump_root_of(a[1]);
    } else if (n == 2 && !strcmp(a[0], "free")) {
        if ((k = parse_slot(a[1], 's', NV)) < 0 || !vals[k]) { OUT("bad"); return; }
        cif_value_free(vals[k]); vals[k] = NULL;
        OUT("0"); dump_root_of(a[1]);
    } else if (n == 3 && !strcmp(a[0], "cln")) {
        cif_value_tp *src = resolve(a[1], NULL), *dst;
        if (!src) { OUT("bad"); return; }
        if (!strchr(a[2], '/') && (k = parse_slot(a[2], 's', NV)) >= 0 && vals[k] == NULL) {
            rc = cif_value_clone(src, &vals[k]);
            if (rc != CIF_OK) vals[k] = NULL;
        } else {
            dst = resolve(a[2], NULL);
            if (!dst) { OUT("bad"); return; }
            rc = cif_value_clone(src, &dst);
        }
        OUT("%d", rc); dump_root_of(a[2]);
    } else if (n == 3 && !strcmp(a[0], "init")) {
        cif_value_tp *v = resolve(a[1], NULL);
        if (!v) { OUT("bad"); return; }
        rc = cif_value_init(v, (cif_kind_tp) atoi(a[2]));
        OUT("%d", rc); dump_root_of(a[1]);
    } else if (n == 3 && (!strcmp(a[0], "ichr") || !strcmp(a[0], "cchr"))) {
        cif_value_tp *v = resolve(a[1], NULL);
        UChar *text = NULL;
        if (!v || !unhex(a[2], &text, NULL)) { OUT("bad"); return; }
        if (a[0][0] == 'i') {
            if (text == NULL) { OUT("bad"); return; }
            rc = cif_value_init_char(v, text);          /* takes ownership on success */
            if (rc != CIF_OK) free(text);
        } else {
            rc = cif_value_copy_char(v, text);
            free(text);
        }
        OUT("%d", rc); dump_root_of(a[1]);
    } else if (n == 2 && !strcmp(a[0], "kind")) {
        cif_value_tp *v = resolve(a[1], NULL);
        if (!v) { OUT("bad"); return; }
        OUT("k%d q%d", (int) cif_value_kind(v), cif_value_is_quoted(v) == CIF_QUOTED ? 1 : 0);
    } else if (n == 2 && !strcmp(a[0], "text")) {
        cif_value_tp *v = resolve(a[1], NULL);
        UChar *t = NULL;
        if (!v) { OUT("bad"); return; }
        rc = cif_value_get_text(v, &t);
        OUT("%d ", rc); if (rc == CIF_OK) { outhex(t); free(t); }
    } else if (n == 2 && !strcmp(a[0], "cnt")) {
        cif_value_tp *v = resolve(a[1], NULL);
        size_t cnt = 0;
        if (!v) { OUT("bad"); return; }
        rc = cif_value_get_element_count(v, &cnt);
        if (rc == CIF_OK) OUT("0 %zu", cnt); else OUT("%d", rc);
    } else if (n == 3 && !strcmp(a[0], "lget")) {
        cif_value_tp *v = resolve(a[1], NULL), *e = NULL;
        if (!v) { OUT("bad"); return; }
        rc = cif_value_get_element_at(v, strtoul(a[2], NULL, 10), &e);
        OUT("%d ", rc); if (rc == CIF_OK) dumpx_value(e); else OUT("~");
    } else if (n == 4 && (!strcmp(a[0], "lset") || !strcmp(a[0], "lins"))) {
        cif_value_tp *v = resolve(a[1], NULL), *src = source(a[3], &bad);
        if (!v || bad) { OUT("bad"); return; }
        rc = a[0][1] == 's' ? cif_value_set_element_at(v, strtoul(a[2], NULL, 10), src)
                            : cif_value_insert_element_at(v, strtoul(a[2], NULL, 10), src);
        OUT("%d", rc); dump_root_of(a[1]);
    } else if (n == 4 && !strcmp(a[0], "lrem")) {
        cif_value_tp *v = resolve(a[1], NULL), *e = NULL;
        int d = dst_slot(a[3]);
        if (!v || d == -2) { OUT("bad"); return; }
        rc = cif_value_remove_element_at(v, strtoul(a[2], NULL, 10), d >= 0 ? &e : NULL);
        OUT("%d", rc);
        if (rc == CIF_OK && d >= 0) { vals[d] = e; OUT(" => "); dumpx_value(e); }
        dump_root_of(a[1]);
    } else if (n == 3 && (!strcmp(a[0], "tget") || !strcmp(a[0], "pget"))) {
        cif_packet_tp *pk = NULL;
        cif_value_tp *v = resolve(a[1], &pk), *e = NULL;
        key_tp key;
        if ((a[0][0] == 't' ? v == NULL : pk == NULL) || !parse_key(a[2], &key)) { OUT("bad"); return; }
        rc = pk ? cif_packet_get_item(pk, key.orig, &e) : cif_value_get_item_by_key(v, key.orig, &e);
        free(key.orig);
        OUT("%d ", rc); if (rc == CIF_OK) dumpx_value(e); else OUT("~");
    } else if (n == 4 && (!strcmp(a[0], "tset") || !strcmp(a[0], "pset"))) {
        cif_packet_tp *pk = NULL;
        cif_value_tp *v = resolve(a[1], &pk), *src = source(a[3], &bad);
        key_tp key;
        if ((a[0][0] == 't' ? v == NULL : pk == NULL) || bad || !parse_key(a[2], &key)) { OUT("bad"); return; }
        rc = pk ? cif_packet_set_item(pk, key.orig, src) : cif_value_set_item_by_key(v, key.orig, src);
        free(key.orig);
        OUT("%d", rc); dump_root_of(a[1]);
    } else if (n == 4 && (!strcmp(a[0], "trem") || !strcmp(a[0], "prem"))) {
        cif_packet_tp *pk = NULL;
        cif_value_tp *v = resolve(a[1], &pk), *e = NULL;
        key_tp key;
        int d = dst_slot(a[3]);
        if ((a[0][0] == 't' ? v == NULL : pk == NULL) || d == -2 || !parse_key(a[2], &key)) { OUT("bad"); return; }
        rc = pk ? cif_packet_remove_item(pk, key.orig, d >= 0 ? &e : NULL) : cif_value_remove_item_by_key(v, key.orig, d >= 0 ? &e : NULL);
        free(key.orig);
        OUT("%d", rc);
        if (rc == CIF_OK && d >= 0) { vals[d] = e; OUT(" => "); dumpx_value(e); }
        dump_root_of(a[1]);
    } else if (n == 2 && !strcmp(a[0], "tkeys")) {
        cif_value_tp *v = resolve(a[1], NULL);
        const UChar **keys = NULL;
        int i;
        if (!v) { OUT("bad"); return; }
        rc = cif_value_get_keys(v, &keys);
        OUT("%d", rc);
        if (rc == CIF_OK) { for (i = 0; keys[i]; i++) { OUT(" "); outhex(keys[i]); } free(keys); }
    } else if (n >= 3 && !strcmp(a[0], "pnew")) {
        int cnt = atoi(a[2]), i, ok = 1;
        UChar **names;
        if ((k = parse_slot(a[1], 'p', NP)) < 0 || pkts[k] || cnt < 0 || n != 3 + cnt) { OUT("bad"); return; }
        names = (UChar **) calloc(cnt + 1, sizeof(UChar *));
        for (i = 0; i < cnt; i++) { key_tp key; if (!parse_key(a[3 + i], &key)) { ok = 0; break; } names[i] = key.orig; }
        if (ok) {
            rc = cif_packet_create(&pkts[k], names);
            if (rc != CIF_OK) pkts[k] = NULL;
            OUT("%d", rc); dump_root_of(a[1]);
        } else OUT("bad");
        for (i = 0; i < cnt; i++) free(names[i]);
        free(names);
    } else if (n == 2 && !strcmp(a[0], "pnames")) {
        const UChar **names = NULL;
        int i;
        if ((k = parse_slot(a[1], 'p', NP)) < 0 || !pkts[k]) { OUT("bad"); return; }
        rc = cif_packet_get_names(pkts[k], &names);
        OUT("%d", rc);
        if (rc == CIF_OK) { for (i = 0; names[i]; i++) { OUT(" "); outhex(names[i]); } free(names); }
    } else if (n == 2 && !strcmp(a[0], "pfree")) {
        if ((k = parse_slot(a[1], 'p', NP)) < 0 || !pkts[k]) { OUT("bad"); return; }
        cif_packet_free(pkts[k]); pkts[k] = NULL;
        OUT("0"); dump_root_of(a[1]);
    } else {
        OUT("bad");
    }
}


#endif
