/* executor for family `valid` (C09): name / code validity
 *   valid fn <hex>   -> va name=<0|1> code=<0|1> dis=<0|1> ws=<0|1> n32=<u_countChar32>
 *        the file-static functions of utils.c, reached by including the source: cif_is_valid_name(s, 1), cif_is_valid_name(s, 0),
 *        cif_has_disallowed_chars, cif_has_whitespace
 *   valid api <hex>  -> va block=<rc> frame=<rc> item=<rc> loop=<rc> pkt=<rc> pktset=<rc> tkey=<rc>
 *        creation through the public API under that name: cif_create_block, cif_container_create_frame,
 *        cif_container_set_value, cif_container_create_loop, cif_packet_create, cif_packet_set_item, cif_value_set_item_by_key
 */
#include "common.h"
#include "utils.c"

static void handle(int argc, char **argv) {
    UChar *s = NULL;
    size_t n = 0, i;

    if (argc != 3 || !unhex(argv[2], &s, &n) || s == NULL) { OUT("bad-op"); free(s); return; }
    for (i = 0; i < n; i++) if (s[i] == 0) { OUT("bad-op"); free(s); return; }
    if (strcmp(argv[1], "fn") == 0) {
        OUT("va name=%d code=%d dis=%d ws=%d n32=%d", cif_is_valid_name(s, 1), cif_is_valid_name(s, 0),
            cif_has_disallowed_chars(s), cif_has_whitespace(s), (int) u_countChar32(s, -1));
    } else if (strcmp(argv[1], "api") == 0) {
        static const UChar b0code[] = { 'b', '0', 0 }, b1code[] = { 'b', '1', 0 };
        cif_tp *cif = NULL;
        cif_block_tp *b = NULL, *b0 = NULL, *b1 = NULL;
        cif_frame_tp *f = NULL;
        cif_loop_tp *loop = NULL;
        cif_packet_tp *p = NULL, *p2 = NULL;
        cif_value_tp *tbl = NULL;
        UChar *names[2];
        int rc;

        names[0] = s; names[1] = NULL;
        if (cif_create(&cif) != CIF_OK || cif_create_block(cif, b0code, &b0) != CIF_OK || cif_create_block(cif, b1code, &b1) != CIF_OK
                || cif_packet_create(&p2, NULL) != CIF_OK || cif_value_create(CIF_TABLE_KIND, &tbl) != CIF_OK) {
            OUT("va setup-failed");
        } else {
            rc = cif_create_block(cif, s, &b);                     OUT("va block=%d", rc);
            rc = cif_container_create_frame(b0, s, &f);            OUT(" frame=%d", rc);
            rc = cif_container_set_value(b0, s, NULL);             OUT(" item=%d", rc);
            rc = cif_container_create_loop(b1, NULL, names, &loop); OUT(" loop=%d", rc);
            rc = cif_packet_create(&p, names);                     OUT(" pkt=%d", rc);
            rc = cif_packet_set_item(p2, s, NULL);                 OUT(" pktset=%d", rc);
            rc = cif_value_set_item_by_key(tbl, s, NULL);          OUT(" tkey=%d", rc);
        }
        if (loop) cif_loop_free(loop);
        if (p) cif_packet_free(p);
        if (p2) cif_packet_free(p2);
        if (tbl) cif_value_free(tbl);
        if (f) cif_container_free(f);
        if (b) cif_container_free(b);
        if (b0) cif_container_free(b0);
        if (b1) cif_container_free(b1);
        if (cif) (void) cif_destroy(cif);
    } else OUT("bad-op");
    free(s);
}
