/* executor for family `locale` (C16): numeric locale and rounding mode before / after cif_value_init_numb and
   cif_value_autoinit_numb, on success, argument-error and allocation-failure paths.  The process runs with
   LC_NUMERIC = "C.UTF-8" (a locale whose name differs from "C"). */
#include "common.h"
#include <locale.h>
#include <fenv.h>

static void handle(int argc, char **argv) {
    cif_value_tp *v = NULL;
    char before[128], after[128];
    int rc, cls, exact, valid, r0, r1;
    long k;
    if (argc != 5) { OUT("bad-op"); return; }
    exact = atoi(argv[2]); valid = atoi(argv[3]); k = atol(argv[4]);
    if (!setlocale(LC_NUMERIC, "C.UTF-8")) { OUT("lc no-such-locale"); return; }
    snprintf(before, sizeof(before), "%s", setlocale(LC_NUMERIC, NULL));
    r0 = fegetround();
    if (cif_value_create(CIF_UNK_KIND, &v) != CIF_OK) { OUT("lc create-failed"); return; }
    verif_arm(0, k);
    ARM();
    if (!strcmp(argv[1], "init")) rc = cif_value_init_numb(v, 12.345, exact ? 0.0 : 0.02, valid ? 2 : 100000, 5);
    else rc = cif_value_autoinit_numb(v, 12.345, valid ? (exact ? 0.0 : 0.02) : -1.0, 19);
    DISARM();
    snprintf(after, sizeof(after), "%s", setlocale(LC_NUMERIC, NULL));
    r1 = fegetround();
    cls = (rc == CIF_OK) ? 0 : (rc == CIF_ARGUMENT_ERROR) ? 1 : 2;
    OUT("lc rc=%d loc=%s round=%s", cls, strcmp(before, after) ? "changed" : "same", r0 == r1 ? "same" : "changed");
    cif_value_free(v);
}
