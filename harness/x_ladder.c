/*
 * executor for family `ladder` (property C17): the allocation / release pattern of dup_ustrings, cif_value_clone,
 * cif_value_insert_element_at, cif_value_set_element_at and cif_loop_get_names under one failed allocation (see lean/Driver/Fam/Ladder.lean for the request language).
 * dup_ustrings is file-static in loop.c, which is therefore #included (HARNESS exclude_objs ["loop"]).
 */
#include "cifio.h"
#include "loop.c"
#include "parser.c"

/* build a value of the requested shape (un-armed); returns NULL on malformed input */
static cif_value_tp *mk(char **argv, int argc, int *pos) {
    cif_value_tp *v = NULL;
    const char *t;
    if (*pos >= argc) return NULL;
    t = argv[(*pos)++];
    if (!strcmp(t, "S")) { cif_value_create(CIF_UNK_KIND, &v); return v; }
    if (!strcmp(t, "C")) { UChar txt[] = { 'h', 'i', 0 }; cif_value_create(CIF_UNK_KIND, &v); cif_value_copy_char(v, txt); return v; }
    if (!strcmp(t, "M0") || !strcmp(t, "M1")) {
        UChar *txt = NULL;
        unhex(t[1] == '1' ? "0031002e0035002800320029" : "0031002e0035", &txt, NULL);   /* 1.5(2) / 1.5 */
        cif_value_create(CIF_UNK_KIND, &v);
        if (cif_value_parse_numb(v, txt) != CIF_OK) { free(txt); cif_value_free(v); return NULL; }
        return v;
    }
    if (!strcmp(t, "{")) {
        /* a table: { <key-hex> <shape> … } */
        cif_value_create(CIF_TABLE_KIND, &v);
        while (*pos < argc && strcmp(argv[*pos], "}")) {
            UChar *k = NULL;
            cif_value_tp *e;
            if (!unhex(argv[(*pos)++], &k, NULL) || !k) { cif_value_free(v); return NULL; }
            e = mk(argv, argc, pos);
            if (!e || cif_value_set_item_by_key(v, k, e) != CIF_OK) { free(k); cif_value_free(e); cif_value_free(v); return NULL; }
            free(k); cif_value_free(e);
        }
        if (*pos >= argc) { cif_value_free(v); return NULL; }
        (*pos)++;
        return v;
    }
    if (!strcmp(t, "[")) {
        cif_value_create(CIF_LIST_KIND, &v);
        while (*pos < argc && strcmp(argv[*pos], "]")) {
            size_t n;
            cif_value_tp *e = mk(argv, argc, pos);
            if (!e) { cif_value_free(v); return NULL; }
            cif_value_get_element_count(v, &n);
            cif_value_insert_element_at(v, n, e);
            cif_value_free(e);
        }
        if (*pos >= argc) { cif_value_free(v); return NULL; }
        (*pos)++;
        return v;
    }
    return NULL;
}

/* a scanner over a complete in-memory text, initialised as cif_parse() / cif_parse_internal() do (see x_lex.c) */
static ssize_t ld_read_none(void *src, UChar *dest, ssize_t count, int *error_code) { (void) src; (void) dest; (void) count; (void) error_code; return 0; }
static int ld_refuse(int code, size_t line, size_t column, const UChar *text, size_t length, void *data) {
    (void) line; (void) column; (void) text; (void) length; (void) data; return code;
}
static cif_handler_tp ld_no_handler;

static int cmp_long(const void *a, const void *b) { long x = *(const long *) a, y = *(const long *) b; return (x > y) - (x < y); }

/* order-insensitive summary of the recorded event string */
static void summary(int rc) {
    static long al[MAXEV], fl[MAXEV], fr[MAXEV];
    int na = 0, nf = 0, nr = 0, npf = 0, i, j, first;
    char *p = evbuf;
    while (*p) {
        char kind = *p++;
        long id;
        if (*p == 'p') { if (kind == 'F') npf++; p++; while (*p == ' ') p++; continue; }    /* pre-existing block: only counted */
        id = strtol(p, &p, 10);
        while (*p == ' ') p++;
        if (kind == 'A') al[na++] = id; else if (kind == 'X') fl[nf++] = id; else if (kind == 'F') fr[nr++] = id;
        /* 'R' (release of a window block by realloc) and pre-existing blocks ('Fp', 'Rp') are not part of the model */
    }
    qsort(fr, nr, sizeof(long), cmp_long);
    /* which of the two permitted failure codes is returned is not part of the model: 2 and 3 both print as E */
    if (rc == CIF_ERROR || rc == CIF_MEMORY_ERROR) OUT("ld rc=E allocs=%d fails=", na); else OUT("ld rc=%d allocs=%d fails=", rc, na);
    if (!nf) OUT("-"); for (i = 0; i < nf; i++) OUT("%s%ld", i ? "," : "", fl[i]);
    OUT(" frees=");
    if (!nr) OUT("-"); for (i = 0; i < nr; i++) OUT("%s%ld", i ? "," : "", fr[i]);
    OUT(" live=");
    first = 1;
    for (i = 0; i < na; i++) {
        for (j = 0; j < nr && fr[j] != al[i]; j++) ;
        if (j == nr) { OUT("%s%ld", first ? "" : ",", al[i]); first = 0; }
    }
    if (first) OUT("-");
    OUT(" pfrees=%d", npf);
    if (evoverflow) OUT(" overflow");
}

static void handle(int argc, char **argv) {
    int rc = -99, pos;
    if (argc == 4 && !strcmp(argv[1], "dup")) {
        int n = atoi(argv[2]), i;
        UChar **src = (UChar **) calloc(n + 1, sizeof(UChar *)), **dest = NULL;
        for (i = 0; i < n; i++) { UChar t[] = { '_', 'a', 0 }; src[i] = cif_u_strdup(t); }
        verif_arm(0, atol(argv[3]));
        ARM(); rc = dup_ustrings(&dest, src); DISARM();
        summary(rc);
        if (rc == CIF_OK && dest) { for (i = 0; dest[i]; i++) free(dest[i]); free(dest); }
        for (i = 0; i < n; i++) free(src[i]);
        free(src);
    } else if (argc >= 4 && (!strcmp(argv[1], "clone") || !strcmp(argv[1], "vclone"))) {
        cif_value_tp *v, *w = NULL;
        pos = 2;
        v = mk(argv, argc, &pos);
        if (!v || pos != argc - 1) { OUT("bad-op"); cif_value_free(v); return; }
        verif_arm(0, atol(argv[pos]));
        ARM(); rc = cif_value_clone(v, &w); DISARM();
        summary(rc);
        if (rc == CIF_OK && !w) OUT(" !NOCLONE");
        if (rc != CIF_OK && w) OUT(" !CLONESET");
        if (rc == CIF_OK && w) {
            /* the clone equals the source (dump through the public query API; walks both completely under ASan) */
            char *a = NULL, *b = NULL; size_t sa = 0, sb = 0;
            FILE *fa = open_memstream(&a, &sa), *fb = open_memstream(&b, &sb);
            fdump_value(fa, w); fdump_value(fb, v);
            fclose(fa); fclose(fb);
            if (!a || !b || strcmp(a, b)) OUT(" !NEWVALUE");
            free(a); free(b);
        }
        /* "shares no storage … modifying either leaves the other intact": grow the clone and the original when they are lists */
        if (rc == CIF_OK && w && cif_value_kind(w) == CIF_LIST_KIND) {
            cif_value_tp *filler = NULL; int i;
            cif_value_create(CIF_UNK_KIND, &filler);
            for (i = 0; i < 6; i++) { cif_value_insert_element_at(w, 0, filler); cif_value_insert_element_at(v, 0, filler); }
            cif_value_free(filler);
        }
        cif_value_free(w); cif_value_free(v);
    } else if (argc >= 5 && !strcmp(argv[1], "insert")) {
        cif_value_tp *lst = NULL, *e, *filler = NULL;
        int full = atoi(argv[2]), i;
        pos = 3;
        e = mk(argv, argc, &pos);
        if (!e || pos != argc - 1) { OUT("bad-op"); cif_value_free(e); return; }
        cif_value_create(CIF_LIST_KIND, &lst);
        cif_value_create(CIF_UNK_KIND, &filler);
        /* capacity grows 0 -> 4 -> 8 …: one element leaves room (not full), four elements fill the array */
        for (i = 0; i < (full ? 4 : 1); i++) cif_value_insert_element_at(lst, 0, filler);
        verif_arm(0, atol(argv[pos]));
        ARM(); rc = cif_value_insert_element_at(lst, 1, e); DISARM();
        summary(rc);
        /* "objects owned by the caller stay valid": keep using the list after the call, whatever its outcome — six more
           insertions with memory available, a read of every element, then release (all under ASan) */
        {
            size_t n = 0, j;
            int rc2 = CIF_OK;
            for (i = 0; i < 6 && rc2 == CIF_OK; i++) rc2 = cif_value_insert_element_at(lst, 0, filler);
            if (rc2 != CIF_OK) OUT(" later-insert=%d", rc2);
            if (cif_value_get_element_count(lst, &n) == CIF_OK)
                for (j = 0; j < n; j++) { cif_value_tp *x = NULL; if (cif_value_get_element_at(lst, j, &x) != CIF_OK || !x) OUT(" unreadable@%zu", j); else (void) cif_value_kind(x); }
            if (n != (size_t) ((full ? 4 : 1) + (rc == CIF_OK ? 1 : 0) + 6)) OUT(" size=%zu", n);
        }
        cif_value_free(filler); cif_value_free(e); cif_value_free(lst);
    } else if (argc == 4 && (!strcmp(argv[1], "names") || !strcmp(argv[1], "namesfixed") || !strcmp(argv[1], "namesnorm"))) {
        /* cif_loop_get_names on a stored loop with n item names _a0 … (SQLite's own allocations are not wrapped here) */
        int n = atoi(argv[2]), i;
        cif_tp *cif = NULL;
        cif_block_tp *blk = NULL;
        cif_loop_tp *loop = NULL;
        UChar code[] = { 'b', 0 };
        UChar **names, **got = NULL;
        if (n < 1 || n > 60) { OUT("bad-op"); return; }
        names = (UChar **) calloc(n + 1, sizeof(UChar *));
        for (i = 0; i < n; i++) { char b[16]; int j; snprintf(b, sizeof b, "_a%d", i); names[i] = (UChar *) calloc(16, sizeof(UChar)); for (j = 0; b[j]; j++) names[i][j] = (UChar) b[j]; }
        if (cif_create(&cif) != CIF_OK || cif_create_block(cif, code, &blk) != CIF_OK
                || cif_container_create_loop(blk, NULL, names, &loop) != CIF_OK) OUT("setup-failed ");
        verif_arm(0, atol(argv[3]));
        ARM(); rc = !loop ? -98 : !strcmp(argv[1], "namesnorm") ? cif_loop_get_names_internal(loop, &got, CIF_TRUE) : cif_loop_get_names(loop, &got); DISARM();
        summary(rc);
        if (rc == CIF_OK && got) { for (i = 0; got[i]; i++) free(got[i]); if (i != n) OUT(" !NAMES%d", i); free(got); }
        if (loop) cif_loop_free(loop);
        if (blk) cif_container_free(blk);
        if (cif) cif_destroy(cif);
        for (i = 0; i < n; i++) free(names[i]);
        free(names);
    } else if (argc >= 6 && (!strcmp(argv[1], "mapset") || !strcmp(argv[1], "mapdel") || !strcmp(argv[1], "tclone"))) {
        /* ladder mapset <T|P> <n> <key>*n <key> <shape…|~> <k>   cif_value_set_item_by_key / cif_packet_set_item
           ladder mapdel <T|P> <n> <key>*n <key> <keep 0|1> <k>   cif_value_remove_item_by_key / cif_packet_remove_item
           ladder tclone T <n> <key>*n <shape…> <k>               cif_value_clone of a table whose n entries all have <shape>
           <key> = <orig-hex>[:<norm-hex>] (only the original spelling is used here); the map holding the n keys is built
           before the window through the same public functions, every entry with the character value 'hi'
           (tclone: with a value of <shape>) */
        int is_pkt = !strcmp(argv[2], "P"), n = atoi(argv[3]), i, op = argv[1][3] == 's' ? 0 : argv[1][3] == 'd' ? 1 : 2;
        cif_value_tp *tbl = NULL, *hi = NULL, *val = NULL, *out = NULL, *w = NULL;
        cif_packet_tp *pkt = NULL;
        UChar txt[] = { 'h', 'i', 0 }, *key = NULL, **keys;
        int have_val = 0, keep = 0;
        if (n < 0 || n > 2000 || argc < 4 + n + 2 || (is_pkt && op == 2)) { OUT("bad-op"); return; }
        keys = (UChar **) calloc(n + 1, sizeof(UChar *));
        for (i = 0; i < n; i++) { char *c = strchr(argv[4 + i], ':'); if (c) *c = 0; unhex(argv[4 + i], &keys[i], NULL); }
        pos = 4 + n;
        if (op != 2) { char *c = strchr(argv[pos], ':'); if (c) *c = 0; unhex(argv[pos], &key, NULL); pos++; }
        if (op == 1) { keep = atoi(argv[pos++]); }
        else if (!strcmp(argv[pos], "~")) pos++;
        else { val = mk(argv, argc, &pos); have_val = 1; }
        if (pos != argc - 1 || (have_val && !val)) { OUT("bad-op"); goto mapdone; }
        cif_value_create(CIF_UNK_KIND, &hi); cif_value_copy_char(hi, txt);
        if (is_pkt) cif_packet_create(&pkt, NULL); else cif_value_create(CIF_TABLE_KIND, &tbl);
        for (i = 0; i < n; i++) {
            int r = is_pkt ? cif_packet_set_item(pkt, keys[i], hi) : cif_value_set_item_by_key(tbl, keys[i], op == 2 ? val : hi);
            if (r != CIF_OK) { OUT("setup-failed"); goto mapdone; }
        }
        verif_arm(0, atol(argv[pos]));
        ARM();
        if (op == 0) rc = is_pkt ? cif_packet_set_item(pkt, key, val) : cif_value_set_item_by_key(tbl, key, val);
        else if (op == 1) rc = is_pkt ? cif_packet_remove_item(pkt, key, keep ? &out : NULL) : cif_value_remove_item_by_key(tbl, key, keep ? &out : NULL);
        else rc = cif_value_clone(tbl, &w);
        DISARM();
        summary(rc);
        /* keep using the map: enumerate and read every item, then release everything (all under ASan + leak accounting) */
        {
            const UChar **nm = NULL; int cnt = 0;
            cif_value_tp *m = op == 2 ? w : tbl;
            if (op == 2 && rc != CIF_OK) m = NULL;
            if (is_pkt ? cif_packet_get_names(pkt, &nm) == CIF_OK : (m && cif_value_get_keys(m, &nm) == CIF_OK)) {
                for (i = 0; nm[i]; i++) { cif_value_tp *x = NULL; cnt++; if ((is_pkt ? cif_packet_get_item(pkt, nm[i], &x) : cif_value_get_item_by_key(m, nm[i], &x)) != CIF_OK || !x) OUT(" !ITEM%d", i); else { FILE *f = fopen("/dev/null", "w"); fdump_value(f, x); fclose(f); } }
                free(nm);
                OUT(" items=%d", cnt);
            } else if (op == 2 && !m) OUT(" items=0");
        }
        if (out) cif_value_free(out);
      mapdone:
        cif_value_free(w); cif_value_free(tbl); cif_packet_free(pkt); cif_value_free(hi); cif_value_free(val);
        for (i = 0; i < n; i++) free(keys[i]);
        free(keys); free(key);
    } else if (argc >= 4 && (!strcmp(argv[1], "deser") || !strcmp(argv[1], "vdeser"))) {
        /* serialise a list value (un-armed), then deserialise the blob onto a fresh value object, as GET_VALUE_PROPS does */
        cif_value_tp *v, *dest = NULL;
        buffer_tp *buf = NULL;
        pos = 2;
        v = mk(argv, argc, &pos);
        if (!v || pos != argc - 1 || (cif_value_kind(v) != CIF_LIST_KIND && cif_value_kind(v) != CIF_TABLE_KIND)) { OUT("bad-op"); cif_value_free(v); return; }
        if (cif_value_serialize(v, &buf) != CIF_OK || !buf || cif_value_create(CIF_UNK_KIND, &dest) != CIF_OK) { OUT("setup-failed"); cif_value_free(v); return; }
        verif_arm(0, atol(argv[pos]));
        ARM(); rc = cif_value_deserialize(buf->for_writing.start, buf->for_writing.limit, dest); DISARM();
        summary(rc);
        OUT(" code=%d", rc);                 /* which of the two permitted failure codes: part of the model here */
        {
            char *a = NULL, *b = NULL; size_t sa = 0, sb = 0;
            FILE *fa = open_memstream(&a, &sa), *fb = open_memstream(&b, &sb);
            fdump_value(fa, dest); fdump_value(fb, v);       /* dest must be a valid value in any case */
            fclose(fa); fclose(fb);
            if (rc == CIF_OK && (!a || !b || strcmp(a, b))) OUT(" !NEWVALUE");
            free(a); free(b);
        }
        free(buf->for_writing.start); free(buf);
        cif_value_free(dest); cif_value_free(v);
    } else if (argc >= 4 && !strcmp(argv[1], "copychar")) {
        cif_value_tp *v;
        UChar txt[] = { 'n', 'e', 'w', 0 }, *got = NULL;
        pos = 2;
        v = mk(argv, argc, &pos);
        if (!v || pos != argc - 1) { OUT("bad-op"); cif_value_free(v); return; }
        /* the target is a CLONE of the built value (as in `set`, and as the model builds it): a cloned empty list owns a
           zero-length element array, a freshly created one does not */
        { cif_value_tp *c = NULL; if (cif_value_clone(v, &c) != CIF_OK) { OUT("setup-failed"); cif_value_free(v); return; } cif_value_free(v); v = c; }
        verif_arm(0, atol(argv[pos]));
        ARM(); rc = cif_value_copy_char(v, txt); DISARM();
        summary(rc);
        if (rc == CIF_OK) { if (cif_value_kind(v) != CIF_CHAR_KIND || cif_value_get_text(v, &got) != CIF_OK || !got || u_strcmp(got, txt)) OUT(" !TEXT"); free(got); }
        else { FILE *f = fopen("/dev/null", "w"); if (f) { fdump_value(f, v); fclose(f); } }    /* still a valid value */
        cif_value_free(v);
    } else if (argc == 4 && (!strcmp(argv[1], "packet") || !strcmp(argv[1], "packetfixed"))) {
        /* cif_packet_create with one name per character of argv[2] ('-' = none): 'n' = a name that is already in normalised
           form (_a<i>), 'r' = a respelled one (_A<i>: the original spelling is kept in a separate copy).  ASCII names, so
           cif_normalize makes exactly three requests per name; ICU's own allocations are not wrapped in this executor. */
        const char *fl = strcmp(argv[2], "-") ? argv[2] : "";
        int n = (int) strlen(fl), i;
        cif_packet_tp *pkt = NULL;
        UChar **names;
        if (n > 40 || strspn(fl, "nr") != (size_t) n) { OUT("bad-op"); return; }
        names = (UChar **) calloc(n + 1, sizeof(UChar *));
        for (i = 0; i < n; i++) { char b[16]; int j; snprintf(b, sizeof b, fl[i] == 'r' ? "_A%d" : "_a%d", i); names[i] = (UChar *) calloc(16, sizeof(UChar)); for (j = 0; b[j]; j++) names[i][j] = (UChar) b[j]; }
        verif_arm(0, atol(argv[3]));
        ARM(); rc = cif_packet_create(&pkt, names); DISARM();
        summary(rc);
        if (rc == CIF_OK && pkt) {
            /* the packet must be a usable packet with exactly the requested items under their original spellings */
            const UChar **got = NULL;
            if (cif_packet_get_names(pkt, &got) != CIF_OK || !got) OUT(" !PNAMES");
            else { for (i = 0; got[i]; i++) if (i >= n || u_strcmp(got[i], names[i])) OUT(" !PNAME%d", i); if (i != n) OUT(" !PCOUNT%d", i); free(got); }
            for (i = 0; i < n; i++) { cif_value_tp *v = NULL; if (cif_packet_get_item(pkt, names[i], &v) != CIF_OK || !v) OUT(" !PITEM%d", i); }
            cif_packet_free(pkt);
        } else if (rc == CIF_OK) OUT(" !NOPACKET");
        for (i = 0; i < n; i++) free(names[i]);
        free(names);
    } else if (argc == 4 && !strcmp(argv[1], "allloops")) {
        /* cif_container_get_all_loops on a block holding one loop per character of argv[2]: 'c' = with a category, 'n' = without */
        const char *fl = argv[2];
        int n = (int) strlen(fl), i;
        cif_tp *cif = NULL; cif_block_tp *blk = NULL; cif_loop_tp **loops = NULL;
        UChar code[] = { 'b', 0 };
        if (n < 1 || n > 40 || strspn(fl, "cn") != (size_t) n) { OUT("bad-op"); return; }
        if (cif_create(&cif) != CIF_OK || cif_create_block(cif, code, &blk) != CIF_OK) { OUT("setup-failed"); goto aldone; }
        for (i = 0; i < n; i++) {
            char b[24]; UChar nm[24], cat[24], *names[2]; int j; cif_loop_tp *lp = NULL;
            snprintf(b, sizeof b, "_l%d.x", i); for (j = 0; b[j]; j++) nm[j] = (UChar) b[j]; nm[j] = 0;
            snprintf(b, sizeof b, "cat%d", i); for (j = 0; b[j]; j++) cat[j] = (UChar) b[j]; cat[j] = 0;
            names[0] = nm; names[1] = NULL;
            if (cif_container_create_loop(blk, fl[i] == 'c' ? cat : NULL, names, &lp) != CIF_OK) { OUT("setup-failed"); goto aldone; }
            cif_loop_free(lp);
        }
        verif_arm(0, atol(argv[3]));
        ARM(); rc = cif_container_get_all_loops(blk, &loops); DISARM();
        summary(rc);
        if (rc == CIF_OK) {
            if (!loops) OUT(" !NOLOOPS");
            else {
                for (i = 0; loops[i]; i++) { UChar *c = NULL; if (cif_loop_get_category(loops[i], &c) != CIF_OK) OUT(" !LOOPUSE%d", i); free(c); cif_loop_free(loops[i]); }
                if (i != n) OUT(" !LOOPCOUNT%d", i);
                free(loops);
            }
        } else if (loops) OUT(" !LOOPSSET");
        /* "the same call succeeds when repeated with memory available" */
        if (rc != CIF_OK) { loops = NULL; if (cif_container_get_all_loops(blk, &loops) != CIF_OK || !loops) OUT(" !RETRY"); else { for (i = 0; loops[i]; i++) cif_loop_free(loops[i]); free(loops); } }
      aldone:
        if (blk) cif_container_free(blk);
        if (cif) cif_destroy(cif);
    } else if (argc == 4 && !strcmp(argv[1], "loophdr")) {
        /* parse_loop() of parser.c, syntax-only (container == NULL), on the text " _a0 … _a<n-1> _a0": n distinct names and a
           repetition of the first, which the error callback refuses — so parse_loop_header returns an error on every path
           and parse_loop releases the name list.  The scanner's buffer holds the whole text (no request by the scanner). */
        int n = atoi(argv[2]), i;
        struct scanner_s scanner;
        char text[2048]; size_t len = 0, j;
        if (n < 1 || n > 100) { OUT("bad-op"); return; }
        for (i = 0; i <= n; i++) len += (size_t) snprintf(text + len, sizeof(text) - len, " _a%d", i == n ? 0 : i);
        len += (size_t) snprintf(text + len, sizeof(text) - len, "\n");
        memset(&scanner, 0, sizeof(scanner));
        scanner.read_func = ld_read_none;
        scanner.at_eof = CIF_TRUE;
        scanner.cif_version = 2;
        scanner.max_frame_depth = 1;
        scanner.handler = &ld_no_handler;
        scanner.error_callback = ld_refuse;
        scanner.buffer_size = len + BUF_MIN_FILL + 1;
        scanner.buffer = (UChar *) malloc(scanner.buffer_size * sizeof(UChar));
        for (j = 0; j < len; j++) scanner.buffer[j] = (UChar) text[j];
        scanner.buffer_limit = len;
        INIT_V2_SCANNER(&scanner, NULL, NULL);
        scanner.next_char = scanner.buffer;
        scanner.text_start = scanner.buffer;
        scanner.tvalue_start = scanner.buffer;
        scanner.tvalue_length = 0;
        verif_arm(0, atol(argv[3]));
        ARM(); rc = parse_loop(&scanner, NULL); DISARM();
        summary(rc);
        free(scanner.buffer);
    } else if (argc >= 5 && (!strcmp(argv[1], "getpackets") || !strcmp(argv[1], "nextpacket"))) {
        /* ladder getpackets <n> <name-hex>*n <k>                         cif_loop_get_packets
           ladder nextpacket <keep> <n> (<name-hex> <vshape…>)*n <k>      cif_pktitr_next_packet (packet == NULL / *packet == NULL)
           a stored loop with the n item names and ONE packet holding the given values (getpackets: unknown values); SQLite's own
           allocations are not wrapped in this executor, so only the library's requests are events */
        int isnext = argv[1][0] == 'n', keep = 0, n, i, bad = 0;
        cif_tp *cif = NULL; cif_block_tp *blk = NULL; cif_loop_tp *loop = NULL; cif_packet_tp *pkt = NULL, *got = NULL;
        cif_pktitr_tp *it = NULL;
        UChar code[] = { 'b', 0 }, **names; cif_value_tp **vals;
        pos = 2;
        if (isnext) keep = atoi(argv[pos++]);
        n = atoi(argv[pos++]);
        if (n < 1 || n > 60) { OUT("bad-op"); return; }
        names = (UChar **) calloc(n + 1, sizeof(UChar *)); vals = (cif_value_tp **) calloc(n + 1, sizeof(cif_value_tp *));
        for (i = 0; i < n && !bad; i++) {
            if (pos >= argc - 1 || !unhex(argv[pos++], &names[i], NULL) || !names[i]) bad = 1;
            else if (isnext && !(vals[i] = mk(argv, argc, &pos))) bad = 1;
        }
        if (bad || pos != argc - 1) { OUT("bad-op"); goto itdone; }
        if (cif_create(&cif) != CIF_OK || cif_create_block(cif, code, &blk) != CIF_OK
                || cif_container_create_loop(blk, NULL, names, &loop) != CIF_OK || cif_packet_create(&pkt, names) != CIF_OK) { OUT("setup-failed"); goto itdone; }
        for (i = 0; i < n; i++) if (vals[i] && cif_packet_set_item(pkt, names[i], vals[i]) != CIF_OK) { OUT("setup-failed"); goto itdone; }
        if (cif_loop_add_packet(loop, pkt) != CIF_OK) { OUT("setup-failed"); goto itdone; }
        if (!isnext) {
            verif_arm(0, atol(argv[pos]));
            ARM(); rc = cif_loop_get_packets(loop, &it); DISARM();
            summary(rc);
            if (rc == CIF_OK && !it) OUT(" !NOITER");
            if (rc != CIF_OK && it) { OUT(" !ITERSET"); it = NULL; }
            /* "the same call succeeds when repeated with memory available" */
            if (rc != CIF_OK && cif_loop_get_packets(loop, &it) != CIF_OK) { OUT(" !RETRY"); it = NULL; }
            /* the iterator is usable: read the packet through it, then abort */
            if (it) { int r2 = cif_pktitr_next_packet(it, &got); if (r2 != CIF_OK || !got) OUT(" !ITERUSE%d", r2); }
        } else {
            if (cif_loop_get_packets(loop, &it) != CIF_OK || !it) { OUT("setup-failed"); it = NULL; goto itdone; }
            verif_arm(0, atol(argv[pos]));
            ARM(); rc = cif_pktitr_next_packet(it, keep ? &got : NULL); DISARM();
            summary(rc);
            if (rc == CIF_OK && keep && !got) OUT(" !NOPACKET");
            if (rc != CIF_OK && got) { OUT(" !PACKETSET"); got = NULL; }
            if (rc == CIF_OK && got) {
                /* the packet read back holds exactly the stored values */
                for (i = 0; i < n; i++) {
                    cif_value_tp *x = NULL;
                    char *a = NULL, *b = NULL; size_t sa = 0, sb = 0;
                    FILE *fa, *fb;
                    if (cif_packet_get_item(got, names[i], &x) != CIF_OK || !x) { OUT(" !PITEM%d", i); continue; }
                    fa = open_memstream(&a, &sa); fb = open_memstream(&b, &sb);
                    fdump_value(fa, x); fdump_value(fb, vals[i]);
                    fclose(fa); fclose(fb);
                    if (!a || !b || strcmp(a, b)) OUT(" !PVALUE%d", i);
                    free(a); free(b);
                }
            }
        }
      itdone:
        cif_packet_free(got);
        if (it) cif_pktitr_abort(it);
        cif_packet_free(pkt);
        if (loop) cif_loop_free(loop);
        if (blk) cif_container_free(blk);
        if (cif) cif_destroy(cif);
        for (i = 0; i < n; i++) { free(names[i]); cif_value_free(vals[i]); }
        free(names); free(vals);
    } else if (argc >= 5 && !strcmp(argv[1], "set")) {
        /* the target is element 1 of [ ? <tshape> ? ]; replacing it releases pre-existing blocks only (counted as pfrees) */
        cif_value_tp *lst = NULL, *e, *filler = NULL, *old, *probe = NULL;
        size_t n = 99;
        int i;
        pos = 2;
        old = mk(argv, argc, &pos);
        e = old ? mk(argv, argc, &pos) : NULL;
        if (!old || !e || pos != argc - 1) { OUT("bad-op"); cif_value_free(e); cif_value_free(old); return; }
        cif_value_create(CIF_LIST_KIND, &lst);
        cif_value_create(CIF_UNK_KIND, &filler);
        for (i = 0; i < 3; i++) cif_value_insert_element_at(lst, 0, i == 1 ? old : filler);
        verif_arm(0, atol(argv[pos]));
        ARM(); rc = cif_value_set_element_at(lst, 1, e); DISARM();
        summary(rc);
        /* the list and its element must still be usable and releasable ("objects owned by the caller stay valid"); on
           success the element equals the source */
        if (cif_value_get_element_count(lst, &n) != CIF_OK || n != 3) OUT(" !COUNT");
        if (cif_value_get_element_at(lst, 1, &probe) != CIF_OK || !probe) OUT(" !ELEM");
        else {
            char *a = NULL, *b = NULL; size_t sa = 0, sb = 0;
            FILE *fa = open_memstream(&a, &sa), *fb = open_memstream(&b, &sb);
            /* on failure the element only has to be a valid value (the dump walks all of it under ASan); that the
               repaired code leaves it untouched is observed as pfrees=0 and compared with the model */
            fdump_value(fa, probe); fdump_value(fb, e);
            fclose(fa); fclose(fb);
            if (rc == CIF_OK && (!a || !b || strcmp(a, b))) OUT(" !NEWVALUE");
            free(a); free(b);
        }
        cif_value_free(old); cif_value_free(filler); cif_value_free(e); cif_value_free(lst);
    } else {
        OUT("bad-op");
    }
}
