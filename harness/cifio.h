/*
 * cifio.h — shared by executors that need whole values / whole CIFs in a request or an observation.
 *
 * Token language (tokens are separated by single spaces; <hex> = 4 hex digits per UTF-16 unit, `-` empty, `~` NULL):
 *
 *   value  ::= U                               unknown value
 *            | N                               not-applicable value
 *            | C<q>:<hex>                      character value, q = 0 (not quoted) | 1 (quoted)
 *            | M<q>:<hex>                      number given by its text (built with cif_value_parse_numb, then q applied)
 *            | [ value* ]                      list
 *            | { (K:<hex> value)* }            table; key in the spelling given
 *   cif    ::= block*
 *   block  ::= B:<hex> body E                  data block with the given code
 *   frame  ::= F:<hex> body E                  save frame
 *   body   ::= (frame | loop)*
 *   loop   ::= L:<cathex|~>:<n> name{n} packet* Z     n item names, then packets
 *   packet ::= P value{n}
 *   A loop with category `-` (the empty string) is the scalar loop: it is built with cif_container_set_value, one call per
 *   item; any other loop with cif_container_create_loop + cif_loop_add_packet.
 *
 * Dumps use the same language (numbers as M<q>:<hex of their text>; a loop item without a stored value as U; list and
 * table brackets surrounded by single spaces), preceded by a space per token.
 */
#ifndef VERIF_CIFIO_H
#define VERIF_CIFIO_H

#include "common.h"

/* ---- building ------------------------------------------------------------------------------------------- */

/* parse one value starting at argv[*pos]; returns a new value object or NULL on malformed input / API failure
   (*rc receives the API code in the latter case) */
static cif_value_tp *build_value(char **argv, int argc, int *pos, int *rc) {
    cif_value_tp *v = NULL;
    const char *t;
    *rc = CIF_OK;
    if (*pos >= argc) { *rc = -1; return NULL; }
    t = argv[(*pos)++];
    if (strcmp(t, "U") == 0) { *rc = cif_value_create(CIF_UNK_KIND, &v); return v; }
    if (strcmp(t, "N") == 0) { *rc = cif_value_create(CIF_NA_KIND, &v); return v; }
    if ((t[0] == 'C' || t[0] == 'M') && (t[1] == '0' || t[1] == '1') && t[2] == ':') {
        UChar *text = NULL;
        if (!unhex(t + 3, &text, NULL) || text == NULL) { *rc = -1; return NULL; }
        if ((*rc = cif_value_create(CIF_UNK_KIND, &v)) != CIF_OK) { free(text); return NULL; }
        if (t[0] == 'C') {
            *rc = cif_value_init_char(v, text);                 /* takes ownership of text on success */
            if (*rc == CIF_OK && t[1] == '0') *rc = cif_value_set_quoted(v, CIF_NOT_QUOTED);
        } else {
            *rc = cif_value_parse_numb(v, text);                /* takes ownership of text on success */
            if (*rc == CIF_OK && t[1] == '1') *rc = cif_value_set_quoted(v, CIF_QUOTED);
        }
        if (*rc != CIF_OK) { cif_value_free(v); return NULL; }  /* text leaked only on the failure path of a test harness */
        return v;
    }
    if (strcmp(t, "[") == 0) {
        if ((*rc = cif_value_create(CIF_LIST_KIND, &v)) != CIF_OK) return NULL;
        while (*pos < argc && strcmp(argv[*pos], "]") != 0) {
            size_t n;
            cif_value_tp *e = build_value(argv, argc, pos, rc);
            if (e == NULL) { cif_value_free(v); return NULL; }
            cif_value_get_element_count(v, &n);
            *rc = cif_value_insert_element_at(v, n, e);
            cif_value_free(e);
            if (*rc != CIF_OK) { cif_value_free(v); return NULL; }
        }
        if (*pos >= argc) { *rc = -1; cif_value_free(v); return NULL; }
        (*pos)++;
        return v;
    }
    if (strcmp(t, "{") == 0) {
        if ((*rc = cif_value_create(CIF_TABLE_KIND, &v)) != CIF_OK) return NULL;
        while (*pos < argc && strcmp(argv[*pos], "}") != 0) {
            UChar *key = NULL;
            cif_value_tp *e;
            if (strncmp(argv[*pos], "K:", 2) != 0 || !unhex(argv[*pos] + 2, &key, NULL) || key == NULL) { *rc = -1; cif_value_free(v); return NULL; }
            (*pos)++;
            e = build_value(argv, argc, pos, rc);
            if (e == NULL) { free(key); cif_value_free(v); return NULL; }
            *rc = cif_value_set_item_by_key(v, key, e);
            cif_value_free(e);
            free(key);
            if (*rc != CIF_OK) { cif_value_free(v); return NULL; }
        }
        if (*pos >= argc) { *rc = -1; cif_value_free(v); return NULL; }
        (*pos)++;
        return v;
    }
    *rc = -1;
    return NULL;
}

static int build_body(cif_container_tp *c, char **argv, int argc, int *pos);

static int build_loop(cif_container_tp *c, const char *head, char **argv, int argc, int *pos) {
    /* head = "L:<cat>:<n>" */
    char *spec = strdup(head + 2), *colon = strrchr(spec, ':');
    UChar *cat = NULL, **names;
    int n, i, rc = CIF_OK, scalar;
    cif_loop_tp *loop = NULL;
    if (!colon) { free(spec); return -1; }
    *colon = 0;
    n = atoi(colon + 1);
    if (!unhex(spec, &cat, NULL) || n < 0 || *pos + n > argc) { free(spec); return -1; }
    free(spec);
    scalar = (cat != NULL && cat[0] == 0);
    names = (UChar **) calloc(n + 1, sizeof(UChar *));
    for (i = 0; i < n; i++) if (!unhex(argv[(*pos)++], &names[i], NULL)) return -1;
    if (!scalar) {
        rc = cif_container_create_loop(c, cat, names, &loop);
        if (rc != CIF_OK) return rc;
    }
    while (*pos < argc && strcmp(argv[*pos], "P") == 0) {
        cif_packet_tp *pkt = NULL;
        (*pos)++;
        if (!scalar && (rc = cif_packet_create(&pkt, NULL)) != CIF_OK) return rc;
        for (i = 0; i < n; i++) {
            cif_value_tp *v = build_value(argv, argc, pos, &rc);
            if (v == NULL) return rc ? rc : -1;
            rc = scalar ? cif_container_set_value(c, names[i], v) : cif_packet_set_item(pkt, names[i], v);
            cif_value_free(v);
            if (rc != CIF_OK) return rc;
        }
        if (!scalar) {
            rc = cif_loop_add_packet(loop, pkt);
            cif_packet_free(pkt);
            if (rc != CIF_OK) return rc;
        }
    }
    if (*pos >= argc || strcmp(argv[*pos], "Z") != 0) return -1;
    (*pos)++;
    if (loop) cif_loop_free(loop);
    for (i = 0; i < n; i++) free(names[i]);
    free(names);
    free(cat);
    return CIF_OK;
}

static int build_body(cif_container_tp *c, char **argv, int argc, int *pos) {
    while (*pos < argc) {
        const char *t = argv[*pos];
        int rc;
        if (strcmp(t, "E") == 0) { (*pos)++; return CIF_OK; }
        if (strncmp(t, "F:", 2) == 0) {
            UChar *code = NULL;
            cif_frame_tp *f = NULL;
            if (!unhex(t + 2, &code, NULL)) return -1;
            (*pos)++;
            rc = cif_container_create_frame(c, code, &f);
            free(code);
            if (rc != CIF_OK) return rc;
            rc = build_body(f, argv, argc, pos);
            cif_container_free(f);
            if (rc != CIF_OK) return rc;
        } else if (strncmp(t, "L:", 2) == 0) {
            (*pos)++;
            if ((rc = build_loop(c, t, argv, argc, pos)) != CIF_OK) return rc;
        } else {
            return -1;
        }
    }
    return -1; /* missing E */
}

/* builds blocks from argv[*pos…] until a token that is not `B:…`; returns CIF_OK, an API code, or -1 (malformed) */
static int build_cif(cif_tp *cif, char **argv, int argc, int *pos) {
    while (*pos < argc && strncmp(argv[*pos], "B:", 2) == 0) {
        UChar *code = NULL;
        cif_block_tp *b = NULL;
        int rc;
        if (!unhex(argv[*pos] + 2, &code, NULL)) return -1;
        (*pos)++;
        rc = cif_create_block(cif, code, &b);
        free(code);
        if (rc != CIF_OK) return rc;
        rc = build_body(b, argv, argc, pos);
        cif_container_free(b);
        if (rc != CIF_OK) return rc;
    }
    return CIF_OK;
}

/* ---- dumping -------------------------------------------------------------------------------------------- */
/*
 * All dump functions write to a FILE* (usually a memstream).  With canon != 0 the dump is independent of the store's
 * enumeration orders, which no documented property fixes: blocks and frames are sorted by their dumped text, loops by
 * their dumped text, and the item names of a loop by code units (packet values permuted accordingly).  Packets stay in
 * iteration order.
 */

static void fhexn(FILE *f, const UChar *s, size_t n) {
    size_t i;
    if (s == NULL) { fputc('~', f); return; }
    if (n == 0) { fputc('-', f); return; }
    for (i = 0; i < n; i++) fprintf(f, "%04x", (unsigned) s[i]);
}
static void fhex(FILE *f, const UChar *s) { fhexn(f, s, s ? (size_t) u_strlen(s) : 0); }

static void fdump_value(FILE *f, cif_value_tp *v) {
    UChar *t = NULL;
    size_t n, i;
    const UChar **keys = NULL;
    if (v == NULL) { fprintf(f, "~"); return; }
    switch (cif_value_kind(v)) {
    case CIF_UNK_KIND: fprintf(f, "U"); break;
    case CIF_NA_KIND: fprintf(f, "N"); break;
    case CIF_CHAR_KIND:
    case CIF_NUMB_KIND:
        fprintf(f, "%c%d:", cif_value_kind(v) == CIF_CHAR_KIND ? 'C' : 'M', cif_value_is_quoted(v) == CIF_QUOTED ? 1 : 0);
        if (cif_value_get_text(v, &t) == CIF_OK) { fhex(f, t); free(t); } else fprintf(f, "!");
        break;
    case CIF_LIST_KIND:
        fprintf(f, "[");
        if (cif_value_get_element_count(v, &n) == CIF_OK)
            for (i = 0; i < n; i++) { cif_value_tp *e = NULL; fprintf(f, " "); if (cif_value_get_element_at(v, i, &e) == CIF_OK) fdump_value(f, e); else fprintf(f, "!"); }
        fprintf(f, " ]");
        break;
    case CIF_TABLE_KIND:
        fprintf(f, "{");
        if (cif_value_get_keys(v, &keys) == CIF_OK) {
            for (i = 0; keys[i]; i++) {
                cif_value_tp *e = NULL;
                fprintf(f, " K:"); fhex(f, keys[i]); fprintf(f, " ");
                if (cif_value_get_item_by_key(v, keys[i], &e) == CIF_OK) fdump_value(f, e); else fprintf(f, "!");
            }
            free(keys);
        }
        fprintf(f, " }");
        break;
    default: fprintf(f, "?kind%d", (int) cif_value_kind(v));
    }
}

static void dump_value(cif_value_tp *v) { fdump_value(stdout, v); }

static int cmp_ustr(const void *a, const void *b) { return u_strcmp(*(UChar *const *) a, *(UChar *const *) b); }
static int cmp_cstr(const void *a, const void *b) { return strcmp(*(char *const *) a, *(char *const *) b); }

static void fdump_loop(FILE *f, cif_loop_tp *loop, int canon) {
    UChar *cat = NULL, **names = NULL;
    int n = 0, i, rc;
    cif_pktitr_tp *it = NULL;
    cif_packet_tp *pkt = NULL;
    if (cif_loop_get_category(loop, &cat) != CIF_OK) { fprintf(f, " L:!"); return; }
    if (cif_loop_get_names(loop, &names) != CIF_OK) { fprintf(f, " L:!names"); free(cat); return; }
    while (names[n]) n++;
    if (canon) qsort(names, n, sizeof(UChar *), cmp_ustr);
    fprintf(f, " L:"); fhex(f, cat); fprintf(f, ":%d", n);
    for (i = 0; i < n; i++) { fprintf(f, " "); fhex(f, names[i]); }
    rc = cif_loop_get_packets(loop, &it);
    if (rc == CIF_OK) {
        while ((rc = cif_pktitr_next_packet(it, &pkt)) == CIF_OK) {
            fprintf(f, " P");
            for (i = 0; i < n; i++) { cif_value_tp *v = NULL; fprintf(f, " "); if (cif_packet_get_item(pkt, names[i], &v) == CIF_OK) fdump_value(f, v); else fprintf(f, "U"); }
        }
        if (rc != CIF_FINISHED) fprintf(f, " !iter%d", rc);
        cif_pktitr_close(it);
        if (pkt) cif_packet_free(pkt);
    } else if (rc != CIF_EMPTY_LOOP) {
        fprintf(f, " !packets%d", rc);
    }
    fprintf(f, " Z");
    for (i = 0; i < n; i++) free(names[i]);
    free(names);
    free(cat);
}

static void fdump_container(FILE *f, cif_container_tp *c, int is_block, int canon);

/* print the dumps of a NULL-terminated handle array, sorted as text when canon */
static void fdump_children(FILE *f, void **handles, int kind /* 0 frame, 1 loop, 2 block */, int canon) {
    int n = 0, i;
    char **texts;
    while (handles[n]) n++;
    texts = (char **) calloc(n + 1, sizeof(char *));
    for (i = 0; i < n; i++) {
        size_t sz = 0;
        FILE *m = open_memstream(&texts[i], &sz);
        if (kind == 1) fdump_loop(m, (cif_loop_tp *) handles[i], canon);
        else fdump_container(m, (cif_container_tp *) handles[i], kind == 2, canon);
        fclose(m);
    }
    if (canon) qsort(texts, n, sizeof(char *), cmp_cstr);
    for (i = 0; i < n; i++) { fputs(texts[i], f); free(texts[i]); }
    free(texts);
}

static void fdump_container(FILE *f, cif_container_tp *c, int is_block, int canon) {
    UChar *code = NULL;
    cif_frame_tp **frames = NULL;
    cif_loop_tp **loops = NULL;
    int i;
    cif_container_get_code(c, &code);
    fprintf(f, " %c:", is_block ? 'B' : 'F'); fhex(f, code); free(code);
    if (cif_container_get_all_frames(c, &frames) == CIF_OK) {
        fdump_children(f, (void **) frames, 0, canon);
        for (i = 0; frames[i]; i++) cif_container_free(frames[i]);
        free(frames);
    } else fprintf(f, " !frames");
    if (cif_container_get_all_loops(c, &loops) == CIF_OK) {
        fdump_children(f, (void **) loops, 1, canon);
        for (i = 0; loops[i]; i++) cif_loop_free(loops[i]);
        free(loops);
    } else fprintf(f, " !loops");
    fprintf(f, " E");
}

/* dumps the whole CIF through the public query API (canon = 0: in the store's enumeration order) */
static void fdump_cif(FILE *f, cif_tp *cif, int canon) {
    cif_block_tp **blocks = NULL;
    int i;
    if (cif_get_all_blocks(cif, &blocks) != CIF_OK) { fprintf(f, " !blocks"); return; }
    fdump_children(f, (void **) blocks, 2, canon);
    for (i = 0; blocks[i]; i++) cif_container_free(blocks[i]);
    free(blocks);
}

static void dump_cif(cif_tp *cif, int canon) { fdump_cif(stdout, cif, canon); }

#endif
