/* executor for family `reserved` (C18): `reserved <hex>` -> `rs <0|1>` = cif_is_reserved_string(str) != 0 */
#include "common.h"

static void handle(int argc, char **argv) {
    UChar *s = NULL;
    size_t n = 0, i;
    if (argc != 2 || !unhex(argv[1], &s, &n) || s == NULL) { OUT("bad-op"); free(s); return; }
    for (i = 0; i < n; i++) if (s[i] == 0) { OUT("bad-op"); free(s); return; }
    OUT("rs %d", cif_is_reserved_string(s) ? 1 : 0);
    free(s);
}
