/* executor for family `storefault` (property C17, store part): the request language of family `store` (see x_store_body.h) plus
   `fault <cls> <k>` before an op: the k-th allocation of class cls (1 = SQLite's allocator, 2 = ICU's) made during that op
   fails (harness/alloc.h).  The step of a faulted op carries ` !fault<fired>`; the generator repeats the op right after. */
#define VERIF_HOOK_SQLITE_ICU 1
#include "x_store_body.h"
