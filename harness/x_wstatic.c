/*
 * executor for family `wstatic` (properties C02, C13): the FILE-STATIC functions of the writer (src/ciffile.c), called directly
 * on a `write_context_t` set up as cif_write() sets it up, so that (a) branches cif_write() itself never takes — fold_line()'s
 * downward and upward scans and its "no fold point" result, write_text() with flag combinations write_char() never derives,
 * write_literal() / write_uliteral() without wrapping at the end of a line, write_item() on names the API would refuse — are
 * compared with the model, and (b) `last_column` is OBSERVED after each step (cif_write() never shows it).
 *
 *   wstatic fold <do_fold> <target> <window> <for_prefix> <linehex>          → ws len=<result>
 *   wstatic text <ver> <col> <fold> <prefix> <texthex>                        → ws rc=<rc> col=<last_column> out=<bytes hex>
 *   wstatic char <ver> <col> <quoted> <allow_text> <texthex>                  → ws rc=… col=… out=…
 *   wstatic item <ver> <col> <names> <sep> <namehex|~> <value tokens…>        → ws rc=… col=… names=<0|1> sep=<0|1> out=…
 *   wstatic lit  <col> <wrap> <asciihex>                                      → ws n=<return value> col=… out=…
 *   wstatic ulit <col> <wrap> <length|-1> <texthex>                           → ws n=… col=… out=…
 *   wstatic valid11 <texthex>                                                 → ws rc=<rc> at=<index of the unit reported | ->
 *
 * `col` is the value of `last_column` before the call; the output is what the call alone wrote.
 */
#include "cifio.h"
#include "ciffile.c"

typedef struct { char *mem; size_t sz; FILE *f; UFILE *u; write_context_t ctx; } sink_t;

static int sink_open(sink_t *s, int ver, int col) {
    s->mem = NULL; s->sz = 0;
    s->f = open_memstream(&s->mem, &s->sz);
    if (!s->f) return 0;
    s->u = (ver == 1) ? u_finit(s->f, NULL, NULL) : u_finit(s->f, "C", "UTF_8");
    if (!s->u) { fclose(s->f); free(s->mem); return 0; }
    CONTEXT_INITIALIZE(s->ctx, s->u);
    if (ver == 1) s->ctx.version = 1;
    s->ctx.last_column = col;
    return 1;
}

static void sink_close_and_print(sink_t *s) {
    size_t k;
    u_fclose(s->u);          /* flushes; does not close the FILE it was initialised on */
    fclose(s->f);
    OUT(" out=");
    if (s->sz == 0) OUT("-");
    for (k = 0; k < s->sz; k++) OUT("%02x", (unsigned) (unsigned char) s->mem[k]);
    free(s->mem);
}

static void handle(int argc, char **argv) {
    const char *op;
    if (argc < 2) { OUT("bad-op"); return; }
    op = argv[1];
    if (strcmp(op, "fold") == 0 && argc == 7) {
        UChar *line = NULL;
        int target = atoi(argv[3]), window = atoi(argv[4]);
        if (!unhex(argv[6], &line, NULL) || line == NULL || window < 0 || target <= window) { free(line); OUT("bad-op"); return; }
        OUT("ws len=%d", fold_line(line, atoi(argv[2]), target, window, atoi(argv[5])));
        free(line);
    } else if (strcmp(op, "text") == 0 && argc == 7) {
        sink_t s;
        UChar *text = NULL;
        size_t len = 0;
        int rc;
        if (!unhex(argv[6], &text, &len) || text == NULL || len == 0) { free(text); OUT("bad-op"); return; }
        if (!sink_open(&s, atoi(argv[2]), atoi(argv[3]))) { free(text); OUT("ws sink-failed"); return; }
        rc = write_text(&s.ctx, text, (int32_t) len, atoi(argv[4]), atoi(argv[5]));
        OUT("ws rc=%d col=%d", rc, s.ctx.last_column);
        sink_close_and_print(&s);
        free(text);
    } else if (strcmp(op, "char") == 0 && argc == 7) {
        sink_t s;
        UChar *text = NULL;
        cif_value_tp *v = NULL;
        int rc;
        if (!unhex(argv[6], &text, NULL) || text == NULL) { free(text); OUT("bad-op"); return; }
        if (cif_value_create(CIF_UNK_KIND, &v) != CIF_OK || cif_value_copy_char(v, text) != CIF_OK) {
            free(text); if (v) cif_value_free(v); OUT("ws value-failed"); return;
        }
        free(text);
        if (atoi(argv[4]) == 0 && cif_value_set_quoted(v, CIF_NOT_QUOTED) != CIF_OK) { cif_value_free(v); OUT("ws unquotable"); return; }
        if (!sink_open(&s, atoi(argv[2]), atoi(argv[3]))) { cif_value_free(v); OUT("ws sink-failed"); return; }
        rc = write_char(&s.ctx, v, atoi(argv[5]));
        OUT("ws rc=%d col=%d", rc, s.ctx.last_column);
        sink_close_and_print(&s);
        cif_value_free(v);
    } else if (strcmp(op, "item") == 0 && argc >= 8) {
        sink_t s;
        UChar *name = NULL;
        cif_value_tp *v = NULL;
        int rc, brc, pos = 7;
        if (!unhex(argv[6], &name, NULL)) { OUT("bad-op"); return; }
        v = build_value(argv, argc, &pos, &brc);
        if (v == NULL || pos != argc) { free(name); if (v) cif_value_free(v); OUT("ws value-failed"); return; }
        if (!sink_open(&s, atoi(argv[2]), atoi(argv[3]))) { free(name); cif_value_free(v); OUT("ws sink-failed"); return; }
        s.ctx.write_item_names = atoi(argv[4]);
        s.ctx.separate_values = atoi(argv[5]);
        rc = write_item(name, v, &s.ctx);
        OUT("ws rc=%d col=%d names=%d sep=%d", rc, s.ctx.last_column, s.ctx.write_item_names ? 1 : 0, s.ctx.separate_values ? 1 : 0);
        sink_close_and_print(&s);
        free(name);
        cif_value_free(v);
    } else if (strcmp(op, "lit") == 0 && argc == 5) {
        sink_t s;
        UChar *text = NULL;
        size_t len = 0, i;
        char *ctext;
        int n;
        if (!unhex(argv[4], &text, &len) || text == NULL) { free(text); OUT("bad-op"); return; }
        ctext = (char *) malloc(len + 1);
        for (i = 0; i < len; i++) ctext[i] = (char) text[i];
        ctext[len] = 0;
        free(text);
        if (!sink_open(&s, 2, atoi(argv[2]))) { free(ctext); OUT("ws sink-failed"); return; }
        n = write_literal(&s.ctx, ctext, (int) len, atoi(argv[3]));
        OUT("ws n=%d col=%d", n, s.ctx.last_column);
        sink_close_and_print(&s);
        free(ctext);
    } else if (strcmp(op, "ulit") == 0 && argc == 6) {
        sink_t s;
        UChar *text = NULL;
        size_t len = 0;
        int n, length = atoi(argv[4]);
        if (!unhex(argv[5], &text, &len) || text == NULL || length > (int) len) { free(text); OUT("bad-op"); return; }
        if (!sink_open(&s, 2, atoi(argv[2]))) { free(text); OUT("ws sink-failed"); return; }
        n = write_uliteral(&s.ctx, text, length, atoi(argv[3]));
        OUT("ws n=%d col=%d", n, s.ctx.last_column);
        sink_close_and_print(&s);
        free(text);
    } else if (strcmp(op, "valid11") == 0 && argc == 3) {
        UChar *text = NULL, *dis = (UChar *) 1;
        int rc;
        if (!unhex(argv[2], &text, NULL) || text == NULL) { free(text); OUT("bad-op"); return; }
        rc = cif_validate_cif11_characters(text, &dis);
        if (dis) OUT("ws rc=%d at=%d", rc, (int) (dis - text)); else OUT("ws rc=%d at=-", rc);
        free(text);
    } else {
        OUT("bad-op");
    }
}
