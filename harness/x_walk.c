/*
 * executor for family `walk` (property C14): cif_walk over a CIF built through the public API, with a handler program.
 *
 *   walk [lq<mask>] <cif tokens (harness/cifio.h)> prog <k>:<resp> ...
 *        lq<mask>: queries through the LOOP handle inside callbacks.  bit 1: in loop_start and loop_end open an own packet iterator
 *        through the handle, count the packets, close it (` i:<rc of cif_loop_get_packets>:<packets>:<rc of the last next_packet>:<rc
 *        of cif_pktitr_close | -1>` appended to the @ls / @le event).  bit 2: in packet_start, item and packet_end ask the loop handle
 *        saved at loop_start for its category and names while the walker's own iterator is open (` l:<category|~>:<n>:<name>,…`
 *        appended to the @ps / @it / @pe event).
 *   walk consts                                   -> wk consts <CONTINUE SKIP_CURRENT SKIP_SIBLINGS END CIF_OK CIF_FINISHED CIF_EMPTY_LOOP>
 *
 * The k-th callback invocation (k = 0, 1, ...) answers <resp> when listed, CIF_TRAVERSE_CONTINUE (0) otherwise.
 * Observation:
 *
 *   wk rc=<cif_walk result> n=<callbacks made> log= <events> ord= <listing>
 *
 * events (every handle passed to a callback is queried inside the callback, so that ASan sees a stale handle):
 *   @cs | @ce | @bs <code> <q> | @be <code> <q> | @fs <code> <q> | @fe <code> <q>
 *     <q> = q:<ab>:<nf>:<nl>:<cf>:<il>  — what the container handle answers INSIDE the callback:
 *       ab = cif_container_assert_block (0 for a data block, CIF_ARGUMENT_ERROR for a save frame)
 *       nf / nl = number of frames / loops cif_container_get_all_frames / _loops report through it
 *       cf = '-' without frames, else <rc>,<code'>: cif_container_get_frame(handle, code of the first frame listed) and the code
 *            of the frame handle it returns (the look-up goes through the handle's own id)
 *       il = '-' without loops / names, else <name>,<rc>,<category>: cif_container_get_item_loop(handle, first name of the
 *            first loop listed) and the category of the loop it returns
 *   @ls <category|~> <n> <name>{n}   | @le (same)                      names as cif_loop_get_names reports them
 *   @ps <m> (<name> <value>){m}      | @pe (same)                      names as cif_packet_get_names reports them
 *   @it <name> <value>                                                 name and value as passed to the callback
 * listing = the CIF as the public enumeration functions present it (cif_get_all_blocks, cif_container_get_all_frames,
 *   cif_container_get_all_loops, cif_loop_get_names, packet iteration, cif_packet_get_names): the store's enumeration
 *   orders are fixed by no property, so the model is told them (tools/gen/walk.py model_request):
 *   B:<code> body E | F:<code> body E | L:<cat|~>:<n> <name>{n} (P <m> (<name> <value>){m})* Z
 */
#include "cifio.h"

#define MAXPROG 64
static struct { long k; int resp; } prog[MAXPROG];
static int nprog;
static long ncalls;
static FILE *lg;
static int lqmask;
static cif_loop_tp *cur_loop;     /* the loop handle passed to the most recent loop_start */

static int answer(void) {
    int i, r = CIF_TRAVERSE_CONTINUE;
    for (i = 0; i < nprog; i++) if (prog[i].k == ncalls) r = prog[i].resp;
    ncalls++;
    return r;
}

/* the queries a handler may make on the container handle it is given */
static void log_queries(cif_container_tp *c) {
    cif_frame_tp **frames = NULL;
    cif_loop_tp **loops = NULL;
    int nf = -1, nl = -1, i;
    fprintf(lg, " q:%d", cif_container_assert_block(c));
    if (cif_container_get_all_frames(c, &frames) == CIF_OK) { for (nf = 0; frames[nf]; nf++) ; }
    if (cif_container_get_all_loops(c, &loops) == CIF_OK) { for (nl = 0; loops[nl]; nl++) ; }
    fprintf(lg, ":%d:%d:", nf, nl);
    if (nf > 0) {
        UChar *code = NULL, *code2 = NULL;
        cif_frame_tp *f2 = NULL;
        int rc = CIF_ERROR;
        if (cif_container_get_code(frames[0], &code) == CIF_OK) rc = cif_container_get_frame(c, code, &f2);
        fprintf(lg, "%d,", rc);
        if (rc == CIF_OK && cif_container_get_code(f2, &code2) == CIF_OK) { fhex(lg, code2); free(code2); } else fprintf(lg, "!");
        if (f2) cif_container_free(f2);
        free(code);
    } else fprintf(lg, "-");
    fprintf(lg, ":");
    {
        UChar **names = NULL;
        int done = 0;
        if (nl > 0 && cif_loop_get_names(loops[0], &names) == CIF_OK) {
            if (names[0]) {
                cif_loop_tp *l2 = NULL;
                UChar *cat = NULL;
                int rc = cif_container_get_item_loop(c, names[0], &l2);
                fhex(lg, names[0]);
                fprintf(lg, ",%d,", rc);
                if (rc == CIF_OK && cif_loop_get_category(l2, &cat) == CIF_OK) { fhex(lg, cat); free(cat); } else fprintf(lg, "!");
                if (l2) cif_loop_free(l2);
                done = 1;
            }
            for (i = 0; names[i]; i++) free(names[i]);
            free(names);
        }
        if (!done) fprintf(lg, "-");
    }
    if (frames) { for (i = 0; frames[i]; i++) cif_container_free(frames[i]); free(frames); }
    if (loops) { for (i = 0; loops[i]; i++) cif_loop_free(loops[i]); free(loops); }
}

static void log_code(const char *tag, cif_container_tp *c) {
    UChar *code = NULL;
    fprintf(lg, " %s ", tag);
    if (cif_container_get_code(c, &code) == CIF_OK) { fhex(lg, code); free(code); } else fprintf(lg, "!");
    log_queries(c);
}

static void log_loop(const char *tag, cif_loop_tp *loop) {
    UChar *cat = NULL, **names = NULL;
    int n = 0, i;
    fprintf(lg, " %s ", tag);
    if (cif_loop_get_category(loop, &cat) != CIF_OK) { fprintf(lg, "!"); return; }
    fhex(lg, cat);
    free(cat);
    if (cif_loop_get_names(loop, &names) != CIF_OK) { fprintf(lg, " !"); return; }
    while (names[n]) n++;
    fprintf(lg, " %d", n);
    for (i = 0; i < n; i++) { fprintf(lg, " "); fhex(lg, names[i]); free(names[i]); }
    free(names);
    if (lqmask & 1) {
        /* a handler's own pass over the packets, through the handle it was given */
        cif_pktitr_tp *it = NULL;
        cif_packet_tp *pk = NULL;
        int rc = cif_loop_get_packets(loop, &it), npk = 0, rc2 = 0, crc = -1;
        if (rc == CIF_OK) {
            while ((rc2 = cif_pktitr_next_packet(it, &pk)) == CIF_OK) npk++;
            crc = cif_pktitr_close(it);
            if (pk) cif_packet_free(pk);
        }
        fprintf(lg, " i:%d:%d:%d:%d", rc, npk, rc2, crc);
    }
}

/* read-only queries through the loop handle saved at loop_start, while the walker's iterator is open */
static void log_loop_of_packet(void) {
    UChar *cat = NULL, **names = NULL;
    int i;
    if (!(lqmask & 2)) return;
    if (!cur_loop || cif_loop_get_category(cur_loop, &cat) != CIF_OK) { fprintf(lg, " l:!"); return; }
    fprintf(lg, " l:"); fhex(lg, cat); free(cat);
    if (cif_loop_get_names(cur_loop, &names) != CIF_OK) { fprintf(lg, ":!"); return; }
    for (i = 0; names[i]; i++) ;
    fprintf(lg, ":%d:", i);
    for (i = 0; names[i]; i++) { if (i) fprintf(lg, ","); fhex(lg, names[i]); free(names[i]); }
    free(names);
}

static void log_packet_body(FILE *f, cif_packet_tp *p) {
    const UChar **names = NULL;
    int n = 0, i;
    if (cif_packet_get_names(p, &names) != CIF_OK) { fprintf(f, " !"); return; }
    while (names[n]) n++;
    fprintf(f, " %d", n);
    for (i = 0; i < n; i++) {
        cif_value_tp *v = NULL;
        fprintf(f, " "); fhex(f, names[i]); fprintf(f, " ");
        if (cif_packet_get_item(p, names[i], &v) == CIF_OK) fdump_value(f, v); else fprintf(f, "!");
    }
    free(names);
}

static int h_cif_start(cif_tp *cif, void *ctx) { cif_block_tp **bs = NULL; fprintf(lg, " @cs");
    /* query the handle */
    if (cif_get_all_blocks(cif, &bs) == CIF_OK) { int i; for (i = 0; bs[i]; i++) cif_container_free(bs[i]); free(bs); } else fprintf(lg, "!");
    return answer(); }
static int h_cif_end(cif_tp *cif, void *ctx) { cif_block_tp **bs = NULL; fprintf(lg, " @ce");
    if (cif_get_all_blocks(cif, &bs) == CIF_OK) { int i; for (i = 0; bs[i]; i++) cif_container_free(bs[i]); free(bs); } else fprintf(lg, "!");
    return answer(); }
static int h_block_start(cif_container_tp *c, void *ctx) { log_code("@bs", c); return answer(); }
static int h_block_end(cif_container_tp *c, void *ctx) { log_code("@be", c); return answer(); }
static int h_frame_start(cif_container_tp *c, void *ctx) { log_code("@fs", c); return answer(); }
static int h_frame_end(cif_container_tp *c, void *ctx) { log_code("@fe", c); return answer(); }
static int h_loop_start(cif_loop_tp *l, void *ctx) { cur_loop = l; log_loop("@ls", l); return answer(); }
static int h_loop_end(cif_loop_tp *l, void *ctx) { log_loop("@le", l); cur_loop = NULL; return answer(); }
static int h_packet_start(cif_packet_tp *p, void *ctx) { fprintf(lg, " @ps"); log_packet_body(lg, p); log_loop_of_packet(); return answer(); }
static int h_packet_end(cif_packet_tp *p, void *ctx) { fprintf(lg, " @pe"); log_packet_body(lg, p); log_loop_of_packet(); return answer(); }
static int h_item(UChar *name, cif_value_tp *v, void *ctx) {
    fprintf(lg, " @it "); fhex(lg, name); fprintf(lg, " "); fdump_value(lg, v); log_loop_of_packet(); return answer(); }

/* ---- the listing (enumeration orders) ---- */
static void list_loop(FILE *f, cif_loop_tp *loop) {
    UChar *cat = NULL, **names = NULL;
    int n = 0, i, rc;
    cif_pktitr_tp *it = NULL;
    cif_packet_tp *pkt = NULL;
    if (cif_loop_get_category(loop, &cat) != CIF_OK) { fprintf(f, " L:!"); return; }
    if (cif_loop_get_names(loop, &names) != CIF_OK) { fprintf(f, " L:!names"); free(cat); return; }
    while (names[n]) n++;
    fprintf(f, " L:"); fhex(f, cat); fprintf(f, ":%d", n);
    for (i = 0; i < n; i++) { fprintf(f, " "); fhex(f, names[i]); free(names[i]); }
    free(names);
    free(cat);
    rc = cif_loop_get_packets(loop, &it);
    if (rc == CIF_OK) {
        while ((rc = cif_pktitr_next_packet(it, &pkt)) == CIF_OK) { fprintf(f, " P"); log_packet_body(f, pkt); }
        if (rc != CIF_FINISHED) fprintf(f, " !iter%d", rc);
        cif_pktitr_close(it);
        if (pkt) cif_packet_free(pkt);
    } else if (rc != CIF_EMPTY_LOOP) fprintf(f, " !packets%d", rc);
    fprintf(f, " Z");
}

static void list_container(FILE *f, cif_container_tp *c, int is_block) {
    UChar *code = NULL;
    cif_frame_tp **frames = NULL;
    cif_loop_tp **loops = NULL;
    int i;
    cif_container_get_code(c, &code);
    fprintf(f, " %c:", is_block ? 'B' : 'F'); fhex(f, code); free(code);
    if (cif_container_get_all_frames(c, &frames) == CIF_OK) {
        for (i = 0; frames[i]; i++) { list_container(f, frames[i], 0); cif_container_free(frames[i]); }
        free(frames);
    } else fprintf(f, " !frames");
    if (cif_container_get_all_loops(c, &loops) == CIF_OK) {
        for (i = 0; loops[i]; i++) { list_loop(f, loops[i]); cif_loop_free(loops[i]); }
        free(loops);
    } else fprintf(f, " !loops");
    fprintf(f, " E");
}

static void handle(int argc, char **argv) {
    cif_tp *cif = NULL;
    int pos = 1, rc, i;
    cif_handler_tp h = { h_cif_start, h_cif_end, h_block_start, h_block_end, h_frame_start, h_frame_end,
                         h_loop_start, h_loop_end, h_packet_start, h_packet_end, h_item };
    cif_block_tp **blocks = NULL;
    char *logtext = NULL;
    size_t logsize = 0;

    nprog = 0; ncalls = 0; lqmask = 0; cur_loop = NULL;
    if (argc > 1 && argv[1][0] == 'l' && argv[1][1] == 'q') { lqmask = atoi(argv[1] + 2); pos = 2; }
    if (argc == 2 && strcmp(argv[1], "consts") == 0) {   /* the constants the model hard-codes */
        OUT("wk consts %d %d %d %d %d %d %d", CIF_TRAVERSE_CONTINUE, CIF_TRAVERSE_SKIP_CURRENT, CIF_TRAVERSE_SKIP_SIBLINGS,
            CIF_TRAVERSE_END, CIF_OK, CIF_FINISHED, CIF_EMPTY_LOOP);
        return;
    }
    if (cif_create(&cif) != CIF_OK) { OUT("wk create-failed"); return; }
    rc = build_cif(cif, argv, argc, &pos);
    if (rc != CIF_OK) { OUT("wk build=%d", rc); cif_destroy(cif); return; }
    if (pos >= argc || strcmp(argv[pos], "prog") != 0) { OUT("bad-op"); cif_destroy(cif); return; }
    for (pos++; pos < argc; pos++) {
        long k; int r;
        if (sscanf(argv[pos], "%ld:%d", &k, &r) != 2 || nprog >= MAXPROG) { OUT("bad-op"); cif_destroy(cif); return; }
        prog[nprog].k = k; prog[nprog].resp = r; nprog++;
    }
    lg = open_memstream(&logtext, &logsize);
    rc = cif_walk(cif, &h, NULL);
    fclose(lg);
    OUT("wk rc=%d n=%ld log=%s ord=", rc, ncalls, logtext);
    free(logtext);
    if (cif_get_all_blocks(cif, &blocks) == CIF_OK) {
        for (i = 0; blocks[i]; i++) { list_container(stdout, blocks[i], 1); cif_container_free(blocks[i]); }
        free(blocks);
    } else OUT(" !blocks");
    cif_destroy(cif);
}
