/* executor for family `storeval` (property C07): store a value into a managed CIF through one of the five routes, change
   and release the caller's object, read the stored value back three ways.

     storeval <route> <mutation> <value tokens>
        route    = set (cif_container_set_value) | additem (cif_loop_add_item default value, two existing packets)
                 | addpkt (cif_loop_add_packet) | update (cif_pktitr_update_packet)
                 | parse (the value written by cif_write from a scratch CIF, then cif_parse of that document)
                 | frameset (cif_container_set_value in a save frame nested in a save frame: block b { loop _k; save f { _k; save g { _x } } })
        mutation = 0 (release only) | 1 (reinitialise as N/A, then release) | 2 (change the content in place, then release)
     -> sv rc=<code of the storing call> o=<original> g=<cif_container_get_value> i=<packet iteration, `,`-separated>
           w=<cif_walk item handler, `,`-separated> m=<field-level dump of the value read back>

           f=<code of cif_container_get_value> mi=<field-level dumps of the iteration> mw=<… of the walk> d=<doubles of g | ->

   o/g/i/w are dumped through the PUBLIC API only: kind, text, quoted, and for numbers cif_value_get_number / get_su as
   (sign, 53-bit mantissa, exponent).  m, mi, mw read the struct fields (digits, su digits, scale, sign), for the model, which
   computes them through its get_value, packet-iterator and walk models on its store model; f is get_value's code (CIF_OK or
   CIF_AMBIGUOUS_ITEM); d the two doubles of a number read back by get_value (the model: Model/Numb.getNumber / getSu). */
#include <math.h>
#include "value.c"
#include "x_gg.h"

static UChar NAME_X[] = { '_', 'x', 0 };
static UChar NAME_K[] = { '_', 'k', 0 };
static UChar CODE_B[] = { 'b', 0 };

static void fdouble(FILE *f, double d) {
    int e;
    double m;
    if (isnan(d)) { fprintf(f, "nan"); return; }
    if (isinf(d)) { fprintf(f, "%cinf", d < 0 ? '-' : '+'); return; }
    if (d == 0.0) { fprintf(f, "%c0", signbit(d) ? '-' : '+'); return; }
    m = frexp(fabs(d), &e);
    fprintf(f, "%c%llu:%d", d < 0 ? '-' : '+', (unsigned long long) ldexp(m, 53), e - 53);
}

/* public-API dump; numbers additionally `#<value>#<su>` */
static void fdump_pub(FILE *f, cif_value_tp *v) {
    UChar *t = NULL;
    size_t n, i;
    const UChar **keys = NULL;
    double d;
    if (v == NULL) { fprintf(f, "~"); return; }
    switch (cif_value_kind(v)) {
    case CIF_UNK_KIND: fprintf(f, "U"); break;
    case CIF_NA_KIND: fprintf(f, "N"); break;
    case CIF_CHAR_KIND:
    case CIF_NUMB_KIND:
        fprintf(f, "%c%d:", cif_value_kind(v) == CIF_CHAR_KIND ? 'C' : 'M', cif_value_is_quoted(v) == CIF_QUOTED ? 1 : 0);
        if (cif_value_get_text(v, &t) == CIF_OK) {
            size_t tl = (size_t) u_strlen(t);
            if (tl > 2000) {           /* very long texts: length and a hash (FNV-1a over the units) instead of the hex text */
                unsigned long long hsh = 1469598103934665603ULL;
                size_t q;
                for (q = 0; q < tl; q++) { hsh ^= (unsigned long long) t[q]; hsh *= 1099511628211ULL; }
                fprintf(f, "#%zu:%016llx", tl, hsh);
            } else fhex(f, t);
            free(t);
        } else fprintf(f, "!");
        if (cif_value_kind(v) == CIF_NUMB_KIND) {
            fprintf(f, "#"); if (cif_value_get_number(v, &d) == CIF_OK) fdouble(f, d); else fprintf(f, "!");
            fprintf(f, "#"); if (cif_value_get_su(v, &d) == CIF_OK) fdouble(f, d); else fprintf(f, "!");
        }
        break;
    case CIF_LIST_KIND:
        fprintf(f, "[");
        if (cif_value_get_element_count(v, &n) == CIF_OK)
            for (i = 0; i < n; i++) { cif_value_tp *e = NULL; fprintf(f, " "); if (cif_value_get_element_at(v, i, &e) == CIF_OK) fdump_pub(f, e); else fprintf(f, "!"); }
        fprintf(f, " ]");
        break;
    case CIF_TABLE_KIND:
        fprintf(f, "{");
        if (cif_value_get_keys(v, &keys) == CIF_OK) {
            for (i = 0; keys[i]; i++) {
                cif_value_tp *e = NULL;
                fprintf(f, " K:"); fhex(f, keys[i]); fprintf(f, " ");
                if (cif_value_get_item_by_key(v, keys[i], &e) == CIF_OK) fdump_pub(f, e); else fprintf(f, "!");
            }
            free(keys);
        }
        fprintf(f, " }");
        break;
    default: fprintf(f, "?kind%d", (int) cif_value_kind(v));
    }
}

/* change the caller's object in place */
static void mutate(cif_value_tp *v, int mode) {
    static UChar other[] = { 'm', 'u', 't', 'a', 't', 'e', 'd', 0 };
    if (mode == 1) { (void) cif_value_init(v, CIF_NA_KIND); return; }
    if (mode != 2) return;
    switch (cif_value_kind(v)) {
    case CIF_LIST_KIND: {
        size_t n = 0;
        cif_value_tp *e = NULL;
        (void) cif_value_get_element_count(v, &n);
        if (n > 0 && cif_value_get_element_at(v, 0, &e) == CIF_OK) (void) cif_value_copy_char(e, other);
        (void) cif_value_insert_element_at(v, 0, NULL);
        if (n > 0) (void) cif_value_remove_element_at(v, n, NULL);
        break;
    }
    case CIF_TABLE_KIND: {
        const UChar **keys = NULL;
        if (cif_value_get_keys(v, &keys) == CIF_OK) {
            if (keys[0]) {
                UChar *k = cif_u_strdup(keys[0]);
                cif_value_tp *e = NULL;
                if (cif_value_get_item_by_key(v, k, &e) == CIF_OK) (void) cif_value_copy_char(e, other);
                if (keys[1]) { UChar *k1 = cif_u_strdup(keys[1]); (void) cif_value_remove_item_by_key(v, k1, NULL); free(k1); }
                free(k);
            }
            free(keys);
        }
        (void) cif_value_set_item_by_key(v, other, NULL);
        break;
    }
    default:
        (void) cif_value_copy_char(v, other);
    }
}

typedef struct { FILE *out; int count; FILE *mout; } walk_ctx;

/* the item handler: every value cif_walk presents for _x, through the public API (out) and field by field (mout, for the model) */
static int on_item(UChar *name, cif_value_tp *value, void *context) {
    walk_ctx *c = (walk_ctx *) context;
    if (u_strcmp(name, NAME_X) == 0) {
        if (c->count++) { fprintf(c->out, ","); if (c->mout) fprintf(c->mout, ","); }
        fdump_pub(c->out, value);
        if (c->mout) { if (value) fdumpx_value(c->mout, value); else fprintf(c->mout, "~"); }
    }
    return CIF_TRAVERSE_CONTINUE;
}

static cif_packet_tp *key_packet(int n) {
    cif_packet_tp *p = NULL;
    cif_value_tp *k = NULL;
    UChar txt[2] = { (UChar) ('0' + n), 0 };
    if (cif_packet_create(&p, NULL) != CIF_OK) return NULL;
    if (cif_value_create(CIF_UNK_KIND, &k) != CIF_OK) { cif_packet_free(p); return NULL; }
    (void) cif_value_copy_char(k, txt);
    (void) cif_packet_set_item(p, NAME_K, k);
    cif_value_free(k);
    return p;
}

/* ---- route `bigparse`: a very long string value read by the parser ------------------------------------------------
   storeval bigparse <len> <t|q> <seed>
   The executor renders the document itself: a CIF 2.0 header, data_b, three short items (so that the long token does not
   start at offset 0 of the scan buffer), then `_x` with a value of <len> units — as a text field (lines of 1000 units) or
   as one apostrophe-quoted string — then one more short item.  The characters depend on their position, so a shifted or
   stale copy of part of the value is noticed.  Over-length lines are reported through the error callback, which lets
   the parse go on (cif_parse_error_ignore).
   -> sv rc=<parse rc> o=<expected> g=<get_value> i=<iteration> w=<walk> m=<same|differ at <index>> */
static void big_parse(int argc, char **argv) {
    size_t len, i, k = 0;
    int style, rc, r2, first = 1;
    unsigned long long st;
    UChar *expect;
    char *doc;
    FILE *f;
    struct cif_parse_opts_s *opts = NULL;
    cif_tp *cif = NULL;
    cif_block_tp *b = NULL;
    cif_value_tp *ov = NULL, *g = NULL;
    cif_loop_tp *loop = NULL;
    cif_pktitr_tp *it = NULL;
    char *wtext = NULL;
    size_t wsz = 0;
    if (argc != 5) { OUT("bad-op"); return; }
    len = strtoul(argv[2], NULL, 10);
    style = argv[3][0];
    st = strtoull(argv[4], NULL, 10) * 2862933555777941757ULL + 3037000493ULL;
    if (len < 1 || len > 400000 || (style != 't' && style != 'q')) { OUT("bad-op"); return; }
    expect = (UChar *) malloc((len + 1) * sizeof(UChar));
    doc = (char *) malloc(len + 400);
    k += (size_t) sprintf(doc + k, "#\\#CIF_2.0\ndata_b\n_a1 short\n_a2 'two words'\n_a3 12.5(3)\n_x ");
    if (style == 't') { doc[k++] = '\n'; doc[k++] = ';'; } else doc[k++] = '\'';
    for (i = 0; i < len; i++) {
        UChar c;
        if (style == 't' && i % 1000 == 999) c = '\n';
        else {
            st = st * 6364136223846793005ULL + 1442695040888963407ULL;
            c = (UChar) ("abcdefghijklmnopqrstuvwxyzABCDEFGHIJKLMNOPQRSTUVWXYZ0123456789"[(st >> 33) % 62]);
            if (style == 't' && (i % 1000 == 0) && c == ';') c = 'x';
        }
        expect[i] = c;
        doc[k++] = (char) c;
    }
    if (style == 't' && expect[len - 1] == '\n') { expect[len - 1] = 'z'; doc[k - 1] = 'z'; }
    expect[len] = 0;
    if (style == 't') { doc[k++] = '\n'; doc[k++] = ';'; } else doc[k++] = '\'';
    k += (size_t) sprintf(doc + k, "\n_z end\n");
    f = tmpfile();
    fwrite(doc, 1, k, f);
    fflush(f); rewind(f);
    free(doc);
    rc = cif_parse_options_create(&opts);
    if (rc == CIF_OK) {
        opts->error_callback = cif_parse_error_ignore;
        rc = cif_parse(f, opts, &cif);
    }
    fclose(f);
    free(opts);
    if (rc == CIF_OK) rc = cif_get_block(cif, CODE_B, &b);
    (void) cif_value_create(CIF_UNK_KIND, &ov);
    (void) cif_value_copy_char(ov, expect);
    OUT("sv rc=%d o=", rc); fdump_pub(stdout, ov);
    cif_value_free(ov);
    if (rc == CIF_OK) {
        cif_handler_tp handler;
        walk_ctx ctx;
        r2 = cif_container_get_value(b, NAME_X, &g);
        OUT(" g="); if (r2 == CIF_OK) fdump_pub(stdout, g); else OUT("!%d", r2);
        OUT(" i=");
        r2 = cif_container_get_item_loop(b, NAME_X, &loop);
        if (r2 == CIF_OK) r2 = cif_loop_get_packets(loop, &it);
        if (r2 == CIF_OK) {
            cif_packet_tp *cur = NULL;
            while ((r2 = cif_pktitr_next_packet(it, &cur)) == CIF_OK) {
                cif_value_tp *x = NULL;
                if (!first) OUT(",");
                first = 0;
                if (cif_packet_get_item(cur, NAME_X, &x) == CIF_OK) fdump_pub(stdout, x); else OUT("!noitem");
            }
            if (r2 != CIF_FINISHED) OUT("!iter%d", r2);
            (void) cif_pktitr_close(it);
            if (cur) cif_packet_free(cur);
        } else OUT("!%d", r2);
        if (loop) cif_loop_free(loop);
        memset(&handler, 0, sizeof(handler));
        handler.handle_item = on_item;
        ctx.out = open_memstream(&wtext, &wsz); ctx.count = 0; ctx.mout = NULL;
        r2 = cif_walk(cif, &handler, &ctx);
        fclose(ctx.out);
        OUT(" w=%s", wtext);
        if (r2 != CIF_OK) OUT("!walk%d", r2);
        free(wtext);
        OUT(" m=");
        if (g && cif_value_kind(g) == CIF_CHAR_KIND) {
            UChar *t = NULL;
            if (cif_value_get_text(g, &t) == CIF_OK && t) {
                size_t tl = (size_t) u_strlen(t), d;
                for (d = 0; d < len && d < tl && t[d] == expect[d]; d++) ;
                if (d == len && tl == len) OUT("same"); else OUT("differ-at-%zu-len-%zu", d, tl);
                free(t);
            } else OUT("notext");
        } else OUT("nochar");
    }
    if (g) cif_value_free(g);
    if (b) cif_container_free(b);
    if (cif) cif_destroy(cif);
    free(expect);
}

/* ---- route `itsession`: several updates through one packet iterator, one of them rejected ---------------------------
   storeval itsession 0 <value tokens>
   Block b holds loop A (_k, _x) with three packets (x unknown) and loop B (_y) with one packet.  One iterator over loop A:
   packet 1: update _x := v (must succeed); packet 2: update with a packet that carries _y, an item of loop B (must be
   rejected — CIF_WRONG_LOOP — and leave nothing behind); packet 3: update _x := v (must succeed); close.
   -> sv rc=<close rc> u=<rc1>,<0 or rej>,<rc3> o=<v> i=<x of packet 1>,<x of packet 2>,<x of packet 3> m=<field-level dumps> */
static void iter_session(int argc, char **argv) {
    static UChar NAME_Y[] = { '_', 'y', 0 };
    UChar *namesA[] = { NAME_K, NAME_X, NULL }, *namesB[] = { NAME_Y, NULL };
    cif_tp *cif = NULL;
    cif_block_tp *b = NULL;
    cif_loop_tp *la = NULL, *lb = NULL;
    cif_value_tp *v = NULL;
    cif_packet_tp *pkt = NULL, *cur = NULL, *upd = NULL;
    cif_pktitr_tp *it = NULL;
    char *otext = NULL, *mtext = NULL;
    size_t osz = 0, msz = 0;
    FILE *m, *mm;
    int pos = 3, brc, rc, n, u[3] = { -1, -1, -1 }, first = 1;
    while (pos < argc && argv[pos][0] == '@') pos++;
    v = build_value(argv, argc, &pos, &brc);
    if (v == NULL || pos != argc) { if (v) cif_value_free(v); OUT("bad-op"); return; }
    m = open_memstream(&otext, &osz); fdump_pub(m, v); fclose(m);
    rc = cif_create(&cif);
    if (rc == CIF_OK) rc = cif_create_block(cif, CODE_B, &b);
    if (rc == CIF_OK) rc = cif_container_create_loop(b, NULL, namesA, &la);
    for (n = 1; rc == CIF_OK && n <= 3; n++) { pkt = key_packet(n); rc = pkt ? cif_loop_add_packet(la, pkt) : CIF_ERROR; cif_packet_free(pkt); pkt = NULL; }
    if (rc == CIF_OK) rc = cif_container_create_loop(b, NULL, namesB, &lb);
    if (rc == CIF_OK) {
        rc = cif_packet_create(&pkt, NULL);
        if (rc == CIF_OK) rc = cif_packet_set_item(pkt, NAME_Y, NULL);
        if (rc == CIF_OK) rc = cif_loop_add_packet(lb, pkt);
        cif_packet_free(pkt); pkt = NULL;
    }
    if (rc != CIF_OK) { OUT("sv setup-failed"); goto done; }
    rc = cif_loop_get_packets(la, &it);
    for (n = 0; rc == CIF_OK && n < 3; n++) {
        rc = cif_pktitr_next_packet(it, &cur);
        if (rc != CIF_OK) break;
        if (cif_packet_create(&upd, NULL) != CIF_OK) { rc = CIF_ERROR; break; }
        if (n == 1) (void) cif_packet_set_item(upd, NAME_Y, v);      /* an item of the other loop */
        else (void) cif_packet_set_item(upd, NAME_X, v);
        u[n] = cif_pktitr_update_packet(it, upd);
        cif_packet_free(upd); upd = NULL;
    }
    if (it) { int c = cif_pktitr_close(it); if (rc == CIF_OK || rc == CIF_FINISHED) rc = c; it = NULL; }
    if (cur) { cif_packet_free(cur); cur = NULL; }
    /* the caller's object is changed and released before anything is read back */
    mutate(v, 2);
    cif_value_free(v); v = NULL;
    OUT("sv rc=%d u=%d,%s,%d o=%s i=", rc, u[0], u[1] == 0 ? "0" : (u[1] < 0 ? "none" : "rej"), u[2], otext);
    mm = open_memstream(&mtext, &msz);
    if (cif_loop_get_packets(la, &it) == CIF_OK) {
        int r2;
        while ((r2 = cif_pktitr_next_packet(it, &cur)) == CIF_OK) {
            cif_value_tp *x = NULL;
            if (!first) { OUT(","); fprintf(mm, ","); }
            first = 0;
            if (cif_packet_get_item(cur, NAME_X, &x) == CIF_OK) { fdump_pub(stdout, x); fdumpx_value(mm, x); } else { OUT("!noitem"); fprintf(mm, "!"); }
        }
        if (r2 != CIF_FINISHED) OUT("!iter%d", r2);
        (void) cif_pktitr_close(it); it = NULL;
        if (cur) cif_packet_free(cur);
    } else OUT("!nopackets");
    fclose(mm);
    OUT(" m=%s", mtext);
done:
    if (v) cif_value_free(v);
    if (la) cif_loop_free(la);
    if (lb) cif_loop_free(lb);
    if (b) cif_container_free(b);
    if (cif) cif_destroy(cif);
    free(otext);
    free(mtext);
}

/* ---- route `parseloop`: composite and scalar values alternating in ONE column of a loop read by the parser -------------
   storeval parseloop 0 [@pairs] <value> | <value> | <value> …      (at least one value; the generator gives >= 3)
   A scratch CIF with block b and a loop (_k, _x) holding one packet per value is written with cif_write and parsed back.
   The parser re-uses one value object per column from packet to packet, so a list (table) in one packet followed by a
   list (table) in the next shows whether the object is emptied in between.  Every packet is read back: get_value (first
   packet, CIF_AMBIGUOUS_ITEM for several), packet iteration, cif_walk.
   -> sv rc=<code> o=<v1>,<v2>,… g=<first> i=<x1>,<x2>,… w=<x1>,<x2>,… m=<field-level dumps from the iteration> */
#define MAXLOOPVALS 64
static void parse_loop(int argc, char **argv) {
    UChar *names2[] = { NAME_K, NAME_X, NULL };
    cif_value_tp *vals[MAXLOOPVALS];
    int nvals = 0, pos = 3, brc, rc, n, first = 1;
    cif_tp *scratch = NULL, *cif = NULL;
    cif_block_tp *sb = NULL, *b = NULL;
    cif_loop_tp *loop = NULL;
    cif_packet_tp *pkt = NULL;
    cif_pktitr_tp *it = NULL;
    cif_value_tp *g = NULL;
    char *otext = NULL, *wtext = NULL, *mtext = NULL;
    size_t osz = 0, wsz = 0, msz = 0;
    FILE *o, *mm, *f;
    while (pos < argc && argv[pos][0] == '@') pos++;
    while (pos < argc && nvals < MAXLOOPVALS) {
        cif_value_tp *v = build_value(argv, argc, &pos, &brc);
        if (v == NULL) break;
        vals[nvals++] = v;
        if (pos < argc) { if (strcmp(argv[pos], "|") != 0) break; pos++; if (pos == argc) { pos = -1; break; } }
    }
    if (nvals == 0 || pos != argc) { for (n = 0; n < nvals; n++) cif_value_free(vals[n]); OUT("bad-op"); return; }
    o = open_memstream(&otext, &osz);
    for (n = 0; n < nvals; n++) { if (n) fprintf(o, ","); fdump_pub(o, vals[n]); }
    fclose(o);
    f = tmpfile();
    rc = cif_create(&scratch);
    if (rc == CIF_OK) rc = cif_create_block(scratch, CODE_B, &sb);
    if (rc == CIF_OK) rc = cif_container_create_loop(sb, NULL, names2, &loop);
    for (n = 0; rc == CIF_OK && n < nvals; n++) {
        pkt = key_packet(1 + n % 9);
        rc = pkt ? cif_packet_set_item(pkt, NAME_X, vals[n]) : CIF_ERROR;
        if (rc == CIF_OK) rc = cif_loop_add_packet(loop, pkt);
        if (pkt) cif_packet_free(pkt);
        pkt = NULL;
    }
    if (loop) { cif_loop_free(loop); loop = NULL; }
    if (rc == CIF_OK) rc = cif_write(f, NULL, scratch);
    if (sb) cif_container_free(sb);
    if (scratch) cif_destroy(scratch);
    for (n = 0; n < nvals; n++) { mutate(vals[n], 2); cif_value_free(vals[n]); }
    if (rc == CIF_OK) {
        fflush(f); rewind(f);
        rc = cif_parse(f, NULL, &cif);
        if (rc == CIF_OK) rc = cif_get_block(cif, CODE_B, &b);
    }
    fclose(f);
    OUT("sv rc=%d o=%s", rc, otext);
    if (rc == CIF_OK) {
        cif_handler_tp handler;
        walk_ctx ctx;
        char *mwtext = NULL;
        size_t mwsz = 0;
        int gv = cif_container_get_value(b, NAME_X, &g);
        int r2 = gv;
        OUT(" g="); if ((r2 == CIF_OK || r2 == CIF_AMBIGUOUS_ITEM) && g != NULL) fdump_pub(stdout, g); else OUT("!%d", r2);
        OUT(" i=");
        mm = open_memstream(&mtext, &msz);
        r2 = cif_container_get_item_loop(b, NAME_X, &loop);
        if (r2 == CIF_OK) r2 = cif_loop_get_packets(loop, &it);
        if (r2 == CIF_OK) {
            cif_packet_tp *cur = NULL;
            while ((r2 = cif_pktitr_next_packet(it, &cur)) == CIF_OK) {
                cif_value_tp *x = NULL;
                if (!first) { OUT(","); fprintf(mm, ","); }
                first = 0;
                if (cif_packet_get_item(cur, NAME_X, &x) == CIF_OK) { fdump_pub(stdout, x); fdumpx_value(mm, x); } else { OUT("!noitem"); fprintf(mm, "!"); }
            }
            if (r2 != CIF_FINISHED) OUT("!iter%d", r2);
            (void) cif_pktitr_close(it); it = NULL;
            if (cur) cif_packet_free(cur);
        } else OUT("!%d", r2);
        fclose(mm);
        if (loop) { cif_loop_free(loop); loop = NULL; }
        memset(&handler, 0, sizeof(handler));
        handler.handle_item = on_item;
        ctx.out = open_memstream(&wtext, &wsz); ctx.count = 0;
        ctx.mout = open_memstream(&mwtext, &mwsz);
        r2 = cif_walk(cif, &handler, &ctx);
        fclose(ctx.out);
        fclose(ctx.mout);
        OUT(" w=%s", wtext);
        if (r2 != CIF_OK) OUT("!walk%d", r2);
        /* for the model: get_value's value field by field and its code, every packet as the iterator delivered it, every value as the
           walker presented it */
        OUT(" m="); if (g) dumpx_value(g); else OUT("~");
        OUT(" f=%d mi=%s mw=%s", gv, mtext, mwtext);
        free(mwtext);
    }
    if (g) cif_value_free(g);
    if (b) cif_container_free(b);
    if (cif) cif_destroy(cif);
    free(otext); free(wtext); free(mtext);
}

static void handle(int argc, char **argv) {
    cif_tp *cif = NULL, *scratch = NULL;
    cif_block_tp *b = NULL;
    cif_container_tp *fr1 = NULL, *fr2 = NULL, *rd = NULL;   /* route frameset: save frames f and f/g; rd = the container read from */
    cif_loop_tp *loop = NULL;
    cif_value_tp *v = NULL, *g = NULL;
    cif_packet_tp *pkt = NULL;
    cif_pktitr_tp *it = NULL;
    char *otext = NULL, *wtext = NULL, *mitext = NULL, *mwtext = NULL;
    size_t osz = 0, wsz = 0, misz = 0, mwsz = 0;
    FILE *m, *mi;
    const char *route;
    int pos = 3, rc = -1, mode, brc, gv = -1;
    UChar *names1[] = { NAME_K, NULL }, *names2[] = { NAME_K, NAME_X, NULL };

    if (argc < 4) { OUT("bad-op"); return; }
    route = argv[1];
    if (strcmp(route, "bigparse") == 0) { big_parse(argc, argv); return; }
    if (strcmp(route, "itsession") == 0) { iter_session(argc, argv); return; }
    if (strcmp(route, "parseloop") == 0) { parse_loop(argc, argv); return; }
    mode = atoi(argv[2]);
    while (pos < argc && argv[pos][0] == '@') pos++;           /* key normalisation pairs: for the model only */
    v = build_value(argv, argc, &pos, &brc);
    if (v == NULL || pos != argc) { if (v) cif_value_free(v); OUT("bad-op"); return; }
    m = open_memstream(&otext, &osz); fdump_pub(m, v); fclose(m);

    if (strcmp(route, "parse") == 0) {
        FILE *f = tmpfile();
        cif_block_tp *sb = NULL;
        rc = cif_create(&scratch);
        if (rc == CIF_OK) rc = cif_create_block(scratch, CODE_B, &sb);
        if (rc == CIF_OK) rc = cif_container_set_value(sb, NAME_X, v);
        if (rc == CIF_OK) rc = cif_write(f, NULL, scratch);
        if (sb) cif_container_free(sb);
        if (scratch) cif_destroy(scratch);
        if (rc == CIF_OK) {
            fflush(f); rewind(f);
            rc = cif_parse(f, NULL, &cif);
            if (rc == CIF_OK) rc = cif_get_block(cif, CODE_B, &b);
        }
        fclose(f);
    } else {
        rc = cif_create(&cif);
        if (rc == CIF_OK) rc = cif_create_block(cif, CODE_B, &b);
        if (rc != CIF_OK) { OUT("sv setup-failed"); goto done; }
        if (strcmp(route, "set") == 0) {
            rc = cif_container_set_value(b, NAME_X, v);
        } else if (strcmp(route, "additem") == 0) {
            int n;
            rc = cif_container_create_loop(b, NULL, names1, &loop);
            for (n = 1; rc == CIF_OK && n <= 2; n++) { pkt = key_packet(n); rc = pkt ? cif_loop_add_packet(loop, pkt) : CIF_ERROR; cif_packet_free(pkt); pkt = NULL; }
            if (rc == CIF_OK) rc = cif_loop_add_item(loop, NAME_X, v);
        } else if (strcmp(route, "addpkt") == 0) {
            rc = cif_container_create_loop(b, NULL, names2, &loop);
            if (rc == CIF_OK) { pkt = key_packet(1); rc = pkt ? cif_packet_set_item(pkt, NAME_X, v) : CIF_ERROR; }
            if (rc == CIF_OK) rc = cif_loop_add_packet(loop, pkt);
            cif_packet_free(pkt); pkt = NULL;
        } else if (strcmp(route, "update") == 0) {
            cif_packet_tp *cur = NULL;
            rc = cif_container_create_loop(b, NULL, names2, &loop);
            if (rc == CIF_OK) { pkt = key_packet(1); rc = pkt ? cif_loop_add_packet(loop, pkt) : CIF_ERROR; cif_packet_free(pkt); pkt = NULL; }
            if (rc == CIF_OK) rc = cif_loop_get_packets(loop, &it);
            if (rc == CIF_OK) {
                rc = cif_pktitr_next_packet(it, &cur);
                if (rc == CIF_OK) rc = cif_packet_set_item(cur, NAME_X, v);
                if (rc == CIF_OK) rc = cif_pktitr_update_packet(it, cur);
                if (rc == CIF_OK) rc = cif_pktitr_close(it); else (void) cif_pktitr_abort(it);
                it = NULL;
                cif_packet_free(cur);
            }
        } else if (strcmp(route, "frameset") == 0) {
            /* the item lives in a save frame nested in a save frame; the block and the outer frame have content of their own */
            static UChar CODE_F[] = { 'f', 0 }, CODE_G[] = { 'g', 0 };
            rc = cif_container_create_loop(b, NULL, names1, &loop);
            if (rc == CIF_OK) { pkt = key_packet(1); rc = pkt ? cif_loop_add_packet(loop, pkt) : CIF_ERROR; cif_packet_free(pkt); pkt = NULL; }
            if (rc == CIF_OK) rc = cif_container_create_frame(b, CODE_F, &fr1);
            if (rc == CIF_OK) { cif_value_tp *k = NULL;
                if (cif_value_create(CIF_UNK_KIND, &k) == CIF_OK) { UChar one[2] = { '1', 0 }; (void) cif_value_copy_char(k, one); rc = cif_container_set_value(fr1, NAME_K, k); cif_value_free(k); } else rc = CIF_ERROR; }
            if (rc == CIF_OK) rc = cif_container_create_frame(fr1, CODE_G, &fr2);
            if (rc == CIF_OK) rc = cif_container_set_value(fr2, NAME_X, v);
        } else { OUT("bad-op"); goto done; }
        if (loop) { cif_loop_free(loop); loop = NULL; }
    }

    /* the caller's object is changed and released before anything is read back */
    mutate(v, mode);
    cif_value_free(v); v = NULL;

    OUT("sv rc=%d o=%s", rc, otext);
    if (rc == CIF_OK) {
        cif_handler_tp handler;
        walk_ctx ctx;
        int r2, first = 1;
        /* (a) get_value — for two requests in three INTO AN EXISTING value object of the caller (cif.h: "if *value is not NULL
           then the object it points to is overwritten"): a table with an entry, a list with two elements, a number or a string;
           whatever it held must be released (exact leak accounting) and the result must be the stored value all the same */
        switch (osz % 6) {
            case 1: if (cif_value_create(CIF_TABLE_KIND, &g) == CIF_OK) { cif_value_tp *e = NULL;
                        if (cif_value_create(CIF_UNK_KIND, &e) == CIF_OK) { (void) cif_value_init_numb(e, 12.5, 0.5, 1, 5); (void) cif_value_set_item_by_key(g, NAME_K, e); cif_value_free(e); } }
                    break;
            case 2: if (cif_value_create(CIF_LIST_KIND, &g) == CIF_OK) { cif_value_tp *e = NULL;
                        if (cif_value_create(CIF_UNK_KIND, &e) == CIF_OK) { (void) cif_value_copy_char(e, NAME_X); (void) cif_value_insert_element_at(g, 0, e); (void) cif_value_insert_element_at(g, 1, g); cif_value_free(e); } }
                    break;
            case 3: if (cif_value_create(CIF_UNK_KIND, &g) == CIF_OK) (void) cif_value_init_numb(g, -1.25e30, 1e28, -28, 5); break;
            case 4: if (cif_value_create(CIF_UNK_KIND, &g) == CIF_OK) (void) cif_value_copy_char(g, NAME_K); break;
            default: break;   /* 0, 5: a fresh object is requested */
        }
        rd = fr2 ? fr2 : b;
        r2 = cif_container_get_value(rd, NAME_X, &g);
        gv = r2;
        /* an item with several packets: the first value is provided together with CIF_AMBIGUOUS_ITEM (documented) */
        OUT(" g="); if (r2 == CIF_OK || (r2 == CIF_AMBIGUOUS_ITEM && g != NULL && strcmp(route, "additem") == 0)) fdump_pub(stdout, g); else OUT("!%d", r2);
        /* (b) packet iteration */
        OUT(" i=");
        mi = open_memstream(&mitext, &misz);
        r2 = cif_container_get_item_loop(rd, NAME_X, &loop);
        if (r2 == CIF_OK) r2 = cif_loop_get_packets(loop, &it);
        if (r2 == CIF_OK) {
            cif_packet_tp *cur = NULL;
            while ((r2 = cif_pktitr_next_packet(it, &cur)) == CIF_OK) {
                cif_value_tp *x = NULL;
                if (!first) { OUT(","); fprintf(mi, ","); }
                first = 0;
                if (cif_packet_get_item(cur, NAME_X, &x) == CIF_OK) { fdump_pub(stdout, x); fdumpx_value(mi, x); } else { OUT("!noitem"); fprintf(mi, "!"); }
            }
            if (r2 != CIF_FINISHED) { OUT("!iter%d", r2); fprintf(mi, "!iter%d", r2); }
            (void) cif_pktitr_close(it); it = NULL;
            if (cur) cif_packet_free(cur);
        } else { OUT("!%d", r2); fprintf(mi, "!%d", r2); }
        fclose(mi);
        if (loop) { cif_loop_free(loop); loop = NULL; }
        /* (c) walk */
        memset(&handler, 0, sizeof(handler));
        handler.handle_item = on_item;
        ctx.out = open_memstream(&wtext, &wsz); ctx.count = 0;
        ctx.mout = open_memstream(&mwtext, &mwsz);
        r2 = cif_walk(cif, &handler, &ctx);
        fclose(ctx.out);
        fclose(ctx.mout);
        OUT(" w=%s", wtext);
        if (r2 != CIF_OK) OUT("!walk%d", r2);
        /* for the model: get_value's value field by field and its code (CIF_OK / CIF_AMBIGUOUS_ITEM), every packet as the iterator
           delivered it, every value as the walker presented it, and — for a number object — the two doubles the getters compute
           from what was read back (after the field dump: the getters may cache) */
        OUT(" m="); if (g) dumpx_value(g); else OUT("~");
        OUT(" f=%d mi=%s mw=%s", gv, mitext, mwtext);
        if (r2 != CIF_OK) OUT("!walk%d", r2);
        OUT(" d=");
        if (g && cif_value_kind(g) == CIF_NUMB_KIND) {
            double d;
            if (cif_value_get_number(g, &d) == CIF_OK) fdouble(stdout, d); else OUT("!");
            OUT("#");
            if (cif_value_get_su(g, &d) == CIF_OK) fdouble(stdout, d); else OUT("!");
        } else OUT("-");
    }
done:
    if (g) cif_value_free(g);
    if (v) cif_value_free(v);
    if (fr2) cif_container_free(fr2);
    if (fr1) cif_container_free(fr1);
    if (b) cif_container_free(b);
    if (cif) cif_destroy(cif);
    free(otext);
    free(wtext);
    free(mitext);
    free(mwtext);
}
