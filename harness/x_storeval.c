/* executor for family `storeval` (property C07): store a value into a managed CIF through one of the five routes, change
   and release the caller's object, read the stored value back three ways.

     storeval <route> <mutation> <value tokens>
        route    = set (cif_container_set_value) | additem (cif_loop_add_item default value, two existing packets)
                 | addpkt (cif_loop_add_packet) | update (cif_pktitr_update_packet)
                 | parse (the value written by cif_write from a scratch CIF, then cif_parse of that document)
        mutation = 0 (release only) | 1 (reinitialise as N/A, then release) | 2 (change the content in place, then release)
     -> sv rc=<code of the storing call> o=<original> g=<cif_container_get_value> i=<packet iteration, `,`-separated>
           w=<cif_walk item handler, `,`-separated> m=<field-level dump of the value read back>

   o/g/i/w are dumped through the PUBLIC API only: kind, text, quoted, and for numbers cif_value_get_number / get_su as
   (sign, 53-bit mantissa, exponent).  m reads the struct fields (digits, su digits, scale, sign), for the model. */
#include <math.h>
#include "value.c"
#include "x_gg.h"

static UChar NAME_X[] = { '_', 'x', 0 };
static UChar NAME_K[] = { '_', 'k', 0 };
static UChar CODE_B[] = { 'b', 0 };

static void fdouble(FILE *f, double d) {
    int e;
    double m;
    if (isnan(d)) { fprintf(f, "nan"); return; }
    if (isinf(d)) { fprintf(f, "%cinf", d < 0 ? '-' : '+'); return; }
    if (d == 0.0) { fprintf(f, "%c0", signbit(d) ? '-' : '+'); return; }
    m = frexp(fabs(d), &e);
    fprintf(f, "%c%llu:%d", d < 0 ? '-' : '+', (unsigned long long) ldexp(m, 53), e - 53);
}

/* public-API dump; numbers additionally `#<value>#<su>` */
static void fdump_pub(FILE *f, cif_value_tp *v) {
    UChar *t = NULL;
    size_t n, i;
    const UChar **keys = NULL;
    double d;
    if (v == NULL) { fprintf(f, "~"); return; }
    switch (cif_value_kind(v)) {
    case CIF_UNK_KIND: fprintf(f, "U"); break;
    case CIF_NA_KIND: fprintf(f, "N"); break;
    case CIF_CHAR_KIND:
    case CIF_NUMB_KIND:
        fprintf(f, "%c%d:", cif_value_kind(v) == CIF_CHAR_KIND ? 'C' : 'M', cif_value_is_quoted(v) == CIF_QUOTED ? 1 : 0);
        if (cif_value_get_text(v, &t) == CIF_OK) { fhex(f, t); free(t); } else fprintf(f, "!");
        if (cif_value_kind(v) == CIF_NUMB_KIND) {
            fprintf(f, "#"); if (cif_value_get_number(v, &d) == CIF_OK) fdouble(f, d); else fprintf(f, "!");
            fprintf(f, "#"); if (cif_value_get_su(v, &d) == CIF_OK) fdouble(f, d); else fprintf(f, "!");
        }
        break;
    case CIF_LIST_KIND:
        fprintf(f, "[");
        if (cif_value_get_element_count(v, &n) == CIF_OK)
            for (i = 0; i < n; i++) { cif_value_tp *e = NULL; fprintf(f, " "); if (cif_value_get_element_at(v, i, &e) == CIF_OK) fdump_pub(f, e); else fprintf(f, "!"); }
        fprintf(f, " ]");
        break;
    case CIF_TABLE_KIND:
        fprintf(f, "{");
        if (cif_value_get_keys(v, &keys) == CIF_OK) {
            for (i = 0; keys[i]; i++) {
                cif_value_tp *e = NULL;
                fprintf(f, " K:"); fhex(f, keys[i]); fprintf(f, " ");
                if (cif_value_get_item_by_key(v, keys[i], &e) == CIF_OK) fdump_pub(f, e); else fprintf(f, "!");
            }
            free(keys);
        }
        fprintf(f, " }");
        break;
    default: fprintf(f, "?kind%d", (int) cif_value_kind(v));
    }
}

/* change the caller's object in place */
static void mutate(cif_value_tp *v, int mode) {
    static UChar other[] = { 'm', 'u', 't', 'a', 't', 'e', 'd', 0 };
    if (mode == 1) { (void) cif_value_init(v, CIF_NA_KIND); return; }
    if (mode != 2) return;
    switch (cif_value_kind(v)) {
    case CIF_LIST_KIND: {
        size_t n = 0;
        cif_value_tp *e = NULL;
        (void) cif_value_get_element_count(v, &n);
        if (n > 0 && cif_value_get_element_at(v, 0, &e) == CIF_OK) (void) cif_value_copy_char(e, other);
        (void) cif_value_insert_element_at(v, 0, NULL);
        if (n > 0) (void) cif_value_remove_element_at(v, n, NULL);
        break;
    }
    case CIF_TABLE_KIND: {
        const UChar **keys = NULL;
        if (cif_value_get_keys(v, &keys) == CIF_OK) {
            if (keys[0]) {
                UChar *k = cif_u_strdup(keys[0]);
                cif_value_tp *e = NULL;
                if (cif_value_get_item_by_key(v, k, &e) == CIF_OK) (void) cif_value_copy_char(e, other);
                if (keys[1]) { UChar *k1 = cif_u_strdup(keys[1]); (void) cif_value_remove_item_by_key(v, k1, NULL); free(k1); }
                free(k);
            }
            free(keys);
        }
        (void) cif_value_set_item_by_key(v, other, NULL);
        break;
    }
    default:
        (void) cif_value_copy_char(v, other);
    }
}

typedef struct { FILE *out; int count; } walk_ctx;

static int on_item(UChar *name, cif_value_tp *value, void *context) {
    walk_ctx *c = (walk_ctx *) context;
    if (u_strcmp(name, NAME_X) == 0) {
        if (c->count++) fprintf(c->out, ",");
        fdump_pub(c->out, value);
    }
    return CIF_TRAVERSE_CONTINUE;
}

static cif_packet_tp *key_packet(int n) {
    cif_packet_tp *p = NULL;
    cif_value_tp *k = NULL;
    UChar txt[2] = { (UChar) ('0' + n), 0 };
    if (cif_packet_create(&p, NULL) != CIF_OK) return NULL;
    if (cif_value_create(CIF_UNK_KIND, &k) != CIF_OK) { cif_packet_free(p); return NULL; }
    (void) cif_value_copy_char(k, txt);
    (void) cif_packet_set_item(p, NAME_K, k);
    cif_value_free(k);
    return p;
}

static void handle(int argc, char **argv) {
    cif_tp *cif = NULL, *scratch = NULL;
    cif_block_tp *b = NULL;
    cif_loop_tp *loop = NULL;
    cif_value_tp *v = NULL, *g = NULL;
    cif_packet_tp *pkt = NULL;
    cif_pktitr_tp *it = NULL;
    char *otext = NULL, *wtext = NULL;
    size_t osz = 0, wsz = 0;
    FILE *m;
    const char *route;
    int pos = 3, rc = -1, mode, brc;
    UChar *names1[] = { NAME_K, NULL }, *names2[] = { NAME_K, NAME_X, NULL };

    if (argc < 4) { OUT("bad-op"); return; }
    route = argv[1];
    mode = atoi(argv[2]);
    while (pos < argc && argv[pos][0] == '@') pos++;           /* key normalisation pairs: for the model only */
    v = build_value(argv, argc, &pos, &brc);
    if (v == NULL || pos != argc) { if (v) cif_value_free(v); OUT("bad-op"); return; }
    m = open_memstream(&otext, &osz); fdump_pub(m, v); fclose(m);

    if (strcmp(route, "parse") == 0) {
        FILE *f = tmpfile();
        cif_block_tp *sb = NULL;
        rc = cif_create(&scratch);
        if (rc == CIF_OK) rc = cif_create_block(scratch, CODE_B, &sb);
        if (rc == CIF_OK) rc = cif_container_set_value(sb, NAME_X, v);
        if (rc == CIF_OK) rc = cif_write(f, NULL, scratch);
        if (sb) cif_container_free(sb);
        if (scratch) cif_destroy(scratch);
        if (rc == CIF_OK) {
            fflush(f); rewind(f);
            rc = cif_parse(f, NULL, &cif);
            if (rc == CIF_OK) rc = cif_get_block(cif, CODE_B, &b);
        }
        fclose(f);
    } else {
        rc = cif_create(&cif);
        if (rc == CIF_OK) rc = cif_create_block(cif, CODE_B, &b);
        if (rc != CIF_OK) { OUT("sv setup-failed"); goto done; }
        if (strcmp(route, "set") == 0) {
            rc = cif_container_set_value(b, NAME_X, v);
        } else if (strcmp(route, "additem") == 0) {
            int n;
            rc = cif_container_create_loop(b, NULL, names1, &loop);
            for (n = 1; rc == CIF_OK && n <= 2; n++) { pkt = key_packet(n); rc = pkt ? cif_loop_add_packet(loop, pkt) : CIF_ERROR; cif_packet_free(pkt); pkt = NULL; }
            if (rc == CIF_OK) rc = cif_loop_add_item(loop, NAME_X, v);
        } else if (strcmp(route, "addpkt") == 0) {
            rc = cif_container_create_loop(b, NULL, names2, &loop);
            if (rc == CIF_OK) { pkt = key_packet(1); rc = pkt ? cif_packet_set_item(pkt, NAME_X, v) : CIF_ERROR; }
            if (rc == CIF_OK) rc = cif_loop_add_packet(loop, pkt);
            cif_packet_free(pkt); pkt = NULL;
        } else if (strcmp(route, "update") == 0) {
            cif_packet_tp *cur = NULL;
            rc = cif_container_create_loop(b, NULL, names2, &loop);
            if (rc == CIF_OK) { pkt = key_packet(1); rc = pkt ? cif_loop_add_packet(loop, pkt) : CIF_ERROR; cif_packet_free(pkt); pkt = NULL; }
            if (rc == CIF_OK) rc = cif_loop_get_packets(loop, &it);
            if (rc == CIF_OK) {
                rc = cif_pktitr_next_packet(it, &cur);
                if (rc == CIF_OK) rc = cif_packet_set_item(cur, NAME_X, v);
                if (rc == CIF_OK) rc = cif_pktitr_update_packet(it, cur);
                if (rc == CIF_OK) rc = cif_pktitr_close(it); else (void) cif_pktitr_abort(it);
                it = NULL;
                cif_packet_free(cur);
            }
        } else { OUT("bad-op"); goto done; }
        if (loop) { cif_loop_free(loop); loop = NULL; }
    }

    /* the caller's object is changed and released before anything is read back */
    mutate(v, mode);
    cif_value_free(v); v = NULL;

    OUT("sv rc=%d o=%s", rc, otext);
    if (rc == CIF_OK) {
        cif_handler_tp handler;
        walk_ctx ctx;
        int r2, first = 1;
        /* (a) get_value */
        r2 = cif_container_get_value(b, NAME_X, &g);
        /* an item with several packets: the first value is provided together with CIF_AMBIGUOUS_ITEM (documented) */
        OUT(" g="); if (r2 == CIF_OK || (r2 == CIF_AMBIGUOUS_ITEM && g != NULL && strcmp(route, "additem") == 0)) fdump_pub(stdout, g); else OUT("!%d", r2);
        /* (b) packet iteration */
        OUT(" i=");
        r2 = cif_container_get_item_loop(b, NAME_X, &loop);
        if (r2 == CIF_OK) r2 = cif_loop_get_packets(loop, &it);
        if (r2 == CIF_OK) {
            cif_packet_tp *cur = NULL;
            while ((r2 = cif_pktitr_next_packet(it, &cur)) == CIF_OK) {
                cif_value_tp *x = NULL;
                if (!first) OUT(",");
                first = 0;
                if (cif_packet_get_item(cur, NAME_X, &x) == CIF_OK) fdump_pub(stdout, x); else OUT("!noitem");
            }
            if (r2 != CIF_FINISHED) OUT("!iter%d", r2);
            (void) cif_pktitr_close(it); it = NULL;
            if (cur) cif_packet_free(cur);
        } else OUT("!%d", r2);
        if (loop) { cif_loop_free(loop); loop = NULL; }
        /* (c) walk */
        memset(&handler, 0, sizeof(handler));
        handler.handle_item = on_item;
        ctx.out = open_memstream(&wtext, &wsz); ctx.count = 0;
        r2 = cif_walk(cif, &handler, &ctx);
        fclose(ctx.out);
        OUT(" w=%s", wtext);
        if (r2 != CIF_OK) OUT("!walk%d", r2);
        OUT(" m="); if (g) dumpx_value(g); else OUT("~");
    }
done:
    if (g) cif_value_free(g);
    if (v) cif_value_free(v);
    if (b) cif_container_free(b);
    if (cif) cif_destroy(cif);
    free(otext);
    free(wtext);
}
