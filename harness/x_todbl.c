/* executor for family `todbl` (property C10): the file-static to_double() of src/value.c on the REAL code.
     todbl <hex digit string> <scale>   ->   td <dbl> ref=<dbl|~>
   ref: glibc strtod on "<digits>e<-scale>" (implementation-level oracle only; `~` when the string is empty). */
#include "common.h"
#include "x_numb_dbl.h"
#include "value.c"

static void handle(int argc, char **argv) {
    UChar *u = NULL;
    char *a, *end;
    long scale;
    numb_env_init();
    if (argc != 3 || !unhex(argv[1], &u, NULL) || u == NULL) { free(u); OUT("bad-op"); return; }
    scale = strtol(argv[2], &end, 10);
    a = ascii_of(u);
    free(u);
    if (*end || a == NULL || scale < -2147483647L || scale > 2147483647L) { free(a); OUT("bad-op"); return; }
    OUT("td "); out_dbl(to_double(a, (int) scale));
    OUT(" ref=");
    if (*a && strspn(a, "0123456789") == strlen(a)) {
        char *b = (char *) malloc(strlen(a) + 40);
        sprintf(b, "%se%ld", a, -scale);
        out_dbl(strtod(b, NULL));
        free(b);
    } else OUT("~");
    free(a);
}
