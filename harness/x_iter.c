/* executor for family `iter` (property C06): the request language of family `store` (see x_store_body.h) — the generator
   tools/gen/iter.py builds a loop, opens an iterator, runs one of ALL call sequences up to a length bound, then dumps
   and makes a non-iterator call. */
#include "x_store_body.h"
