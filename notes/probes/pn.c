#include <stdio.h>
#include <stdlib.h>
#include <string.h>
#include <regex.h>
#include <unicode/ustring.h>
#include "cif.h"
int main(void) {
    const char *alpha = "+-.01eE()x"; int na = 10, len; long n = 0, bad = 0; regex_t re;
    regcomp(&re, "^[+-]?([0-9]+\\.?[0-9]*|\\.[0-9]+)([eE][+-]?[0-9]+)?(\\([0-9]+\\))?$", REG_EXTENDED | REG_NOSUB);
    for (len = 0; len <= 6; len++) {
        long total = 1, idx; int i; for (i = 0; i < len; i++) total *= na;
        for (idx = 0; idx < total; idx++) {
            char s[8]; UChar *u = malloc(16); long t = idx; cif_value_tp *v; int rc, want;
            for (i = 0; i < len; i++) { s[i] = alpha[t % na]; t /= na; } s[len] = 0;
            for (i = 0; i <= len; i++) u[i] = s[i];
            cif_value_create(CIF_NA_KIND, &v);
            rc = cif_value_parse_numb(v, u);
            want = (regexec(&re, s, 0, NULL, 0) == 0);
            n++;
            if ((rc == CIF_OK) != want || (rc != CIF_OK && rc != CIF_INVALID_NUMBER) || (rc != CIF_OK && cif_value_kind(v) != CIF_NA_KIND)) { bad++; if (bad < 20) printf("DIFF '%s' rc=%d want=%d kind=%d\n", s, rc, want, cif_value_kind(v)); }
            if (rc != CIF_OK) free(u);
            cif_value_free(v);
        }
    }
    printf("n=%ld bad=%ld\n", n, bad); return 0;
}
