#include <stdio.h>
#include <stdlib.h>
#include <string.h>
#include <unicode/ustring.h>
#include "cif.h"
static UChar *U(const char *s) { UChar *u; int i, k = strlen(s); u = malloc((k + 1) * 2); for (i = 0; i <= k; i++) u[i] = (unsigned char) s[i]; return u; }
static void pu(const UChar *s) { if (!s) { printf("(null)"); return; } for (; *s; s++) putchar(*s); }
static void dump(cif_container_tp *c) {
    cif_loop_tp **loops; int i, rc = cif_container_get_all_loops(c, &loops);
    printf("  [dump rc=%d:", rc);
    if (rc == 0) for (i = 0; loops[i]; i++) { UChar *cat, **names; cif_pktitr_tp *it; int np = 0, j; cif_loop_get_category(loops[i], &cat); printf(" loop(cat="); pu(cat); printf(";");
        if (cif_loop_get_names(loops[i], &names) == 0) for (j = 0; names[j]; j++) { pu(names[j]); printf(","); }
        rc = cif_loop_get_packets(loops[i], &it); if (rc == 0) { cif_packet_tp *p = NULL; while (cif_pktitr_next_packet(it, &p) == 0) np++; cif_pktitr_close(it); } printf(" packets=%d rc=%d)", np, rc); }
    printf("]\n");
}
#define R(x) do { int rc_ = (x); printf("%-70s -> %d\n", #x, rc_); } while (0)
int main(void) {
    cif_tp *cif; cif_block_tp *b; cif_loop_tp *l = NULL, *l2 = NULL, *sl = NULL; cif_packet_tp *p; cif_value_tp *v; cif_frame_tp *f1, *f2;
    UChar *n_ab[] = { U("_a"), U("_b"), NULL }; UChar *n_dup[] = { U("_c"), U("_d"), U("_C"), NULL }; UChar *n_inv[] = { U("_e"), U("bad"), U("_f"), NULL };
    UChar *n_cz[] = { U("_c"), U("_z"), NULL }; UChar *n_s[] = { U("_s1"), NULL }; UChar *n_abz[] = { U("_a"), U("_z"), U("_b"), NULL };
    cif_create(&cif); cif_create_block(cif, U("b"), &b); cif_value_create(CIF_NA_KIND, &v);
    R(cif_container_create_loop(b, U("cat"), n_ab, &l)); dump(b);
    R(cif_container_create_loop(b, NULL, n_dup, &l2)); dump(b);
    R(cif_container_create_loop(b, NULL, n_inv, &l2)); dump(b);
    R(cif_container_create_loop(b, NULL, n_cz, &l2)); dump(b);
    R(cif_container_set_value(b, U("_s0"), v)); dump(b);
    R(cif_container_create_loop(b, U(""), n_s, &sl)); dump(b);
    R(cif_container_get_category_loop(b, U(""), &sl));
    R(cif_loop_set_category(sl, U("x")));
    R(cif_loop_set_category(l, U("")));
    R(cif_loop_set_category(l, NULL));
    cif_packet_create(&p, n_abz);
    R(cif_loop_add_packet(l, p)); dump(b);
    cif_packet_free(p); cif_packet_create(&p, n_ab);
    R(cif_loop_add_packet(l, p)); R(cif_loop_add_packet(l, p)); dump(b);
    cif_packet_free(p); cif_packet_create(&p, NULL); R(cif_loop_add_packet(l, p));
    cif_packet_free(p); { UChar *n0[] = { U("_s0"), NULL }; cif_packet_create(&p, n0); }
    R(cif_loop_add_packet(sl, p)); dump(b);
    R(cif_loop_add_item(l, U("_A"), NULL)); R(cif_loop_add_item(l, U("_n ew"), NULL)); R(cif_loop_add_item(l, U("_new"), NULL)); dump(b);
    R(cif_container_remove_item(b, U("_NEW"))); R(cif_container_remove_item(b, U("_c"))); R(cif_container_remove_item(b, U("_z"))); dump(b);
    R(cif_loop_add_packet(l2, p)); R(cif_loop_set_category(l2, U("q")));
    { UChar **nm; R(cif_loop_get_names(l2, &nm)); }
    { cif_pktitr_tp *it; R(cif_loop_get_packets(l2, &it)); }
    { cif_pktitr_tp *it; cif_packet_tp *q = NULL; R(cif_loop_get_packets(sl, &it)); R(cif_pktitr_next_packet(it, &q)); R(cif_pktitr_remove_packet(it)); R(cif_container_set_value(b, U("_during"), v)); R(cif_pktitr_close(it)); } dump(b);
    R(cif_container_set_value(b, U("_s2"), v)); dump(b);
    R(cif_container_create_frame(b, U("f1"), &f1)); R(cif_container_create_frame(b, U("F1"), &f2)); R(cif_container_create_frame(b, U("f2"), &f2));
    R(cif_container_set_value(f1, U("_a"), v)); R(cif_container_set_value(f2, U("_a"), v));
    R(cif_container_destroy(f1)); dump(f2); dump(b);
    R(cif_container_prune(b)); dump(b);
    return 0;
}
