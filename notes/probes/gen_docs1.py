#!/usr/bin/env python3
"""Throw-away C01 oracle: random well-formed CIF 2.0 documents x random layouts -> parse with the real library ->
compare canonical dump with the denotation.  usage: gen_docs.py <dumpcif-binary> <seed> <n>"""
import random, subprocess, sys, os, re, tempfile

R = random.Random()
CIF1 = bool(os.environ.get("CIF1"))
ALPHA = list("abdtsvelopg_#$'\";:\\?.[]{} \t") + ["\n", "1", "-", "+", "(", ")"] + ([] if os.environ.get("CIF1") else ["é", "中", "\U0001F600"])
WORDS = ["data_", "data_x", "save_", "save_f", "loop_", "stop_", "global_", "DATA_Q", "Loop_", "?", ".", "??", "..", "1.5(3)", "-1e5", ";", ";a", "a;b", "'", "a'b", 'a"b', "a'''b", 'a"""b', "it's", "x:y", ":", "a:", "_a", "#c", "$r", "[", "a[b", "a}", "{a", "\\", "ab\\", "> \\", "\\\\"]

def rand_text():
    k = R.random()
    if k < 0.35: return R.choice(WORDS)
    n = R.choice([0, 1, 1, 2, 3, 4, 6, 10])
    return "".join(R.choice(ALPHA) for _ in range(n))

def is_reserved(s):
    l = s.lower()
    return s[:1] in "_#$'\"" or l.startswith("data_") or l.startswith("save_") or l in ("loop_", "stop_", "global_")

def bare_ok(s):
    if CIF1:
        return (len(s) > 0 and not any(c in s for c in " \t\n") and not is_reserved(s) and s[0] not in ";[]" and s not in ("?", ".") and all(ord(c) < 127 for c in s))
    return (len(s) > 0 and not any(c in s for c in " \t\n[]{}") and not is_reserved(s) and s[0] != ";" and s not in ("?", "."))

def first_line(s): return s.split("\n", 1)[0]

def plain_text_ok(s):
    return "\n;" not in s and "\\" not in first_line(s) and len(s) > 0 or (s == "")

def presentations1(s):
    out = []
    if "\n" not in s:
        for q in ("'", '"'):
            # closing quote must be the first quote followed by whitespace/EOF: so no (q + ws) inside s
            if not re.search(re.escape(q) + r"[ \t]", s):
                out.append(("q", q + s + q))
    if "\n;" not in s:
        out.append(("text", "\n;" + s + "\n;"))
    return out

def presentations(s, for_key=False):
    """list of (kind, rendered) admissible presentations; rendered excludes the leading separator requirements"""
    if CIF1: return presentations1(s)
    out = []
    if "\n" not in s:
        if "'" not in s: out.append(("sq", "'" + s + "'"))
        if '"' not in s: out.append(("dq", '"' + s + '"'))
    if "'''" not in s and not s.endswith("'"): out.append(("tsq", "'''" + s + "'''"))
    if '"""' not in s and not s.endswith('"'): out.append(("tdq", '"""' + s + '"""'))
    if not for_key:
        if "\n;" not in s and "\\" not in first_line(s) and not s.startswith(";") or (s.startswith(";") and "\n;" not in s):
            # text beginning with ';' is never treated as prefixed/folded; otherwise need first line free of backslash
            if s.startswith(";") or "\\" not in first_line(s):
                out.append(("text", "\n;" + s + "\n;"))
        # folded: every line not ending in backslash(+ws); fold at random points
        lines = s.split("\n")
        if all(not re.search(r"\\[ \t]*$", l) for l in lines):
            def fold(l):
                if len(l) < 2 or R.random() < 0.5: return l
                p = R.randrange(1, len(l))
                return l[:p] + "\\" + R.choice(["", " ", "\t "]) + "\n" + fold(l[p:])
            pre = R.choice(["", "", "> ", "ab", " "])
            if all(True for l in lines):
                body = "\n".join(pre + fold(l).replace("\n", "\n" + pre) for l in lines)
                hdr = (pre + "\\" if pre else "") + "\\"
                if pre or not any(pl.startswith(";") for pl in body.split("\n")):
                    out.append(("ftext", "\n;" + hdr + "\n" + body + "\n;"))
        if True:
            pre = R.choice(["> ", "ab", "x y "])
            lines = s.split("\n")
            out.append(("ptext", "\n;" + pre + "\\\n" + "\n".join(pre + l for l in lines) + "\n;"))
    return out

def gen_value(depth):
    k = R.random()
    if k < 0.08: return ("unk",)
    if k < 0.16: return ("na",)
    if CIF1: return ("str", rand_text()) if k >= 0.16 else ("na",)
    if depth < 3 and k < 0.26: return ("list", [gen_value(depth + 1) for _ in range(R.choice([0, 1, 2, 3]))])
    if depth < 3 and k < 0.36:
        keys = []
        for _ in range(R.choice([0, 1, 2, 3])):
            t = rand_text()
            if t not in keys and presentations(t, True): keys.append(t)
        return ("table", [(key, gen_value(depth + 1)) for key in keys])
    return ("str", rand_text())

def sep(must_eol=False, allow_empty=False):
    atoms = [" ", "  ", "\t", "\n", "\n\n", " #c\n", "\n# data_x 'q\n", " \n "]
    if allow_empty and R.random() < 0.3: return ""
    s = "".join(R.choice(atoms) for _ in range(R.choice([1, 1, 2, 3])))
    return s

def render_value(v, out_expected):
    """returns rendered text (without leading separator) ; appends canonical form to out_expected list"""
    if v[0] == "unk": out_expected.append("UNK"); return "?"
    if v[0] == "na": out_expected.append("NA"); return "."
    if v[0] == "str":
        s = v[1]
        pres = presentations(s)
        if bare_ok(s): pres = pres + [("bare", s)] * 3
        if not pres:
            s = 'x'; pres = [("bare", s)]
        kind, r = R.choice(pres)
        q = 0 if kind == "bare" else 1
        if CIF1 and kind == "bare" and any(c in s for c in "[]{}"): q = 1
        out_expected.append("S%d:%s" % (q, "".join("%04x" % u for u in utf16(s))))
        return r
    if v[0] == "list":
        parts = []; ex = []
        for e in v[1]:
            sub = []; r = render_value(e, sub); parts.append(r); ex.append(sub[0])
        out_expected.append("[" + "".join(x + "," for x in ex) + "]")
        txt = "["
        for i, r in enumerate(parts):
            txt += (sep(allow_empty=(i == 0)) if not r.startswith("\n;") else sep(allow_empty=True)) + r
        last_text = bool(parts) and parts[-1].startswith("\n;")
        txt += (sep() if last_text else sep(allow_empty=True)) + "]"
        return txt
    if v[0] == "table":
        ex = []; txt = "{"
        items = []
        prev_text = False
        for i, (k, e) in enumerate(v[1]):
            kind, kr = R.choice(presentations(k, True))
            sub = []; r = render_value(e, sub)
            items.append(("".join("%04x" % u for u in utf16(k)), sub[0]))
            txt += (sep(allow_empty=(i == 0 and not prev_text)) if True else "") + kr + ":" + r
            prev_text = r.startswith("\n;")
        txt += (sep() if prev_text else sep(allow_empty=True)) + "}"
        # canonical order: sort keys by utf16 code unit order (u_strcmp)
        items.sort(key=lambda kv: [int(kv[0][j:j+4], 16) for j in range(0, len(kv[0]), 4)])
        out_expected.append("{" + "".join(k + "=" + x + "," for k, x in items) + "}")
        return txt

def utf16(s):
    out = []
    for ch in s:
        o = ord(ch)
        if o >= 0x10000:
            o -= 0x10000; out += [0xD800 + (o >> 10), 0xDC00 + (o & 0x3FF)]
        else: out.append(o)
    return out

def hexs(s): return "".join("%04x" % u for u in utf16(s))

NAMES = ["_a", "_b", "_c", "_d.e", "_A1", "_x[1]", "_e2", "_long_name_x", "_q'", "_z\"", "_s;", "_p#q"]

def gen_container(path, depth, expected):
    txt = ""
    names = R.sample(NAMES, R.randrange(0, 7))
    used_frames = set()
    entries = []
    i = 0
    while i < len(names):
        if R.random() < 0.3 and len(names) - i >= 1:
            k = R.choice([1, 2, 3]); grp = names[i:i + k]; i += len(grp)
            entries.append(("loop", grp))
        else:
            entries.append(("item", names[i])); i += 1
    if depth == 0:
        for _ in range(R.choice([0, 0, 1, 2])): entries.insert(R.randrange(0, len(entries) + 1), ("frame",))
    prev_text = False
    for e in entries:
        if e[0] == "item":
            ex = []; v = gen_value(0); r = render_value(v, ex)
            txt += sep() + e[1] + sep() + r
            expected.append("I %s %s %s" % (path, hexs(e[1].lower()), ex[0]))
            expected.append("L %s %s" % (path, "?"))  # scalar loop marker handled separately
        elif e[0] == "loop":
            npk = R.choice([1, 1, 2, 3])
            txt += sep() + R.choice(["loop_", "LOOP_", "Loop_"])
            for nm in e[1]: txt += sep() + nm
            for p in range(npk):
                for nm in e[1]:
                    ex = []; v = gen_value(0); r = render_value(v, ex)
                    txt += sep() + r
                    expected.append("I %s %s %s" % (path, hexs(nm.lower()), ex[0]))
            expected.append("L %s %s" % (path, " ".join(sorted((hexs(n) for n in e[1]), key=lambda h: [int(h[j:j+4], 16) for j in range(0, len(h), 4)]))))
        else:
            code = R.choice(["f1", "F2", "fr_x", "q[1]", "e9"])
            if code.lower() in used_frames: continue
            used_frames.add(code.lower())
            sub = path + "/" + hexs(code)
            expected.append("C " + sub)
            txt += sep() + R.choice(["save_", "SAVE_", "Save_"]) + code
            txt += gen_container(sub, 1, expected)
            txt += sep() + R.choice(["save_", "SAVE_"])
    return txt

def gen_doc():
    expected = []
    txt = ("#\\#CIF_1.1" if CIF1 else "#\\#CIF_2.0") + R.choice(["\n", " \n", "\n\n", "\n#x\n"])
    codes = R.sample(["b1", "B2", "x.y", "blk[3]", "ee", "a'b"], R.choice([0, 1, 1, 2, 3]))
    if not codes and R.random() < 0.5: txt = txt.rstrip("\n") if R.random() < 0.3 else txt
    first = True
    for c in codes:
        path = "/" + hexs(c)
        expected.append("C " + path)
        txt += (sep(allow_empty=first) if True else "") + R.choice(["data_", "DATA_", "Data_"]) + c
        first = False
        txt += gen_container(path, 0, expected)
    txt += sep(allow_empty=True)
    return txt, expected

def canon(lines):
    """turn dump lines into comparable multiset; scalar-loop L lines are dropped (names of scalar loop vary)"""
    out = []
    for l in lines:
        if l.startswith("L "):
            continue
        out.append(l)
    return sorted(out)

def main():
    exe, seed, n = sys.argv[1], int(sys.argv[2]), int(sys.argv[3])
    R.seed(seed)
    bad = 0
    tmp = tempfile.mkdtemp(prefix="c01_")
    for i in range(n):
        txt, expected = gen_doc()
        fn = os.path.join(tmp, "d.cif")
        with open(fn, "wb") as f: f.write(txt.encode("utf-8"))
        res = subprocess.run([exe, fn], capture_output=True, text=True, timeout=20, env=dict(os.environ, ASAN_OPTIONS="detect_leaks=0"))
        lines = res.stdout.splitlines()
        errs = [l for l in lines if l.startswith("ERR")]
        rc = [l for l in lines if l.startswith("RC")]
        got = canon([l for l in lines if l[:2] in ("C ", "I ", "L ")])
        want = canon(expected)
        if errs or rc != ["RC 0"] or got != want or res.returncode != 0:
            bad += 1
            if bad <= 8:
                keep = os.path.join(tmp, "bad%d.cif" % bad)
                os.replace(fn, keep)
                print("BAD doc saved", keep, "errs=", errs[:3], "rc=", rc, "exit=", res.returncode)
                gs, ws = set(got), set(want)
                for l in sorted(gs - ws)[:3]: print("   got-only :", l[:150])
                for l in sorted(ws - gs)[:3]: print("   want-only:", l[:150])
                if res.stderr: print("   stderr:", res.stderr[:300])
    print("docs=%d bad=%d tmp=%s" % (n, bad, tmp))

main()
