#include "../../../repo/src/value.c"
#include <stdio.h>
int main(void) {
    char hex[100], exp[2000]; int scale; long n = 0, bad = 0;
    while (scanf("%99s %d %1999s", hex, &scale, exp) == 3) {
        double v = strtod(hex, NULL); char *s = to_digits(v, scale);
        n++;
        if (!s || strcmp(s, exp)) { bad++; if (bad <= 15) printf("DIFF v=%.17g (%s) scale=%d cif=%s expected=%s\n", v, hex, scale, s ? s : "(null)", exp); }
        free(s);
    }
    printf("n=%ld bad=%ld\n", n, bad); return 0;
}
