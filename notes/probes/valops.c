/* throw-away C19 probe: random list/table/packet operations vs a shadow model (strings identify values) */
#include <stdio.h>
#include <stdlib.h>
#include <string.h>
#include <unicode/ustring.h>
#include "cif.h"
static unsigned long long st;
static unsigned rnd(void) { st ^= st << 13; st ^= st >> 7; st ^= st << 17; return (unsigned) (st >> 11); }
static UChar *U(const char *s) { UChar *u; int i, k = strlen(s); u = malloc((k + 1) * 2); for (i = 0; i <= k; i++) u[i] = (unsigned char) s[i]; return u; }
static int eq(cif_value_tp *v, const char *s) { UChar *t = NULL, *u = U(s); int r; if (cif_value_kind(v) == CIF_UNK_KIND) { free(u); return !strcmp(s, "?"); } cif_value_get_text(v, &t); r = t && !u_strcmp(t, u); free(t); free(u); return r; }
#define MAXN 64
int main(int argc, char **argv) {
    int iters = atoi(argv[2]), it, bad = 0;
    st = 88172645463325252ULL ^ (unsigned long long) atoll(argv[1]) * 2654435761ULL; rnd();
    /* ---- lists ---- */
    for (it = 0; it < iters; it++) {
        cif_value_tp *list; char shadow[MAXN][8]; int n = 0, step;
        cif_value_create(CIF_LIST_KIND, &list);
        for (step = 0; step < 60; step++) {
            int op = rnd() % 7; size_t idx = rnd() % (n + 2); char s[8]; cif_value_tp *v, *e = NULL; int rc, j; size_t cnt;
            sprintf(s, "v%u", rnd() % 1000); cif_value_create(CIF_UNK_KIND, &v); { UChar *u = U(s); cif_value_copy_char(v, u); free(u); }
            switch (op) {
            case 0: case 1: rc = cif_value_insert_element_at(list, idx, (rnd() % 5) ? v : NULL);
                if (idx > (size_t) n) { if (rc != CIF_INVALID_INDEX) { bad++; printf("insert idx>n rc=%d\n", rc); } }
                else if (n < MAXN - 1) { if (rc != CIF_OK) { bad++; printf("insert rc=%d\n", rc); } else { for (j = n; j > (int) idx; j--) strcpy(shadow[j], shadow[j-1]); strcpy(shadow[idx], "?"); n++; cif_value_get_element_at(list, idx, &e); if (cif_value_kind(e) != CIF_UNK_KIND) strcpy(shadow[idx], s); if (e == v) { bad++; printf("insert aliased\n"); } } }
                break;
            case 2: rc = cif_value_set_element_at(list, idx, v);
                if (idx >= (size_t) n) { if (rc != CIF_INVALID_INDEX) { bad++; printf("set idx>=n rc=%d\n", rc); } } else { if (rc != CIF_OK) { bad++; printf("set rc=%d\n", rc); } strcpy(shadow[idx], s); }
                break;
            case 3: rc = cif_value_remove_element_at(list, idx, (rnd() % 2) ? &e : NULL);
                if (idx >= (size_t) n) { if (rc != CIF_INVALID_INDEX) { bad++; printf("remove idx>=n rc=%d\n", rc); } } else { if (rc != CIF_OK) { bad++; printf("remove rc=%d\n", rc); } if (e && !eq(e, shadow[idx])) { bad++; printf("removed wrong\n"); } for (j = idx; j < n - 1; j++) strcpy(shadow[j], shadow[j+1]); n--; if (e) cif_value_free(e); }
                break;
            case 4: if (n > 0) { idx %= n; cif_value_get_element_at(list, idx, &e); rc = cif_value_set_element_at(list, idx, e); if (rc != CIF_OK || !eq(e, shadow[idx])) { bad++; printf("self-set rc=%d\n", rc); } } break;
            case 5: { cif_value_tp *cl = NULL; rc = cif_value_clone(list, &cl); if (rc == CIF_OK) { cif_value_get_element_count(cl, &cnt); if (cnt != (size_t) n) { bad++; printf("clone count\n"); } for (j = 0; j < n; j++) { cif_value_get_element_at(cl, j, &e); if (!eq(e, shadow[j])) { bad++; printf("clone elem %d\n", j); } } if (n > 0) { cif_value_get_element_at(cl, 0, &e); cif_value_init(e, CIF_NA_KIND); cif_value_get_element_at(list, 0, &e); if (!eq(e, shadow[0])) { bad++; printf("clone shares storage\n"); } } cif_value_free(cl); } } break;
            case 6: if (n > 0 && rnd() % 4 == 0) { idx %= n; rc = cif_value_insert_element_at(list, rnd() % (n + 1), NULL); if (rc == 0 && n < MAXN - 1) { /* recompute shadow by reading back */ } if (rc == 0) { size_t k; cif_value_get_element_count(list, &cnt); n = cnt; for (k = 0; k < cnt; k++) { UChar *t = NULL; cif_value_get_element_at(list, k, &e); if (cif_value_kind(e) == CIF_UNK_KIND) strcpy(shadow[k], "?"); else { int q; cif_value_get_text(e, &t); for (q = 0; t[q]; q++) shadow[k][q] = (char) t[q]; shadow[k][q] = 0; free(t); } } } } break;
            }
            cif_value_free(v);
            cif_value_get_element_count(list, &cnt); if (cnt != (size_t) n) { bad++; printf("count %zu vs %d\n", cnt, n); }
            for (j = 0; j < n; j++) { cif_value_get_element_at(list, j, &e); if (!eq(e, shadow[j])) { bad++; printf("elem %d mismatch\n", j); break; } }
            if (n >= MAXN - 2) break;
        }
        cif_value_free(list);
    }
    /* ---- tables & packets with case/normalisation variants ---- */
    for (it = 0; it < iters; it++) {
        const char *tk[] = { "a", "A", "b", "", " k ", "e\xcc\x81", "\xc3\xa9" }; /* table keys: case-sensitive, NFC-insensitive */
        const char *pk[] = { "_a", "_A", "_b", "_B", "_c" };
        cif_value_tp *tb; cif_packet_tp *p; int step; UChar *names[] = { U("_a"), U("_B"), NULL };
        cif_value_create(CIF_TABLE_KIND, &tb); cif_packet_create(&p, names);
        for (step = 0; step < 40; step++) {
            int op = rnd() % 6; cif_value_tp *v, *e = NULL; int rc; UChar *key = NULL; const UChar **ks; int32_t l;
            cif_value_create(CIF_NA_KIND, &v);
            if (rnd() % 2) { const char *k8 = tk[rnd() % 7]; key = malloc(20); u_strFromUTF8(key, 10, &l, k8, -1, &(UErrorCode){0});
                switch (op) { case 0: case 1: rc = cif_value_set_item_by_key(tb, key, v); break; case 2: rc = cif_value_get_item_by_key(tb, key, &e); break; case 3: rc = cif_value_remove_item_by_key(tb, key, (rnd() % 2) ? &e : NULL); if (rc == 0 && e) cif_value_free(e); break; case 4: rc = cif_value_get_keys(tb, &ks); if (rc == 0) free(ks); break; default: { cif_value_tp *cl = NULL; rc = cif_value_clone(tb, &cl); cif_value_free(cl); } }
            } else { key = U(pk[rnd() % 5]);
                switch (op) { case 0: case 1: rc = cif_packet_set_item(p, key, v); break; case 2: rc = cif_packet_get_item(p, key, &e); break; case 3: rc = cif_packet_remove_item(p, key, (rnd() % 2) ? &e : NULL); if (rc == 0 && e) cif_value_free(e); break; default: rc = cif_packet_get_names(p, &ks); if (rc == 0) free(ks); }
            }
            free(key); cif_value_free(v);
        }
        cif_value_free(tb); cif_packet_free(p); free(names[0]); free(names[1]);
    }
    printf("bad=%d\n", bad); return 0;
}
