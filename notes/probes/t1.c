/* experiment: parse a byte string given on argv (with C escapes handled by caller via printf), dump */
#include <stdio.h>
#include <stdlib.h>
#include <string.h>
#include <unicode/ustring.h>
#include <unicode/ustdio.h>
#include "cif.h"

static int errcb(int code, size_t line, size_t col, const UChar *text, size_t len, void *data) {
    printf("ERR code=%d line=%zu col=%zu len=%zu\n", code, line, col, len);
    return getenv("DIE") ? code : 0;
}

static void pu(const UChar *s) {
    if (!s) { printf("(null)"); return; }
    for (; *s; s++) {
        if (*s >= 0x20 && *s < 0x7f && *s != '\\') putchar(*s); else printf("\\u%04x", *s);
    }
}

static void dump_value(cif_value_tp *v) {
    UChar *t = NULL; size_t n, i; const UChar **keys;
    switch (cif_value_kind(v)) {
    case CIF_CHAR_KIND: cif_value_get_text(v, &t); printf("C%d<", cif_value_is_quoted(v)); pu(t); printf(">"); free(t); break;
    case CIF_NUMB_KIND: cif_value_get_text(v, &t); printf("N%d<", cif_value_is_quoted(v)); pu(t); printf(">"); free(t); break;
    case CIF_NA_KIND: printf("NA"); break;
    case CIF_UNK_KIND: printf("UNK"); break;
    case CIF_LIST_KIND:
        cif_value_get_element_count(v, &n); printf("[");
        for (i = 0; i < n; i++) { cif_value_tp *e; cif_value_get_element_at(v, i, &e); dump_value(e); printf(" "); }
        printf("]"); break;
    case CIF_TABLE_KIND:
        cif_value_get_keys(v, &keys); printf("{");
        for (i = 0; keys[i]; i++) { cif_value_tp *e; pu(keys[i]); printf(":"); cif_value_get_item_by_key(v, keys[i], &e); dump_value(e); printf(" "); }
        free(keys); printf("}"); break;
    }
}

static int h_block(cif_container_tp *c, void *x) { UChar *code; cif_container_get_code(c, &code); printf("BLOCK "); pu(code); printf("\n"); free(code); return 0; }
static int h_frame(cif_container_tp *c, void *x) { UChar *code; cif_container_get_code(c, &code); printf("FRAME "); pu(code); printf("\n"); free(code); return 0; }
static int h_cend(cif_container_tp *c, void *x) { printf("END-CONTAINER\n"); return 0; }
static int h_loop(cif_loop_tp *l, void *x) { UChar *cat; cif_loop_get_category(l, &cat); printf("LOOP cat="); pu(cat); printf("\n"); free(cat); return 0; }
static int h_lend(cif_loop_tp *l, void *x) { printf("END-LOOP\n"); return 0; }
static int h_pkt(cif_packet_tp *p, void *x) { printf(" PACKET\n"); return 0; }
static int h_pend(cif_packet_tp *p, void *x) { return 0; }
static int h_item(UChar *name, cif_value_tp *v, void *x) { printf("  ITEM "); pu(name); printf(" = "); dump_value(v); printf("\n"); return 0; }

int main(int argc, char **argv) {
    FILE *f = fopen(argv[1], "rb");
    cif_tp *cif = NULL;
    struct cif_parse_opts_s *opts;
    cif_handler_tp h = { NULL, NULL, h_block, h_cend, h_frame, h_cend, h_loop, h_lend, h_pkt, h_pend, h_item };
    int rc;
    cif_parse_options_create(&opts);
    opts->error_callback = errcb;
    if (getenv("PREFER")) opts->prefer_cif2 = atoi(getenv("PREFER"));
    if (getenv("FOLD")) opts->line_folding_modifier = atoi(getenv("FOLD"));
    if (getenv("PREFIX")) opts->text_prefixing_modifier = atoi(getenv("PREFIX"));
    if (getenv("DEPTH")) opts->max_frame_depth = atoi(getenv("DEPTH"));
    rc = cif_parse(f, opts, &cif);
    printf("parse rc=%d\n", rc);
    if (cif) { rc = cif_walk(cif, &h, NULL); printf("walk rc=%d\n", rc);
      if (getenv("WRITE")) { struct cif_write_opts_s *wo; cif_write_options_create(&wo); wo->cif_version = atoi(getenv("WRITE")); rc = cif_write(stdout, wo, cif); printf("\nwrite rc=%d\n", rc); free(wo);}
      cif_destroy(cif); }
    free(opts); fclose(f);
    return 0;
}
