import random, subprocess, sys, os, glob, tempfile
R2 = random.Random(int(sys.argv[2]) * 7919 + 13); exe = sys.argv[1]; n = int(sys.argv[3])
sys.argv = ['x', exe, '1', '0']
src = open('gen_docs.py').read().replace('main()\n', '')
exec(src)
tokens = [b"data_", b"save_", b"loop_", b"'", b'"', b"'''", b'"""', b"\n;", b"[", b"]", b"{", b"}", b":", b"_x", b"?", b"\r\n", b"\r", b"\xef\xbb\xbf", b"\x00", b"\x07", b"\xff", b"\xed\xa0\x80", b"\xf4\x90\x80\x80", b"global_", b"stop_", b"$", b"#", b" ", b"\t", b"\x0b", b"\x0c", b"\xef\xbf\xbe", b"\xef\xb7\x90"]
tmp = tempfile.mkdtemp(prefix='fz_'); bad = 0
import builtins
for i in range(n):
    globals()['R'].seed(R2.random())
    txt, _ = gen_doc(); data = bytearray(txt.encode('utf-8'))
    for _ in range(R2.choice([1, 1, 2, 3, 5])):
        k = R2.random(); pos = R2.randrange(0, len(data) + 1)
        if k < 0.3 and len(data) > 0: del data[pos % len(data): pos % len(data) + R2.choice([1, 1, 2, 5])]
        elif k < 0.6: data[pos:pos] = R2.choice(tokens)
        elif k < 0.75: data = data[:pos]
        elif k < 0.9 and len(data) > 0: data[pos % len(data)] = R2.randrange(0, 256)
        else: data[pos:pos] = data[pos: pos + R2.randrange(1, 30)]
    fn = os.path.join(tmp, 'm.cif'); open(fn, 'wb').write(bytes(data))
    for pref in (None, '-1', '20'):
        args = [exe, fn] + ([pref] if pref else [])
        try:
            res = subprocess.run(args, capture_output=True, timeout=20, env=dict(os.environ, ASAN_OPTIONS='detect_leaks=1'))
            ok = (res.returncode == 0)
            why = 'exit %d' % res.returncode
        except subprocess.TimeoutExpired:
            ok = False; why = 'TIMEOUT'; res = None
        if not ok:
            bad += 1
            keep = os.path.join(tmp, 'crash%d.cif' % bad); open(keep, 'wb').write(bytes(data))
            if bad <= 10:
                err = res.stderr.decode('latin1') if res else ''
                summ = [l for l in err.splitlines() if 'SUMMARY' in l or 'runtime error' in l][:2]
                print('BAD', why, 'pref', pref, keep, summ)
            break
print('mutants=%d bad=%d tmp=%s' % (n, bad, tmp))
