#include "../../../repo/src/value.c"
#include <stdio.h>
int main(void) {
    static char digits[5000]; int scale; long n = 0, bad = 0, badtie = 0;
    while (scanf("%4999s %d", digits, &scale) == 2) {
        char buf[5100]; double a, b;
        sprintf(buf, "%se%d", digits, -scale);
        b = strtod(buf, NULL);
        if (!(fabs(b) >= DBL_MIN) || isinf(b)) continue;
        a = to_double(digits, scale);
        n++;
        if (a != b) { bad++; if (bad <= 12) printf("DIFF %s e%d: cif=%a strtod=%a\n", strlen(digits) > 60 ? "(long)" : digits, -scale, a, b); }
    }
    printf("n=%ld bad=%ld\n", n, bad);
    return 0;
}
