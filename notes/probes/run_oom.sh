#!/bin/bash
# for each op: count allocations, then fail each k; summarise outcomes
for op in value_create_char copy_char clone_table clone_list list_insert table_set table_set_existing get_keys packet_create packet_set parse_numb init_numb autoinit get_text normalize analyze create_block get_block get_all_blocks create_frame create_loop get_all_loops get_names get_category set_category get_item_loop get_cat_loop add_packet add_item set_value_new set_value_existing get_value remove_item iterate walk_write parse; do
  n=$(ASAN_OPTIONS=detect_leaks=0 ./oom $op 0 2>/dev/null | sed -n 's/.*allocs=\([0-9]*\).*/\1/p')
  [ -z "$n" ] && { echo "$op: baseline failed"; continue; }
  okc=0; crash=0; leak=0; wrongrc=0; post=0; details=""
  for k in $(seq 1 $n); do
    out=$(timeout 20 ./oom $op $k 2>&1); ec=$?
    rc=$(echo "$out" | sed -n 's/.* rc=\(-\?[0-9]*\)$/\1/p' | head -1)
    if echo "$out" | grep -q "LeakSanitizer"; then leak=$((leak+1)); details="$details k$k:leak"; 
    elif [ $ec -ne 0 ]; then crash=$((crash+1)); details="$details k$k:$(echo "$out" | grep -o 'AddressSanitizer: [a-zA-Z-]*' | head -1 | cut -d' ' -f2)$(echo "$out" | grep -o 'runtime error: [a-z ]*' | head -1 | cut -c15-40)"; 
    elif [ "$rc" != "2" ] && [ "$rc" != "3" ]; then wrongrc=$((wrongrc+1)); details="$details k$k:rc=$rc";
    else okc=$((okc+1)); fi
    if echo "$out" | grep -q "POST"; then post=$((post+1)); details="$details k$k:POST"; fi
  done
  echo "$op: allocs=$n ok=$okc crash=$crash leak=$leak wrongrc=$wrongrc post=$post $details" | cut -c1-260
done
