/* parse-time callbacks: k-th handler callback returns chosen response; storing vs syntax-only */
#include <stdio.h>
#include <stdlib.h>
#include <string.h>
#include <unicode/ustring.h>
#include "cif.h"
static int n = 0, at = -1, resp = 0;
static int R(const char *what, const UChar *id) { printf("%s", what); if (id) { printf("("); for (; *id; id++) putchar(*id); printf(")"); } printf(" "); return (n++ == at) ? resp : 0; }
static int cs(cif_tp *c, void *x) { return R("cif{", NULL); }
static int ce(cif_tp *c, void *x) { return R("}cif", NULL); }
static int bs(cif_container_tp *c, void *x) { return R("B{", NULL); }
static int be(cif_container_tp *c, void *x) { return R("}B", NULL); }
static int fs(cif_container_tp *c, void *x) { return R("F{", NULL); }
static int fe(cif_container_tp *c, void *x) { return R("}F", NULL); }
static int ls(cif_loop_tp *l, void *x) { return R("L{", NULL); }
static int le(cif_loop_tp *l, void *x) { return R("}L", NULL); }
static int ps(cif_packet_tp *p, void *x) { return R("P{", NULL); }
static int pe(cif_packet_tp *p, void *x) { return R("}P", NULL); }
static int it(UChar *name, cif_value_tp *v, void *x) { return R("i", name); }
static int errcb(int code, size_t line, size_t col, const UChar *text, size_t len, void *data) { printf("E%d ", code); return 0; }
static int d_item(UChar *name, cif_value_tp *v, void *x) { UChar *t = NULL; printf("%c", ' '); for (; *name; name++) putchar(*name); cif_value_get_text(v, &t); printf("="); if (t) for (; *t; t++) putchar(*t); return 0; }
static int d_b(cif_container_tp *c, void *x) { UChar *code; cif_container_get_code(c, &code); printf(" ["); for (; *code; code++) putchar(*code); return 0; }
static int d_e(cif_container_tp *c, void *x) { printf("]"); return 0; }
int main(int argc, char **argv) {
    cif_tp *cif = NULL; FILE *f; cif_handler_tp h = { cs, ce, bs, be, fs, fe, ls, le, ps, pe, it }; cif_handler_tp d = { 0,0, d_b, d_e, d_b, d_e, 0,0,0,0, d_item }; int rc; struct cif_parse_opts_s *o;
    const char *doc = "#\\#CIF_2.0\ndata_b1\n_p 0\nsave_f1 _x 1 save_\nloop_ _a _b 1 2 3 4\n_s 5\ndata_b2 _t 6\n";
    at = atoi(argv[1]); resp = atoi(argv[2]);
    cif_parse_options_create(&o); o->handler = &h; o->error_callback = errcb;
    f = fmemopen((void *) doc, strlen(doc), "rb"); rc = cif_parse(f, o, argc > 3 ? NULL : &cif); fclose(f);
    printf("=> rc=%d", rc);
    if (cif) { printf("  STORED:"); cif_walk(cif, &d, NULL); }
    printf("\n");
    return 0;
}
