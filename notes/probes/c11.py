import subprocess, os, itertools, codecs
exe = './dumpcif_orig'
def run(data, prefer):
    open('c11.cif','wb').write(data)
    r = subprocess.run([exe, 'c11.cif', str(prefer)], capture_output=True, text=True, timeout=20, env=dict(os.environ, ASAN_OPTIONS='detect_leaks=0'))
    lines = r.stdout.splitlines()
    errs = [l.split()[1] for l in lines if l.startswith('ERR')]
    islist = any(l.startswith('I ') and l.split()[3].startswith('[') for l in lines)
    hasval = any(l.startswith('I ') for l in lines)
    return ('v2' if islist else ('v1' if hasval else 'none')), errs
magics = {'none': '', 'm2': '#\\#CIF_2.0\n', 'm11': '#\\#CIF_1.1\n', 'm10': '#\\#CIF_1.0\n', 'late2': '\n#\\#CIF_2.0\n'}
body = 'data_a _x [a b]\n'
encs = {'utf8': ('utf-8', b'\xef\xbb\xbf'), 'utf16le': ('utf-16-le', b'\xff\xfe'), 'utf16be': ('utf-16-be', b'\xfe\xff'), 'utf32le': ('utf-32-le', b'\xff\xfe\x00\x00'), 'utf32be': ('utf-32-be', b'\x00\x00\xfe\xff')}
def spec(prefer, m):
    if prefer < 0: return 'v1'
    if prefer >= 20: return 'v2'
    if m == 'm2': return 'v2'
    if m in ('m11', 'm10'): return 'v1'
    return 'v2' if prefer > 0 else 'v1'   # none / late2 count as "no comment"
bad = 0; n = 0
for (mk, mtxt), (ek, (codec, bom)), usebom, prefer in itertools.product(magics.items(), encs.items(), [True, False], [-1, 0, 1, 19, 20]):
    if not usebom and ek != 'utf8': continue   # non-UTF-8 without signature is outside the property
    data = (bom if usebom else b'') + (mtxt + body).encode(codec)
    got, errs = run(data, prefer)
    want = spec(prefer, mk)
    wrongenc = ('110' in errs)
    want_wrongenc = (want == 'v2' and ek != 'utf8')
    n += 1
    if got != want or wrongenc != want_wrongenc:
        bad += 1
        print(f"magic={mk:5} enc={ek:7} bom={usebom!s:5} prefer={prefer:3}: got {got} errs={errs[:4]} want {want} wrongenc={want_wrongenc}")
print('cells', n, 'bad', bad)
