#include <stdio.h>
#include <stdlib.h>
#include <string.h>
#include <unicode/ustring.h>
#include "cif.h"
static UChar *U(const char *s) { UChar *u; int i, k = strlen(s); u = malloc((k + 1) * 2); for (i = 0; i <= k; i++) u[i] = (unsigned char) s[i]; return u; }
static void pu(const UChar *s) { if (!s) { printf("(null)"); return; } for (; *s; s++) putchar(*s); }
static void pv(cif_value_tp *v) { UChar *t = NULL; switch (cif_value_kind(v)) { case CIF_UNK_KIND: printf("?"); break; case CIF_NA_KIND: printf("."); break; default: cif_value_get_text(v, &t); pu(t); free(t); } }
static void dumploop(cif_loop_tp *l) { cif_pktitr_tp *it; cif_packet_tp *p = NULL; int rc = cif_loop_get_packets(l, &it); printf("   loop rc=%d:", rc); if (rc) { printf("\n"); return; } while (cif_pktitr_next_packet(it, &p) == 0) { const UChar **ns; int i; cif_packet_get_names(p, &ns); printf(" {"); for (i = 0; ns[i]; i++) { cif_value_tp *v; cif_packet_get_item(p, ns[i], &v); pu(ns[i]); printf("="); pv(v); printf(" "); } printf("}"); free(ns); } cif_packet_free(p); cif_pktitr_close(it); printf("\n"); }
#define R(x) do { int rc_ = (x); printf("%-64s -> %d\n", #x, rc_); } while (0)
static cif_value_tp *S(const char *s) { cif_value_tp *v; cif_value_create(CIF_UNK_KIND, &v); cif_value_copy_char(v, U(s)); return v; }
int main(void) {
    cif_tp *cif, *cif2; cif_block_tp *b, *b2; cif_loop_tp *l; cif_packet_tp *p; cif_value_tp *v = NULL; cif_pktitr_tp *it; cif_packet_tp *q = NULL; int i;
    UChar *n_ab[] = { U("_a"), U("_b"), NULL };
    cif_create(&cif); cif_create(&cif2); cif_create_block(cif, U("b"), &b); cif_create_block(cif2, U("b"), &b2);
    R(cif_container_create_loop(b, U("c"), n_ab, &l));
    cif_packet_create(&p, n_ab);
    for (i = 0; i < 3; i++) { char t[8]; sprintf(t, "a%d", i); cif_packet_set_item(p, n_ab[0], S(t)); sprintf(t, "b%d", i); cif_packet_set_item(p, n_ab[1], S(t)); cif_loop_add_packet(l, p); }
    dumploop(l);
    R(cif_loop_add_item(l, U("_c"), S("cc"))); dumploop(l);
    R(cif_container_set_value(b, U("_B"), S("BB"))); dumploop(l);
    R(cif_container_get_value(b, U("_a"), &v)); printf("   got "); pv(v); printf("\n");
    R(cif_container_get_value(b, U("_nope"), NULL)); R(cif_container_get_value(b, U("bad name"), NULL));
    /* partial packet add: only _a */
    { UChar *n_a[] = { U("_a"), NULL }; cif_packet_tp *pa; cif_packet_create(&pa, n_a); cif_packet_set_item(pa, n_a[0], S("a3")); R(cif_loop_add_packet(l, pa)); dumploop(l); }
    /* iterator: update subset, foreign item, abort */
    R(cif_loop_get_packets(l, &it)); R(cif_pktitr_next_packet(it, &q));
    { UChar *n_b[] = { U("_b"), NULL }; cif_packet_tp *pb; cif_packet_create(&pb, n_b); cif_packet_set_item(pb, n_b[0], S("upd")); R(cif_pktitr_update_packet(it, pb)); }
    { UChar *n_bz[] = { U("_b"), U("_zz"), NULL }; cif_packet_tp *pb; cif_packet_create(&pb, n_bz); cif_packet_set_item(pb, n_bz[0], S("bad")); R(cif_pktitr_update_packet(it, pb)); }
    R(cif_pktitr_next_packet(it, &q)); R(cif_pktitr_remove_packet(it));
    R(cif_pktitr_abort(it)); dumploop(l);
    R(cif_loop_get_packets(l, &it)); q = NULL; R(cif_pktitr_next_packet(it, &q));
    { UChar *n_b[] = { U("_b"), NULL }; cif_packet_tp *pb; cif_packet_create(&pb, n_b); cif_packet_set_item(pb, n_b[0], S("upd")); R(cif_pktitr_update_packet(it, pb)); }
    R(cif_pktitr_next_packet(it, &q)); R(cif_pktitr_remove_packet(it)); R(cif_pktitr_close(it)); dumploop(l);
    R(cif_container_remove_item(b, U("_A"))); dumploop(l);
    R(cif_container_get_value(b2, U("_b"), NULL));
    R(cif_loop_destroy(l));
    R(cif_container_get_value(b, U("_b"), NULL));
    { cif_loop_tp **ls; R(cif_container_get_all_loops(b, &ls)); printf("   first loop ptr %s\n", ls[0] ? "non-null" : "null"); }
    R(cif_container_destroy(b));
    { cif_block_tp **bs; R(cif_get_all_blocks(cif, &bs)); printf("   blocks: %s\n", bs[0] ? "some" : "none"); R(cif_get_all_blocks(cif2, &bs)); printf("   blocks2: %s\n", bs[0] ? "some" : "none"); }
    R(cif_destroy(cif)); R(cif_container_set_value(b2, U("_still"), NULL)); R(cif_destroy(cif2));
    return 0;
}
