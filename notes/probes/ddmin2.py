import subprocess, sys, os
def hangs(data):
    open('dd.cif','wb').write(data)
    try:
        subprocess.run(['./dumpcif_orig','dd.cif'], capture_output=True, timeout=1.0, env=dict(os.environ, ASAN_OPTIONS='detect_leaks=0'))
        return False
    except subprocess.TimeoutExpired:
        return True
data = open(sys.argv[1],'rb').read()
assert hangs(data)
changed = True
while changed:
    changed = False
    for size in (16, 8, 4, 2, 1):
        i = 0
        while i < len(data):
            cand = data[:i] + data[i+size:]
            if cand and hangs(cand):
                data = cand; changed = True
            else:
                i += size
open('hang_min.cif','wb').write(data)
print(len(data), repr(data))
