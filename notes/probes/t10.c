/* cif_walk with a handler program: k-th callback returns a chosen response; prints the log */
#include <stdio.h>
#include <stdlib.h>
#include <string.h>
#include <unicode/ustring.h>
#include "cif.h"
static UChar *U(const char *s) { UChar *u; int i, k = strlen(s); u = malloc((k + 1) * 2); for (i = 0; i <= k; i++) u[i] = (unsigned char) s[i]; return u; }
static int n = 0, at = -1, resp = 0;
static int R(const char *what, const UChar *id) { printf("%d:%s", n, what); if (id) { printf("("); for (; *id; id++) putchar(*id); printf(")"); } printf(" "); return (n++ == at) ? resp : 0; }
static int cs(cif_tp *c, void *x) { return R("cif{", NULL); }
static int ce(cif_tp *c, void *x) { return R("}cif", NULL); }
static int bs(cif_container_tp *c, void *x) { UChar *code; cif_container_get_code(c, &code); return R("B{", code); }
static int be(cif_container_tp *c, void *x) { return R("}B", NULL); }
static int fs(cif_container_tp *c, void *x) { UChar *code; cif_container_get_code(c, &code); return R("F{", code); }
static int fe(cif_container_tp *c, void *x) { return R("}F", NULL); }
static int ls(cif_loop_tp *l, void *x) { UChar **nm; cif_loop_get_names(l, &nm); return R("L{", nm[0]); }
static int le(cif_loop_tp *l, void *x) { return R("}L", NULL); }
static int ps(cif_packet_tp *p, void *x) { return R("P{", NULL); }
static int pe(cif_packet_tp *p, void *x) { return R("}P", NULL); }
static int it(UChar *name, cif_value_tp *v, void *x) { return R("i", name); }
int main(int argc, char **argv) {
    cif_tp *cif = NULL; FILE *f; cif_handler_tp h = { cs, ce, bs, be, fs, fe, ls, le, ps, pe, it }; int rc;
    const char *doc = "#\\#CIF_2.0\ndata_b1\nsave_f1 _x 1 save_\nsave_f2 _y 2 save_\nloop_ _a _b 1 2 3 4\n_s 5\ndata_b2 _t 6\n";
    f = fmemopen((void *) doc, strlen(doc), "rb"); rc = cif_parse(f, NULL, &cif); fclose(f);
    at = atoi(argv[1]); resp = atoi(argv[2]);
    rc = cif_walk(cif, &h, NULL); printf("=> rc=%d\n", rc);
    return 0;
}
