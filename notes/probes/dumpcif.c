/* canonical line dump of a parsed CIF: one line per item value.  usage: dumpcif file [prefer] */
#include <stdio.h>
#include <stdlib.h>
#include <string.h>
#include <unicode/ustring.h>
#include "cif.h"
static int errcb(int code, size_t line, size_t col, const UChar *text, size_t len, void *data) { printf("ERR %d %zu\n", code, line); return 0; }
static void pu(const UChar *s) { for (; *s; s++) printf("%04x", *s); }
static void pv(cif_value_tp *v) {
    UChar *t = NULL; size_t n, i; const UChar **keys;
    switch (cif_value_kind(v)) {
    case CIF_CHAR_KIND: case CIF_NUMB_KIND: cif_value_get_text(v, &t); printf("S%d:", cif_value_is_quoted(v)); pu(t); free(t); break;
    case CIF_NA_KIND: printf("NA"); break;
    case CIF_UNK_KIND: printf("UNK"); break;
    case CIF_LIST_KIND: cif_value_get_element_count(v, &n); printf("["); for (i = 0; i < n; i++) { cif_value_tp *e; cif_value_get_element_at(v, i, &e); pv(e); printf(","); } printf("]"); break;
    case CIF_TABLE_KIND: {
        /* sort keys for canonical output */
        size_t j; cif_value_get_keys(v, &keys); for (n = 0; keys[n]; n++) ;
        for (i = 0; i < n; i++) for (j = i + 1; j < n; j++) if (u_strcmp(keys[j], keys[i]) < 0) { const UChar *x = keys[i]; keys[i] = keys[j]; keys[j] = x; }
        printf("{"); for (i = 0; i < n; i++) { cif_value_tp *e; pu(keys[i]); printf("="); cif_value_get_item_by_key(v, keys[i], &e); pv(e); printf(","); } printf("}"); free(keys); break; }
    }
}
static char path[4096]; static int loopno, pktno;
static int h_block(cif_container_tp *c, void *x) { UChar *code; char *p; cif_container_get_code(c, &code); p = path + strlen(path); *p++ = '/'; { UChar *q; for (q = code; *q; q++) p += sprintf(p, "%04x", *q); } free(code); printf("C %s\n", path); return 0; }
static int h_cend(cif_container_tp *c, void *x) { char *p = strrchr(path, '/'); if (p) *p = 0; return 0; }
static int h_loop(cif_loop_tp *l, void *x) { UChar **nm; int i; loopno++; pktno = 0; printf("L %s", path); if (cif_loop_get_names(l, &nm) == 0) { /* sorted names */ int n, j; for (n = 0; nm[n]; n++); for (i = 0; i < n; i++) for (j = i + 1; j < n; j++) if (u_strcmp(nm[j], nm[i]) < 0) { UChar *t = nm[i]; nm[i] = nm[j]; nm[j] = t; } for (i = 0; i < n; i++) { printf(" "); pu(nm[i]); free(nm[i]); } free(nm); } printf("\n"); return 0; }
static int h_pkt(cif_packet_tp *p, void *x) { pktno++; return 0; }
static int h_item(UChar *name, cif_value_tp *v, void *x) { printf("I %s ", path); pu(name); printf(" "); pv(v); printf("\n"); return 0; }
int main(int argc, char **argv) {
    FILE *f = fopen(argv[1], "rb"); cif_tp *cif = NULL; struct cif_parse_opts_s *o; int rc;
    cif_handler_tp h = { 0, 0, h_block, h_cend, h_block, h_cend, h_loop, 0, h_pkt, 0, h_item };
    cif_parse_options_create(&o); o->error_callback = errcb; if (argc > 2) o->prefer_cif2 = atoi(argv[2]);
    rc = cif_parse(f, o, &cif); printf("RC %d\n", rc); free(o); fclose(f);
    if (cif) { rc = cif_walk(cif, &h, NULL); printf("WALK %d\n", rc); cif_destroy(cif); }
    return 0;
}
