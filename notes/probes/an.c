#include <stdio.h>
#include <stdlib.h>
#include <string.h>
#include <unicode/ustring.h>
#include "cif.h"
/* naive spec: lines split at LF, CRLF, lone CR */
int main(int argc, char **argv) {
    const UChar alpha[] = { 'a', ';', ' ', '\n', '\\', '\'', '"', '\t', '\r', 0x0b, '_', '[' }; int na = 12; int len, withcr = argc > 1;
    long n = 0, bad = 0, bad2 = 0;
    for (len = 0; len <= 5; len++) {
        long total = 1, idx; int i; for (i = 0; i < len; i++) total *= na;
        for (idx = 0; idx < total; idx++) {
            UChar s[8]; long t = idx; struct cif_string_analysis_s a; int hascr = 0;
            int nlines = 1, first = -1, cur = 0, mx = 0, semi = 0, mxsemi = 0, nlsemi = 0, trail = 0, last;
            for (i = 0; i < len; i++) { s[i] = alpha[t % na]; t /= na; if (s[i] == '\r') hascr = 1; } s[len] = 0;
            if (hascr && !withcr) continue;
            for (i = 0; i < len; i++) {
                UChar c = s[i];
                if (c == '\n' || c == '\r') {
                    if (i > 0 && (s[i-1] == ' ' || s[i-1] == '\t' || s[i-1] == 0x0b)) trail = 1;
                    if (c == '\r' && s[i+1] == '\n') { i++; }
                    if (s[i+1] == ';') nlsemi = 1;
                    if (first < 0) first = cur; if (cur > mx) mx = cur; cur = 0; nlines++; semi = 0;
                } else { cur++; if (c == ';') { semi++; if (semi > mxsemi) mxsemi = semi; } else semi = 0; }
            }
            if (len > 0 && (s[len-1] == ' ' || s[len-1] == '\t' || s[len-1] == 0x0b)) trail = 1;
            last = cur; if (first < 0) first = cur; if (cur > mx) mx = cur;
            cif_analyze_string(s, 1, 1, 2048, &a);
            n++;
            if (a.length != len || a.num_lines != nlines || a.length_first != first || a.length_last != last || a.length_max != mx
                || a.max_semi_run != mxsemi || (!!a.contains_text_delim) != nlsemi || (!!a.has_trailing_ws) != trail) {
                bad++; if (a.length_first == first && bad2++ < 10) { printf("DIFF ["); for (i = 0; i < len; i++) printf("%02x ", s[i]); printf("] got len=%d lines=%d first=%d last=%d max=%d semi=%d nlsemi=%d trail=%d ; want lines=%d first=%d last=%d max=%d semi=%d nlsemi=%d trail=%d\n", a.length, a.num_lines, a.length_first, a.length_last, a.length_max, a.max_semi_run, a.contains_text_delim, a.has_trailing_ws, nlines, first, last, mx, mxsemi, nlsemi, trail); }
            }
        }
    }
    printf("n=%ld bad=%ld\n", n, bad); return 0;
}
