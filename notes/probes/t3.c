/* round-trip a single string value through cif_write / cif_parse; value described by a mini-language on argv:
   tokens: L<n><c> = n copies of char c ; N = newline ; other literal via X<hex> */
#include <stdio.h>
#include <stdlib.h>
#include <string.h>
#include <unicode/ustring.h>
#include "cif.h"

static UChar buf[200000]; static int n = 0;
static UChar *U(const char *s) { UChar *u; int i, k = strlen(s); u = malloc((k + 1) * 2); for (i = 0; i <= k; i++) u[i] = (unsigned char) s[i]; return u; }
static int errcb(int code, size_t line, size_t col, const UChar *text, size_t len, void *data) { printf("ERR code=%d line=%zu col=%zu\n", code, line, col); return 0; }
static void pu(const UChar *s) { int run = 0; const UChar *p; for (p = s; *p; p++) { if (p > s && *p == p[-1]) { run++; continue; } if (run > 3) printf("{x%d}", run); else while (run-- > 0) putchar(p[-1] < 0x7f && p[-1] >= 0x20 ? p[-1] : '?'); run = 0; if (*p >= 0x20 && *p < 0x7f) putchar(*p); else printf("\\u%04x", *p); } if (run > 3) printf("{x%d}", run); else while (run-- > 0) putchar('='); }

int main(int argc, char **argv) {
    int i, ver = atoi(argv[1]), quoted = 1;
    cif_tp *cif, *cif2 = NULL; cif_block_tp *b, *b2; cif_value_tp *v, *w = NULL; struct cif_write_opts_s wo; struct cif_parse_opts_s *po; FILE *f; int rc; UChar *t2;
    for (i = 2; i < argc; i++) {
        char *a = argv[i];
        if (a[0] == 'L') { int cnt = atoi(a + 1); char c = a[strlen(a) - 1]; while (cnt-- > 0) buf[n++] = c; }
        else if (a[0] == 'N') buf[n++] = '\n';
        else if (a[0] == 'X') buf[n++] = strtol(a + 1, NULL, 16);
        else if (a[0] == 'U') quoted = 0;
        else { char *c; for (c = a + 1; *c; c++) buf[n++] = *c; }
    }
    buf[n] = 0;
    cif_create(&cif); cif_create_block(cif, U("b"), &b); cif_value_create(CIF_UNK_KIND, &v); cif_value_copy_char(v, buf);
    if (!quoted) printf("set unquoted rc=%d\n", cif_value_set_quoted(v, CIF_NOT_QUOTED));
    rc = cif_container_set_value(b, U("_x"), v);
    wo.cif_version = ver; f = fopen("rt.cif", "wb"); rc = cif_write(f, &wo, cif); fclose(f); printf("write rc=%d\n", rc);
    if (getenv("SHOW")) system("head -c 600 rt.cif | cat -A | cut -c1-200");
    cif_parse_options_create(&po); po->error_callback = errcb; if (ver == 1) { po->prefer_cif2 = -1; po->line_folding_modifier = 1; po->text_prefixing_modifier = 1; }
    f = fopen("rt.cif", "rb"); rc = cif_parse(f, po, &cif2); fclose(f); printf("parse rc=%d\n", rc);
    rc = cif_get_block(cif2, U("b"), &b2); rc = cif_container_get_value(b2, U("_x"), &w); printf("get rc=%d\n", rc);
    cif_value_get_text(w, &t2);
    printf("orig len=%d reparsed len=%d equal=%d quoted=%d\n", n, t2 ? u_strlen(t2) : -1, t2 ? !u_strcmp(buf, t2) : 0, cif_value_is_quoted(w));
    if (t2 && u_strcmp(buf, t2)) { printf("ORIG: "); pu(buf); printf("\nBACK: "); pu(t2); printf("\n"); }
    return 0;
}
