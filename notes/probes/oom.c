/* throw-away C17 probe: fail the k-th library-side allocation (malloc/calloc/realloc/strdup via --wrap) in one API op.
   usage: oom <op> <k>   ; prints rc; ASan/LSan report problems.  k=0: count allocations only. */
#include <stdio.h>
#include <stdlib.h>
#include <string.h>
#include <unicode/ustring.h>
#include "cif.h"
static long fail_at = -1, count = 0; static int armed = 0;
void *__real_malloc(size_t); void *__real_calloc(size_t, size_t); void *__real_realloc(void *, size_t); char *__real_strdup(const char *);
void *__wrap_malloc(size_t n) { if (armed && ++count == fail_at) return NULL; return __real_malloc(n); }
void *__wrap_calloc(size_t a, size_t b) { if (armed && ++count == fail_at) return NULL; return __real_calloc(a, b); }
void *__wrap_realloc(void *p, size_t n) { if (armed && ++count == fail_at) return NULL; return __real_realloc(p, n); }
char *__wrap_strdup(const char *s) { if (armed && ++count == fail_at) return NULL; return __real_strdup(s); }
static UChar *U(const char *s) { UChar *u; int i, k = strlen(s); u = __real_malloc((k + 1) * 2); for (i = 0; i <= k; i++) u[i] = (unsigned char) s[i]; return u; }
int main(int argc, char **argv) {
    const char *op = argv[1]; cif_tp *cif = NULL; cif_block_tp *b = NULL; cif_loop_tp *l = NULL; cif_packet_tp *p = NULL; cif_value_tp *v = NULL, *w = NULL, *lst = NULL, *tbl = NULL; int rc = -99;
    UChar *n_ab[] = { U("_a"), U("_B"), NULL }; UChar *s1 = U("hello"), *k1 = U("Key");
    fail_at = atol(argv[2]);
    cif_create(&cif); cif_create_block(cif, U("blk"), &b); cif_container_create_loop(b, U("c"), n_ab, &l); cif_packet_create(&p, n_ab);
    cif_value_create(CIF_UNK_KIND, &v); cif_value_copy_char(v, s1);
    cif_value_create(CIF_LIST_KIND, &lst); cif_value_insert_element_at(lst, 0, v); cif_value_insert_element_at(lst, 1, v);
    cif_value_create(CIF_TABLE_KIND, &tbl); cif_value_set_item_by_key(tbl, k1, lst); cif_value_set_item_by_key(tbl, s1, v);
    cif_packet_set_item(p, n_ab[0], tbl); cif_loop_add_packet(l, p); cif_container_set_value(b, U("_s"), tbl);
    armed = 1;
    if (!strcmp(op, "value_create_char")) { rc = cif_value_create(CIF_CHAR_KIND, &w); }
    else if (!strcmp(op, "copy_char")) { rc = cif_value_copy_char(v, s1); }
    else if (!strcmp(op, "clone_table")) { rc = cif_value_clone(tbl, &w); }
    else if (!strcmp(op, "clone_list")) { rc = cif_value_clone(lst, &w); }
    else if (!strcmp(op, "list_insert")) { rc = cif_value_insert_element_at(lst, 1, tbl); }
    else if (!strcmp(op, "table_set")) { rc = cif_value_set_item_by_key(tbl, n_ab[0], lst); }
    else if (!strcmp(op, "table_set_existing")) { UChar *k2 = U("Key"); rc = cif_value_set_item_by_key(tbl, k2, v); free(k2); }
    else if (!strcmp(op, "get_keys")) { const UChar **ks = NULL; rc = cif_value_get_keys(tbl, &ks); if (rc == 0) free(ks); }
    else if (!strcmp(op, "packet_create")) { cif_packet_tp *p2 = NULL; rc = cif_packet_create(&p2, n_ab); if (rc == 0) cif_packet_free(p2); }
    else if (!strcmp(op, "packet_set")) { rc = cif_packet_set_item(p, n_ab[1], tbl); }
    else if (!strcmp(op, "parse_numb")) { UChar *t = U("-12.5e3(7)"); rc = cif_value_parse_numb(v, t); if (rc) free(t); }
    else if (!strcmp(op, "init_numb")) { rc = cif_value_init_numb(v, 12.345, 0.02, 2, 5); }
    else if (!strcmp(op, "autoinit")) { rc = cif_value_autoinit_numb(v, 12.345, 0.02, 19); }
    else if (!strcmp(op, "get_text")) { UChar *t = NULL; rc = cif_value_get_text(v, &t); free(t); }
    else if (!strcmp(op, "normalize")) { UChar *t = NULL; rc = cif_normalize(k1, -1, &t); free(t); }
    else if (!strcmp(op, "analyze")) { struct cif_string_analysis_s a; rc = cif_analyze_string(s1, 1, 1, 2048, &a); }
    else if (!strcmp(op, "create_block")) { cif_block_tp *b2 = NULL; rc = cif_create_block(cif, k1, &b2); if (b2) cif_container_free(b2); }
    else if (!strcmp(op, "get_block")) { cif_block_tp *b2 = NULL; UChar *c = U("BLK"); rc = cif_get_block(cif, c, &b2); free(c); if (b2) cif_container_free(b2); }
    else if (!strcmp(op, "get_all_blocks")) { cif_block_tp **bs = NULL; rc = cif_get_all_blocks(cif, &bs); if (rc == 0) { int i; for (i = 0; bs[i]; i++) cif_container_free(bs[i]); free(bs); } }
    else if (!strcmp(op, "create_frame")) { cif_frame_tp *f = NULL; rc = cif_container_create_frame(b, k1, &f); if (f) cif_container_free(f); }
    else if (!strcmp(op, "create_loop")) { cif_loop_tp *l2 = NULL; UChar *nn[] = { U("_x"), U("_y"), NULL }; rc = cif_container_create_loop(b, NULL, nn, &l2); if (l2) cif_loop_free(l2); free(nn[0]); free(nn[1]); }
    else if (!strcmp(op, "get_all_loops")) { cif_loop_tp **ls = NULL; rc = cif_container_get_all_loops(b, &ls); if (rc == 0) { int i; for (i = 0; ls[i]; i++) cif_loop_free(ls[i]); free(ls); } }
    else if (!strcmp(op, "get_names")) { UChar **nm = NULL; rc = cif_loop_get_names(l, &nm); if (rc == 0) { int i; for (i = 0; nm[i]; i++) free(nm[i]); free(nm); } }
    else if (!strcmp(op, "get_category")) { UChar *c = NULL; rc = cif_loop_get_category(l, &c); free(c); }
    else if (!strcmp(op, "set_category")) { rc = cif_loop_set_category(l, k1); }
    else if (!strcmp(op, "get_item_loop")) { cif_loop_tp *l2 = NULL; rc = cif_container_get_item_loop(b, n_ab[1], &l2); if (l2) cif_loop_free(l2); }
    else if (!strcmp(op, "get_cat_loop")) { cif_loop_tp *l2 = NULL; UChar *c = U("c"); rc = cif_container_get_category_loop(b, c, &l2); free(c); if (l2) cif_loop_free(l2); }
    else if (!strcmp(op, "add_packet")) { rc = cif_loop_add_packet(l, p); }
    else if (!strcmp(op, "add_item")) { UChar *c = U("_new"); rc = cif_loop_add_item(l, c, tbl); free(c); }
    else if (!strcmp(op, "set_value_new")) { UChar *c = U("_new"); rc = cif_container_set_value(b, c, tbl); free(c); }
    else if (!strcmp(op, "set_value_existing")) { rc = cif_container_set_value(b, n_ab[0], lst); }
    else if (!strcmp(op, "get_value")) { UChar *c = U("_s"); rc = cif_container_get_value(b, c, &w); free(c); }
    else if (!strcmp(op, "remove_item")) { rc = cif_container_remove_item(b, n_ab[1]); }
    else if (!strcmp(op, "iterate")) { cif_pktitr_tp *it = NULL; cif_packet_tp *q = NULL; rc = cif_loop_get_packets(l, &it); if (rc == 0) { int r2 = cif_pktitr_next_packet(it, &q); int r3 = (r2 == 0) ? cif_pktitr_update_packet(it, q) : -1; printf("next=%d update=%d ", r2, r3); cif_packet_free(q); cif_pktitr_close(it); } }
    else if (!strcmp(op, "walk_write")) { char *mem = NULL; size_t msz = 0; FILE *f; armed = 0; f = open_memstream(&mem, &msz); armed = 1; rc = cif_write(f, NULL, cif); armed = 0; fclose(f); free(mem); }
    else if (!strcmp(op, "parse")) { const char *doc = "#\\#CIF_2.0\ndata_d\n_x [1 {'k':v}]\nloop_ _p _q 1 2\nsave_f _y\n;t\n;\nsave_\n"; FILE *f; cif_tp *c2 = NULL; armed = 0; f = fmemopen((void *) doc, strlen(doc), "rb"); armed = 1; rc = cif_parse(f, NULL, &c2); armed = 0; fclose(f); if (c2) cif_destroy(c2); }
    else { printf("unknown op\n"); return 2; }
    armed = 0;
    printf("op=%s k=%ld allocs=%ld rc=%d\n", op, fail_at, count, rc);
    /* consistency after fault: the CIF must still be usable */
    { cif_value_tp *chk = NULL; UChar *c = U("_s"); int r = cif_container_get_value(b, c, &chk); if (r != 0) printf("  POST get_value rc=%d\n", r); cif_value_free(chk); free(c); }
    cif_value_free(w); cif_value_free(v); cif_value_free(lst); cif_value_free(tbl); cif_packet_free(p); cif_loop_free(l); cif_container_free(b); cif_destroy(cif);
    free(n_ab[0]); free(n_ab[1]); free(s1); free(k1);
    return 0;
}
