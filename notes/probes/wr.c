/* throw-away writer oracle: random string values -> cif_write -> cif_parse -> compare.  usage: wr seed n version */
#include <stdio.h>
#include <stdlib.h>
#include <string.h>
#include <unicode/ustring.h>
#include "cif.h"
static unsigned long long st;
static unsigned rnd(void) { st ^= st << 13; st ^= st >> 7; st ^= st << 17; return (unsigned) (st >> 11); }
static UChar *U(const char *s) { UChar *u; int i, k = strlen(s); u = malloc((k + 1) * 2); for (i = 0; i <= k; i++) u[i] = (unsigned char) s[i]; return u; }
static int nerr, firsterr;
static int errcb(int code, size_t line, size_t col, const UChar *text, size_t len, void *data) { if (!nerr) firsterr = code; nerr++; return 0; }
static const UChar alpha2[] = { 'a', 'b', ' ', ' ', '\n', '\n', ';', ';', '\\', '\\', '\'', '"', '#', '_', '[', '}', '\t', '?', '.', ':', '>', 0xe9, 0x4e2d };
static const UChar alpha1[] = { 'a', 'b', ' ', ' ', '\n', '\n', ';', ';', '\\', '\\', '\'', '"', '#', '_', '[', '}', '\t', '?', '.', ':', '>', 'z', 'y' };
static UChar buf[10000]; static int dumped;
static int gen(int ver) {
    const UChar *al = ver == 1 ? alpha1 : alpha2; int na = 23, n = 0, i, kind = rnd() % 10;
    int nseg = 1 + rnd() % 4;
    for (i = 0; i < nseg; i++) {
        int t = rnd() % 8;
        if (t < 4) { int k = rnd() % 6; while (k-- > 0) buf[n++] = al[rnd() % na]; }
        else if (t == 4) { int k = 2036 + rnd() % 16; UChar c = (rnd() % 3) ? 'a' : ((rnd() % 2) ? ';' : ' '); int sp = rnd() % 2; int j; for (j = 0; j < k; j++) buf[n++] = (sp && j % 97 == 96) ? ' ' : c; }
        else if (t == 5) { buf[n++] = '\n'; }
        else if (t == 6 && ver != 1) { buf[n++] = 0xd83d; buf[n++] = 0xde00; }
        else { buf[n++] = '\\'; if (rnd() % 2) buf[n++] = ' '; if (rnd() % 2) buf[n++] = '\n'; }
    }
    (void) kind;
    buf[n] = 0; return n;
}
static void show(const UChar *s) { int run = 0; const UChar *p; for (p = s; *p; p++) { if (p[1] == *p) { run++; continue; } if (run >= 4) printf("%c{x%d}", *p < 0x7f && *p >= 0x20 ? *p : '?', run + 1); else { int j; for (j = 0; j <= run; j++) { if (*p >= 0x20 && *p < 0x7f) putchar(*p); else printf("\\u%04x", *p); } } run = 0; } }
int main(int argc, char **argv) {
    int n = atoi(argv[2]), ver = atoi(argv[3]), i; long bad = 0, refused = 0, total = 0; int shown = 0;
    st = 88172645463325252ULL ^ (unsigned long long) atoll(argv[1]) * 2654435761ULL; rnd(); rnd();
    for (i = 0; i < n; i++) {
        cif_tp *cif = NULL, *cif2 = NULL; cif_block_tp *b = NULL, *b2 = NULL; cif_value_tp *v = NULL, *w = NULL; struct cif_write_opts_s wo; struct cif_parse_opts_s *po; FILE *f; int rc, len, unq = 0; UChar *t2 = NULL; char *mem = NULL; size_t msz = 0; const char *why = NULL;
        len = gen(ver);
        cif_create(&cif); cif_create_block(cif, U("b"), &b); cif_value_create(CIF_UNK_KIND, &v); cif_value_copy_char(v, buf);
        if (rnd() % 3 == 0 && cif_value_set_quoted(v, CIF_NOT_QUOTED) == CIF_OK) unq = 1;
        if (cif_value_kind(v) != CIF_CHAR_KIND) { cif_value_free(v); cif_container_free(b); cif_destroy(cif); continue; }
        if (rnd() % 2) { UChar *names[] = { U("_x"), U("_y"), NULL }; cif_loop_tp *l; cif_packet_tp *p; cif_container_create_loop(b, NULL, names, &l); cif_packet_create(&p, names); cif_packet_set_item(p, names[0], v); cif_loop_add_packet(l, p); cif_packet_free(p); cif_loop_free(l); }
        else cif_container_set_value(b, U("_x"), v);
        total++;
        wo.cif_version = ver; f = open_memstream(&mem, &msz); rc = cif_write(f, &wo, cif); fclose(f);
        if (rc != CIF_OK) {
            refused++;
            if (ver != 1 || (rc != CIF_DISALLOWED_VALUE && rc != CIF_DISALLOWED_CHAR)) why = "write failed";
            else if (rc == CIF_DISALLOWED_VALUE) { /* must contain NL; in 1.1 */ const UChar *q; int has = 0; for (q = buf; *q; q++) if (*q == '\n' && q[1] == ';') has = 1; if (!has) why = "refused without NL;"; }
        } else {
            /* lines <= 2048 */
            { size_t k, ll = 0; for (k = 0; k < msz; k++) { unsigned char c = mem[k]; if (c == '\n') ll = 0; else if ((c & 0xc0) != 0x80) { ll++; if (ll > 2048) why = "line too long"; } } }
            cif_parse_options_create(&po); po->error_callback = errcb; nerr = 0; if (ver == 1) { po->prefer_cif2 = -1; po->line_folding_modifier = 1; po->text_prefixing_modifier = 1; }
            f = fmemopen(mem, msz, "rb"); rc = cif_parse(f, po, &cif2); fclose(f); free(po);
            if (rc != 0 || nerr) why = why ? why : "reparse error";
            if (!why) { if (cif_get_block(cif2, U("b"), &b2) != 0 || cif_container_get_value(b2, U("_x"), &w) != 0) why = "missing"; }
            if (!why) { cif_value_get_text(w, &t2); if (!t2 || u_strcmp(t2, buf)) why = "text differs"; else if (cif_value_kind(w) == CIF_CHAR_KIND && cif_value_is_quoted(w) != !unq && !(unq && buf[0] == ';')) why = "quoted differs"; }
        }
        if (why && getenv("DUMP") && !strcmp(why, getenv("DUMP")) && !dumped++) { FILE *d = fopen("dump.cif", "wb"); fwrite(mem, 1, msz, d); fclose(d); }
        if (why) { bad++; if (shown++ < 25) { printf("BAD(%s, rc=%d firsterr=%d unq=%d len=%d): ", why, rc, firsterr, unq, len); show(buf); printf("\n"); } }
        free(mem);
        if (cif2) cif_destroy(cif2);
        cif_destroy(cif);
    }
    printf("total=%ld refused=%ld bad=%ld\n", total, refused, bad);
    return 0;
}
