#include <stdio.h>
#include <stdlib.h>
#include <string.h>
#include "cif.h"
#include "internal/ciftypes.h"
int main(void) {
    char hv[64], hs[64], vd[64], sd[64]; unsigned rule; int scale; long n = 0, bad = 0;
    cif_value_tp *v; cif_value_create(CIF_UNK_KIND, &v);
    while (scanf("%63s %63s %u %d %63s %63s", hv, hs, &rule, &scale, sd, vd) == 6) {
        double val = strtod(hv, NULL), su = strtod(hs, NULL); int rc = cif_value_autoinit_numb(v, val, su, rule);
        n++;
        if (rc != 0 || v->as_numb.scale != scale || !v->as_numb.su_digits || strcmp(v->as_numb.su_digits, sd) || strcmp(v->as_numb.digits, vd)) {
            bad++; if (bad <= 15) printf("DIFF val=%.17g su=%.17g rule=%u: rc=%d scale=%d su=%s digits=%s ; want scale=%d su=%s digits=%s\n", val, su, rule, rc, v->as_numb.scale, v->as_numb.su_digits ? v->as_numb.su_digits : "(null)", v->as_numb.digits, scale, sd, vd);
        }
    }
    printf("n=%ld bad=%ld\n", n, bad); return 0;
}
