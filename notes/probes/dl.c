#include <stdio.h>
#include <stdlib.h>
#include <string.h>
#include <unicode/ustring.h>
#include "cif.h"
static UChar got[64]; static int gotkind, gotq, nerr, nitems;
static int h_item(UChar *name, cif_value_tp *v, void *x) { UChar *t = NULL; nitems++; gotkind = cif_value_kind(v); gotq = cif_value_is_quoted(v); cif_value_get_text(v, &t); if (t) { u_strncpy(got, t, 60); got[60] = 0; free(t);} else got[0] = 0; return 0; }
static int errcb(int code, size_t line, size_t col, const UChar *text, size_t len, void *data) { nerr++; return 0; }
int main(int argc, char **argv) {
    const UChar alpha[] = { 'a', ';', ' ', '\n', '\\', '\'', '"', '#', '$', '_', '[', ']', '{', '}', '?', '.', ':', 'd', 0xe9 }; int na = 19; int len, unq;
    long n = 0, bad = 0; int maxlen = argc > 1 ? atoi(argv[1]) : 4;
    cif_handler_tp h = { 0,0,0,0,0,0,0,0,0,0, h_item };
    for (unq = 0; unq <= 1; unq++)
    for (len = 0; len <= maxlen; len++) {
        long total = 1, idx; int i; for (i = 0; i < len; i++) total *= na;
        for (idx = 0; idx < total; idx++) {
            UChar s[8]; long t = idx; struct cif_string_analysis_s a; char doc[400]; char *p = doc; FILE *f; struct cif_parse_opts_s *o; int rc; UChar u8[4];
            for (i = 0; i < len; i++) { s[i] = alpha[t % na]; t /= na; } s[len] = 0;
            cif_analyze_string(s, unq, 1, 2048, &a);
            if (a.delim_length == 2 && (a.contains_text_delim || a.has_reserved_start)) continue; /* needs protocols */
            p += sprintf(p, "#\\#CIF_2.0\ndata_a\nloop_\n_x\n ");
            for (i = 0; i < (int) a.delim_length; i++) *p++ = (char) a.delim[i];
            for (i = 0; i < len; i++) { if (s[i] == 0xe9) { *p++ = 0xc3; *p++ = 0xa9; } else *p++ = (char) s[i]; }
            if (a.delim_length == 2) { *p++ = '\n'; *p++ = ';'; } else for (i = 0; i < (int) a.delim_length; i++) *p++ = (char) a.delim[i];
            *p++ = '\n'; *p = 0;
            f = fmemopen(doc, p - doc, "rb");
            cif_parse_options_create(&o); o->handler = &h; o->error_callback = errcb; nerr = 0; nitems = 0; got[0] = 0xffff; got[1] = 0;
            rc = cif_parse(f, o, NULL); fclose(f); free(o);
            n++;
            {
                int ok = (rc == 0 && nerr == 0 && nitems == 1);
                if (ok) {
                    if (a.delim_length == 0) {
                        /* unquoted: "?" "." impossible here (analysis refuses); text equal & unquoted */
                        ok = (gotkind == CIF_CHAR_KIND && gotq == 0 && u_strcmp(got, s) == 0);
                    } else ok = (gotkind == CIF_CHAR_KIND && gotq == 1 && u_strcmp(got, s) == 0);
                }
                if (!ok) { bad++; if (bad <= 15) { printf("DIFF unq=%d [", unq); for (i = 0; i < len; i++) printf("%02x ", s[i]); printf("] delimlen=%u rc=%d nerr=%d items=%d kind=%d q=%d\n", a.delim_length, rc, nerr, nitems, gotkind, gotq); } }
            }
        }
    }
    printf("n=%ld bad=%ld\n", n, bad); return 0;
}
