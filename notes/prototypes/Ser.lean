-- Prototype for C07: serialize / deserialize of nested list/table values round-trips (any depth).

inductive V where
  | unk | na
  | chr (q : Bool) (s : List Nat)
  | lst (vs : List V)
  | tbl (es : List (List Nat × V))
deriving Repr

inductive Tok
  | kind (k : Nat)          -- 0 char, 2 list, 3 table, 4 na, 5 unk
  | size (n : Nat)
  | str (s : List Nat)
  | quoted (b : Bool)
  | flag (more : Bool)      -- table: 0 = another entry follows, -1 = end
deriving DecidableEq, Repr

mutual
  def ser : V → List Tok
    | .unk => [.kind 5]
    | .na => [.kind 4]
    | .chr q s => [.kind 0, .str s, .quoted q]
    | .lst vs => [.kind 2, .size (serLen vs)] ++ serList vs
    | .tbl es => [.kind 3] ++ serEntries es
  def serLen : List V → Nat
    | [] => 0
    | _ :: vs => serLen vs + 1
  def serList : List V → List Tok
    | [] => []
    | v :: vs => ser v ++ serList vs
  def serEntries : List (List Nat × V) → List Tok
    | [] => [.flag false]
    | (k, v) :: es => [.flag true, .str k] ++ ser v ++ serEntries es
end

mutual
  def deser : Nat → List Tok → Option (V × List Tok)
    | 0, _ => none
    | fuel + 1, ts =>
      match ts with
      | .kind 5 :: r => some (.unk, r)
      | .kind 4 :: r => some (.na, r)
      | .kind 0 :: .str s :: .quoted q :: r => some (.chr q s, r)
      | .kind 2 :: .size n :: r => (deserList fuel n r).map fun (vs, r') => (.lst vs, r')
      | .kind 3 :: r => (deserEntries fuel r).map fun (es, r') => (.tbl es, r')
      | _ => none
  def deserList : Nat → Nat → List Tok → Option (List V × List Tok)
    | 0, _, _ => none
    | _ + 1, 0, r => some ([], r)
    | fuel + 1, n + 1, r =>
      match deser fuel r with
      | none => none
      | some (v, r') => (deserList fuel n r').map fun (vs, r'') => (v :: vs, r'')
  def deserEntries : Nat → List Tok → Option (List (List Nat × V) × List Tok)
    | 0, _ => none
    | fuel + 1, ts =>
      match ts with
      | .flag false :: r => some ([], r)
      | .flag true :: .str k :: r =>
        match deser fuel r with
        | none => none
        | some (v, r') => (deserEntries fuel r').map fun (es, r'') => ((k, v) :: es, r'')
      | _ => none
end

-- a size measure that bounds the fuel needed
mutual
  def cost : V → Nat
    | .unk => 1 | .na => 1 | .chr _ _ => 1
    | .lst vs => 2 + costList vs
    | .tbl es => 2 + costEntries es
  def costList : List V → Nat
    | [] => 0
    | v :: vs => 1 + cost v + costList vs
  def costEntries : List (List Nat × V) → Nat
    | [] => 0
    | (_, v) :: es => 1 + cost v + costEntries es
end

theorem serLen_eq (vs : List V) : serLen vs = vs.length := by
  induction vs with
  | nil => rfl
  | cons v vs ih => simp [serLen, ih]

mutual
  theorem roundtrip (v : V) (rest : List Tok) (fuel : Nat) (h : cost v ≤ fuel) :
      deser fuel (ser v ++ rest) = some (v, rest) := by
    cases v with
    | unk => cases fuel with
      | zero => simp [cost] at h
      | succ f => simp [ser, deser]
    | na => cases fuel with
      | zero => simp [cost] at h
      | succ f => simp [ser, deser]
    | chr q s => cases fuel with
      | zero => simp [cost] at h
      | succ f => simp [ser, deser]
    | lst vs => cases fuel with
      | zero => simp [cost] at h
      | succ f =>
        have := roundtripList vs rest f (by simp [cost] at h; omega)
        simp [ser, deser, this]
    | tbl es => cases fuel with
      | zero => simp [cost] at h
      | succ f =>
        have := roundtripEntries es rest f (by simp [cost] at h; omega)
        simp [ser, deser, this]
  theorem roundtripList (vs : List V) (rest : List Tok) (fuel : Nat) (h : costList vs + 1 ≤ fuel) :
      deserList fuel (serLen vs) (serList vs ++ rest) = some (vs, rest) := by
    cases vs with
    | nil => cases fuel with
      | zero => omega
      | succ f => simp [serLen, serList, deserList]
    | cons v vs => cases fuel with
      | zero => omega
      | succ f =>
        have h1 := roundtrip v (serList vs ++ rest) f (by simp [costList] at h; omega)
        have h2 := roundtripList vs rest f (by simp [costList] at h; omega)
        simp [serLen, serList, deserList, List.append_assoc, h1, h2]
  theorem roundtripEntries (es : List (List Nat × V)) (rest : List Tok) (fuel : Nat) (h : costEntries es + 1 ≤ fuel) :
      deserEntries fuel (serEntries es ++ rest) = some (es, rest) := by
    cases es with
    | nil => cases fuel with
      | zero => omega
      | succ f => simp [serEntries, deserEntries]
    | cons e es =>
      obtain ⟨k, v⟩ := e
      cases fuel with
      | zero => omega
      | succ f =>
        have h1 := roundtrip v (serEntries es ++ rest) f (by simp [costEntries] at h; omega)
        have h2 := roundtripEntries es rest f (by simp [costEntries] at h; omega)
        simp [serEntries, deserEntries, List.append_assoc, h1, h2]
end

#print axioms roundtrip
#eval deser 100 (ser (.lst [.chr true [97], .tbl [([1], .lst []), ([], .na)], .unk]))
