-- Prototype for C10: round-half-even of X/Y by exact integer arithmetic is within half a unit, ties even.
def rhe (X Y : Nat) : Nat :=
  let q := X / Y; let r := X % Y
  if 2 * r > Y then q + 1 else if 2 * r = Y then (if q % 2 = 1 then q + 1 else q) else q

/-- as written in the pinned tree (round_to_int passes 0 as the value to round): ties always go down -/
def rhePinned (X Y : Nat) : Nat :=
  let q := X / Y; let r := X % Y
  if 2 * r > Y then q + 1 else q

theorem rhe_close (X Y : Nat) (hY : 0 < Y) :
    let q' := rhe X Y
    (2 * (X - q' * Y) ≤ Y ∧ 2 * (q' * Y - X) ≤ Y) ∧
    ((2 * (X - q' * Y) = Y ∨ 2 * (q' * Y - X) = Y) → q' % 2 = 0) := by
  have hdm : Y * (X / Y) + X % Y = X := Nat.div_add_mod X Y
  have hr : X % Y < Y := Nat.mod_lt X hY
  generalize hq : X / Y = q at *
  generalize hrr : X % Y = r at *
  have hmul : q * Y = Y * q := Nat.mul_comm q Y
  have hsucc : (q + 1) * Y = Y * q + Y := by rw [Nat.add_mul, Nat.one_mul, hmul]
  simp only [rhe, hq, hrr]
  split
  · rw [hsucc]; constructor
    · constructor <;> omega
    · intro h; omega
  · split
    · split
      · rw [hsucc]; constructor
        · constructor <;> omega
        · intro _; omega
      · rw [hmul]; constructor
        · constructor <;> omega
        · intro _; omega
    · rw [hmul]; constructor
      · constructor <;> omega
      · intro h; omega

theorem rhePinned_cex : rhePinned 3 2 = 1 ∧ rhe 3 2 = 2 := by decide

#print axioms rhe_close
