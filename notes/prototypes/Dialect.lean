-- Prototype for C11: the dialect/encoding cascade of cif_parse + cif_parse_internal and its documented table.

inductive Enc | utf8 | utf16le | utf16be | utf32le | utf32be | dflt   -- dflt = named/system default
deriving DecidableEq, Repr

inductive Magic | none | v2 | other   -- decoded leading comment: none / #\#CIF_2.0 / #\#CIF_x.y (x.y ≠ 2.0)
deriving DecidableEq, Repr

structure Header where
  sig : Option Enc          -- Unicode signature found by ucnv_detectUnicodeSignature
  rawMagic2 : Bool          -- first 10 raw bytes are the UTF-8 CIF2 magic (implies sig = none)
  rawMagic7 : Bool          -- first 7 raw bytes are "#\#CIF_" (default or UTF-8 spelling)
  decoded : Magic           -- what cif_parse_internal sees after decoding (and after a BOM)
deriving DecidableEq, Repr

structure Out where
  enc : Enc
  version : Nat             -- 1 or 2
  wrongEncoding : Bool      -- CIF_WRONG_ENCODING reported
deriving DecidableEq, Repr

/-- cif_parse (ciffile.c:383-450): returns (encoding, provisional cif_version as in the C: 2,1,0,-2) -/
def stage1 (prefer : Int) (force : Bool) (h : Header) : Enc × Int :=
  let v0 : Int := if prefer > 19 then 2 else if prefer < 0 then 1 else 0
  if force then
    (Enc.dflt, if prefer < 20 ∧ prefer > 0 then -2 else v0)
  else
    match h.sig with
    | some e => (e, v0)                                   -- pinned tree: prefer 1..19 NOT honoured here (F4)
    | none =>
      if prefer > 19 then (Enc.utf8, v0)
      else if prefer ≥ 0 ∧ h.rawMagic2 then (Enc.utf8, 2)
      else if prefer > 0 ∧ ¬ h.rawMagic7 then (Enc.utf8, 2)
      else (Enc.dflt, 1)

/-- same with the planned fix for F4 -/
def stage1Fixed (prefer : Int) (force : Bool) (h : Header) : Enc × Int :=
  let v0 : Int := if prefer > 19 then 2 else if prefer < 0 then 1 else 0
  let vU : Int := if prefer < 20 ∧ prefer > 0 then -2 else v0
  if force then (Enc.dflt, vU)
  else
    match h.sig with
    | some e => (e, vU)
    | none =>
      if prefer > 19 then (Enc.utf8, v0)
      else if prefer ≥ 0 ∧ h.rawMagic2 then (Enc.utf8, 2)
      else if prefer > 0 ∧ ¬ h.rawMagic7 then (Enc.utf8, 2)
      else (Enc.dflt, 1)

/-- cif_parse_internal (parser.c:786-822) -/
def stage2 (v : Int) (h : Header) : Nat :=
  if v ≤ 0 then
    let d : Nat := if v < 0 then (-v).toNat else 1
    match h.decoded with
    | Magic.v2 => 2
    | Magic.other => 1
    | Magic.none => d
  else v.toNat

def select (st1 : Int → Bool → Header → Enc × Int) (prefer : Int) (force : Bool) (h : Header) : Out :=
  let (e, v) := st1 prefer force h
  let ver := stage2 v h
  { enc := e, version := ver, wrongEncoding := ver = 2 ∧ e ≠ Enc.utf8 }

/-- the documented table, written independently -/
def specVersion (prefer : Int) (m : Magic) : Nat :=
  if prefer < 0 then 1            -- always CIF 1.1
  else if prefer ≥ 20 then 2      -- always CIF 2.0
  else match m with
    | Magic.v2 => 2
    | Magic.other => 1
    | Magic.none => if prefer > 0 then 2 else 1

/-- header consistency: what the raw bytes say agrees with what the decoder will show -/
def consistent (h : Header) : Prop :=
  (h.rawMagic2 = true → h.sig = none ∧ h.decoded = Magic.v2 ∧ h.rawMagic7 = true) ∧
  (h.sig = none → (h.rawMagic7 = true ↔ h.decoded ≠ Magic.none)) ∧
  (h.sig = none → h.decoded = Magic.v2 → h.rawMagic2 = true)

theorem version_table_fixed (prefer : Int) (force : Bool) (h : Header) (hc : consistent h)
    (hforce : force = false) :
    (select stage1Fixed prefer force h).version = specVersion prefer h.decoded := by
  subst hforce
  obtain ⟨sig, r2, r7, dec⟩ := h
  obtain ⟨c1, c2, c3⟩ := hc
  simp only at c1 c2 c3
  unfold select stage1Fixed stage2 specVersion
  cases sig <;> cases dec <;> cases r2 <;> cases r7 <;> simp_all <;> (repeat' split) <;> omega

/-- the pinned tree violates the table: signature present, no magic, prefer = 5 -/
theorem version_table_pinned_cex :
    (select stage1 5 false ⟨some Enc.utf8, false, false, Magic.none⟩).version = 1 ∧
    specVersion 5 Magic.none = 2 := by decide

#print axioms version_table_fixed
#print axioms version_table_pinned_cex
