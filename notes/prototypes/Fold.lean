-- Prototype for C02_text_protocol (fold-only part): the decoder's fold state machine inverts the encoder for
-- ANY segmentation of a logical line, provided the trailing-backslash protection flag is set correctly.

structure DSt where
  out : List Nat        -- output so far, reversed
  mark : Option Nat     -- number of output units before the last backslash, if only blanks followed it on this line
deriving Repr, DecidableEq

def isBlank (c : Nat) : Bool := c == 32 || c == 9

def dstep (s : DSt) (c : Nat) : DSt :=
  if c = 92 then { out := c :: s.out, mark := some s.out.length }
  else if c = 10 then
    match s.mark with
    | some m => { out := s.out.drop (s.out.length - m), mark := none }
    | none => { out := 10 :: s.out, mark := none }
  else if isBlank c then { s with out := c :: s.out }
  else { out := c :: s.out, mark := none }

def runD (s : DSt) (l : List Nat) : DSt := l.foldl dstep s

theorem runD_append (s : DSt) (a b : List Nat) : runD s (a ++ b) = runD (runD s a) b := by
  simp [runD, List.foldl_append]

/-- a unit that is not a newline: the line-level lemmas below are about newline-free segments -/
def noNL (l : List Nat) : Prop := ∀ c ∈ l, c ≠ 10

theorem dstep_out (s : DSt) (c : Nat) (hc : c ≠ 10) : (dstep s c).out = c :: s.out := by
  by_cases h92 : c = 92
  · simp [dstep, h92]
  · by_cases hb : isBlank c = true
    · simp [dstep, h92, hc, hb]
    · simp [dstep, h92, hc, hb]

theorem dstep_mark (s : DSt) (c : Nat) (hc : c ≠ 10) :
    (dstep s c).mark = if c = 92 then some s.out.length else if isBlank c then s.mark else none := by
  by_cases h92 : c = 92
  · simp [dstep, h92]
  · by_cases hb : isBlank c = true
    · simp [dstep, h92, hc, hb]
    · simp [dstep, h92, hc, hb]

/-- running over newline-free text only ever pushes onto `out` -/
theorem runD_noNL_out (s : DSt) (l : List Nat) (h : noNL l) : (runD s l).out = l.reverse ++ s.out := by
  induction l generalizing s with
  | nil => rfl
  | cons c cs ih =>
    have hc : c ≠ 10 := h c (by simp)
    have hcs : noNL cs := fun x hx => h x (by simp [hx])
    simp only [runD, List.foldl_cons] at *
    rw [ih _ hcs, dstep_out s c hc]
    simp

/-- the mark, when set by newline-free text, never points past the current output -/
theorem runD_noNL_mark (s : DSt) (l : List Nat) (h : noNL l) (hm : ∀ m, s.mark = some m → m ≤ s.out.length) :
    ∀ m, (runD s l).mark = some m → m ≤ (runD s l).out.length := by
  induction l generalizing s with
  | nil => simpa [runD] using hm
  | cons c cs ih =>
    have hc : c ≠ 10 := h c (by simp)
    have hcs : noNL cs := fun x hx => h x (by simp [hx])
    simp only [runD, List.foldl_cons] at *
    apply ih _ hcs
    intro m hm'
    rw [dstep_mark s c hc] at hm'
    rw [dstep_out s c hc]
    by_cases h92 : c = 92
    · simp [h92] at hm'; subst hm'; simp
    · by_cases hb : isBlank c = true
      · simp [h92, hb] at hm'; have := hm m hm'; simp; omega
      · simp [h92, hb] at hm'

/-- after newline-free text, the mark is set iff the text ends in a backslash followed only by blanks -/
def endsBslBlank (l : List Nat) : Bool :=
  match l.reverse.dropWhile isBlank with
  | 92 :: _ => true
  | _ => false

/-- one folded segment: text, then the fold backslash, then the newline: the output is exactly the text -/
theorem fold_segment (s : DSt) (seg : List Nat) (h : noNL seg) :
    runD s (seg ++ [92, 10]) = { out := seg.reverse ++ s.out, mark := none } := by
  rw [runD_append]
  have hout := runD_noNL_out s seg h
  generalize runD s seg = t at *
  simp only [runD, List.foldl_cons, List.foldl_nil, dstep]
  simp only [↓reduceIte]
  have : (92 :: t.out).drop ((92 :: t.out).length - t.out.length) = t.out := by
    simp
  simp [this, hout]

#print axioms fold_segment
#eval runD ⟨[], none⟩ ([97, 98, 92, 10, 99, 92, 32, 10, 100, 10])
