-- Prototype 2 for C08: spec as a left fold with explicit state; chunking independence is then structural.

structure St where
  prevCR : Bool
  out : List Nat   -- reversed output
deriving Repr, DecidableEq

def step (s : St) (c : Nat) : St :=
  if c = 13 then { prevCR := true, out := 10 :: s.out }
  else if c = 10 ∧ s.prevCR then { prevCR := false, out := s.out }
  else { prevCR := false, out := c :: s.out }

def runStream (s : St) (l : List Nat) : St := l.foldl step s

def normalizeEOL (l : List Nat) : List Nat := (runStream ⟨false, []⟩ l).out.reverse

/-- streaming over fills with the carried state -/
def runFills (s : St) (fills : List (List Nat)) : St := fills.foldl runStream s

theorem fills_eq_whole (s : St) (fills : List (List Nat)) :
    runFills s fills = runStream s fills.flatten := by
  induction fills generalizing s with
  | nil => rfl
  | cons f fs ih => simp [runFills, runStream, List.foldl_append] at *; exact ih _

/-- The per-fill function as the C computes it when the bookkeeping is right: pattern style, no state,
    except for the carried flag on entry (drop a leading LF) -/
def convChunk : List Nat → List Nat
  | [] => []
  | c :: rest =>
    if c = 13 then
      match rest with
      | 10 :: r => 10 :: convChunk r
      | _ => 10 :: convChunk rest
    else c :: convChunk rest

theorem step_out_mono (s : St) (l : List Nat) : ∃ t, (runStream s l).out = t ++ s.out := by
  induction l generalizing s with
  | nil => exact ⟨[], rfl⟩
  | cons c cs ih =>
    obtain ⟨t, ht⟩ := ih (step s c)
    simp only [runStream, List.foldl_cons] at *
    rw [ht]
    unfold step
    split
    · exact ⟨t ++ [10], by simp⟩
    · split
      · exact ⟨t, rfl⟩
      · exact ⟨t ++ [c], by simp⟩

#print axioms fills_eq_whole
#eval normalizeEOL [97, 13, 10, 98, 13, 99, 13]
#eval (runFills ⟨false, []⟩ [[97, 13], [10, 98, 13, 99, 13]]).out.reverse
