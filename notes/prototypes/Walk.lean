-- Prototype for C14: cif_walk over an abstract CIF with an arbitrary handler program.

inductive Resp | cont | skipCur | skipSib | endW | err (k : Nat)
deriving DecidableEq, Repr

structure Pkt where
  items : List Nat
deriving Repr

structure Loop where
  id : Nat
  pkts : List Pkt
deriving Repr

inductive Cont where
  | mk (id : Nat) (frames : List Cont) (loops : List Loop)
deriving Repr

inductive Ev
  | cifStart | cifEnd
  | contStart (depth : Nat) (id : Nat) | contEnd (depth : Nat) (id : Nat)
  | loopStart (id : Nat) | loopEnd (id : Nat)
  | pktStart | pktEnd | item (id : Nat)
deriving DecidableEq, Repr

/-- walker state: number of callbacks made so far, and the log (reversed) -/
structure W where
  n : Nat
  log : List Ev
deriving Repr

abbrev Prog := Nat → Ev → Resp

def call (p : Prog) (w : W) (e : Ev) : Resp × W := (p w.n e, { n := w.n + 1, log := e :: w.log })

-- result codes: we keep Resp itself as the "int" (cont = 0 = CIF_OK)

def walkItems (p : Prog) : List Nat → W → Resp × W
  | [], w => (.cont, w)
  | i :: is, w =>
    let (r, w) := call p w (.item i)
    match r with
    | .cont | .skipCur => walkItems p is w
    | .skipSib => (.skipSib, w)     -- caller (walk_packet) turns this into "return CONTINUE without packet_end"
    | r => (r, w)

/-- walk_packet -/
def walkPacket (p : Prog) (pk : Pkt) (w : W) : Resp × W :=
  let (r, w) := call p w .pktStart
  if r ≠ .cont then (r, w) else
  let (r, w) := walkItems p pk.items w
  match r with
  | .cont => call p w .pktEnd
  | .skipSib => (.cont, w)
  | r => (r, w)

/-- the packet loop of walk_loop; returns none when all packets were delivered (CIF_FINISHED) -/
def walkPackets (p : Prog) : List Pkt → W → Option Resp × W
  | [], w => (none, w)
  | pk :: pks, w =>
    let (r, w) := walkPacket p pk w
    match r with
    | .cont | .skipCur => walkPackets p pks w
    | .skipSib => (some .cont, w)
    | r => (some r, w)

/-- walk_loop (loops without packets are excluded by hypothesis in the theorems) -/
def walkLoop (p : Prog) (l : Loop) (w : W) : Resp × W :=
  let (r, w) := call p w (.loopStart l.id)
  if r ≠ .cont then (r, w) else
  let (r, w) := walkPackets p l.pkts w
  match r with
  | some r => (r, w)
  | none => call p w (.loopEnd l.id)

/-- walk_loops -/
def walkLoops (p : Prog) : List Loop → W → Resp × W
  | [], w => (.cont, w)
  | l :: ls, w =>
    let (r, w) := walkLoop p l w
    match r with
    | .cont | .skipCur => (match ls with | [] => (r, w) | _ => walkLoops p ls w)
    | r => (r, w)

mutual
  /-- walk_container -/
  def walkCont (p : Prog) (depth : Nat) : Cont → W → Resp × W
    | .mk id frames loops, w =>
      let (r, w) := call p w (.contStart depth id)
      if r ≠ .cont then (r, w) else
      let (fr, w) := walkFrames p (depth + 1) frames w
      -- fr = none : continue with loops ; some r : return r
      match fr with
      | some r => (r, w)
      | none =>
        let (r, w) := walkLoops p loops w
        match r with
        | .cont | .skipCur => call p w (.contEnd depth id)
        | .skipSib => (.cont, w)
        | r => (r, w)
  /-- the frame loop of walk_container: `none` = go on to the loops -/
  def walkFrames (p : Prog) (depth : Nat) : List Cont → W → Option Resp × W
    | [], w => (none, w)
    | f :: fs, w =>
      let (r, w) := walkCont p depth f w
      match r with
      | .cont | .skipCur => walkFrames p depth fs w
      | .skipSib => (none, w)
      | r => (some r, w)
end

def fullItems (is : List Nat) : List Ev := is.map .item
def fullPkt (pk : Pkt) : List Ev := [.pktStart] ++ fullItems pk.items ++ [.pktEnd]
def fullLoop (l : Loop) : List Ev := [.loopStart l.id] ++ (l.pkts.map fullPkt).flatten ++ [.loopEnd l.id]
mutual
  def fullCont (depth : Nat) : Cont → List Ev
    | .mk id frames loops =>
      [.contStart depth id] ++ fullFrames (depth + 1) frames ++ (loops.map fullLoop).flatten ++ [.contEnd depth id]
  def fullFrames (depth : Nat) : List Cont → List Ev
    | [] => []
    | f :: fs => fullCont depth f ++ fullFrames depth fs
end

def allCont : Prog := fun _ _ => .cont

theorem walkItems_all (is : List Nat) (w : W) :
    walkItems allCont is w = (.cont, { n := w.n + is.length, log := (fullItems is).reverse ++ w.log }) := by
  induction is generalizing w with
  | nil => simp [walkItems, fullItems]
  | cons i is ih =>
    simp only [walkItems, call, allCont, ih, fullItems, List.map_cons, List.reverse_cons, List.length_cons]
    congr 2
    · omega
    · simp [allCont, fullItems]

#eval (walkCont allCont 0 (.mk 1 [.mk 2 [] [⟨7, [⟨[1,2]⟩]⟩]] [⟨8, [⟨[3]⟩, ⟨[4]⟩]⟩]) ⟨0, []⟩).2.log.reverse
#eval fullCont 0 (.mk 1 [.mk 2 [] [⟨7, [⟨[1,2]⟩]⟩]] [⟨8, [⟨[3]⟩, ⟨[4]⟩]⟩])
#print axioms walkItems_all
