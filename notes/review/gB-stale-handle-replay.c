#include <stdio.h>
#include <unicode/ustring.h>
#include "cif.h"
static UChar *U(const char *s){ static UChar buf[16][64]; static int i=0; UChar *b=buf[i++%16]; u_uastrcpy(b,s); return b; }
#define R(x) do{ int rc_=(x); printf("%-60s -> %d\n", #x, rc_);}while(0)
int main(void){
  cif_tp *cif; cif_block_tp *b; cif_loop_tp *l0,*l1,*l2; cif_pktitr_tp *it; cif_packet_tp *p=NULL; cif_value_tp *v=NULL;
  UChar *n_a[]={U("_a"),NULL}, *n_s[]={U("_s"),NULL}, *n_c[]={U("_c"),NULL};
  UChar empty[1]={0};
  R(cif_create(&cif)); R(cif_create_block(cif,U("b"),&b));
  R(cif_container_create_loop(b,NULL,n_a,&l0));
  R(cif_packet_create(&p,n_a)); R(cif_loop_add_packet(l0,p));
  R(cif_loop_get_packets(l0,&it));
  R(cif_container_create_loop(b,empty,n_s,&l1));
  R(cif_pktitr_abort(it));
  R(cif_container_create_loop(b,U("c"),n_c,&l2));
  cif_packet_tp *pc=NULL; R(cif_packet_create(&pc,n_c));
  R(cif_loop_add_packet(l2,pc)); R(cif_loop_add_packet(l2,pc)); R(cif_loop_add_packet(l2,pc));
  R(cif_loop_get_packets(l1,&it)); R(cif_pktitr_next_packet(it,NULL)); R(cif_pktitr_remove_packet(it)); R(cif_pktitr_close(it));
  R(cif_loop_add_packet(l2,pc));
  R(cif_loop_add_packet(l2,pc));
  R(cif_loop_add_packet(l2,pc));
  R(cif_loop_get_packets(l2,&it)); int k=0; while(cif_pktitr_next_packet(it,NULL)==CIF_OK) k++; printf("packets in loop c: %d\n",k); R(cif_pktitr_close(it));
  return 0;
}
