#!/usr/bin/env python3
"""development aid: prints a markdown inventory (per property: Lean modules, theorems with axioms, correspondence families with
the counts of the last run, partial list) from tools/props/*.py and evidence/*.json; pasted into DESIGN.md Appendix D"""
import json, os, sys, importlib.util
HERE = os.path.dirname(os.path.abspath(__file__)); T = os.path.dirname(HERE); V = os.path.dirname(T)
def load(p):
    s = importlib.util.spec_from_file_location("m", p); m = importlib.util.module_from_spec(s); s.loader.exec_module(m); return m
for f in sorted(os.listdir(os.path.join(T, "props"))):
    if not f.endswith(".py"): continue
    pid = f[:-3]; cfg = load(os.path.join(T, "props", f))
    evp = os.path.join(V, "evidence", pid + ".json")
    ev = json.load(open(evp)) if os.path.exists(evp) else None
    print("#### %s" % pid)
    print("* Lean modules: %s" % ", ".join("`%s`" % m for m in cfg.LEAN_MODULES))
    if ev:
        th = ev["coverage"].get("theorems", {})
        req = set(getattr(cfg, "REQUIRED", []))
        names = sorted(th, key=lambda n: (n not in req, n))
        print("* theorems (%d; **bold** = required to exist by `tools/props/%s.py`): %s" % (len(th), pid,
              ", ".join(("**%s**" if n in req else "%s") % n.replace("CifModel.", "") for n in names)))
        ax = sorted({a for v in th.values() for a in v})
        print("* axioms used: %s" % (", ".join(ax) if ax else "none"))
        for c in ev["coverage"].get("correspondence", []):
            print("* family `%s`: %d cases in the last quick run (%d distinct non-trivial), %d disagreements, %d oracle failures (known findings included); classes %s" % (
                c["family"], c["evaluations"], c["distinct_nontrivial"], c["disagreements"], c["oracle_failures"],
                json.dumps(dict(sorted(c.get("histogram", {}).items(), key=lambda kv: -kv[1])[:6]))))
    for p in getattr(cfg, "PARTIAL", []):
        print("* partial: %s" % p)
    print()
