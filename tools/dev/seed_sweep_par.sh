#!/bin/sh
# tools/dev/seed_sweep_par.sh <worktree of /verif> … — the sweep of tools/dev/seed_sweep.sh over ALL seeded changes, split over several
# already set-up worktrees of /verif (each has its own lean/.lake and .cache, so the sweeps do not share generated files); every worktree
# is first put on the commit of /verif's HEAD (detached).  The detection records are copied back into /verif/seeded/<name>/.
# NAMES="C01_1 C02_3 …" restricts the sweep.
V=$(cd "$(dirname "$0")/../.." && pwd)
head=$(git -C $V rev-parse HEAD)
names=${NAMES:-$(ls $V/seeded)}
n=$#; i=0
for w in "$@"; do
  git -C $w checkout -q -f --detach $head || { echo "$w: cannot check out $head"; exit 2; }
  eval "part$i=''"; i=$((i+1))
done
k=0
for nm in $names; do
  j=$((k % n)); eval "part$j=\"\$part$j $nm\""; k=$((k+1))
done
i=0
for w in "$@"; do
  eval "p=\$part$i"
  ( cd $w && python3 tools/check.py --setup >/dev/null 2>&1; sh tools/dev/seed_sweep.sh $p > $w/sweep.log 2>&1; for nm in $p; do cp $w/seeded/$nm/detection.txt $V/seeded/$nm/detection.txt 2>/dev/null; done; echo "$w done" ) &
  i=$((i+1))
done
wait
