#!/usr/bin/env python3
"""development aid: replaces DESIGN.md section 14.4 by the per-property as-built texts notes/design/14_4_Cxx.md"""
import os, glob
V = os.path.dirname(os.path.dirname(os.path.dirname(os.path.abspath(__file__))))
p = os.path.join(V, "DESIGN.md")
s = open(p, encoding="utf-8").read()
a = s.index("### 14.4 Per property: what was built")
b = s.index("### 14.5 Trusted base as built")
head = """### 14.4 Per property: what was built

Every model file is core Lean (no Mathlib import anywhere).  For each property: what is modelled, which clause of the property
statement is carried by which theorem (names as in `lean/CifModel/Props/`), what is not proved, what the correspondence families
generate and observe, which commits of `/repo` the property caused, and what the independent review found.  Theorem inventories,
assumptions, partial lists and the case counts of the last run are in Appendix D (section 17, generated); the working reports of the
groups that built each part are `notes/agents/g?.md`.  "family" = correspondence family (generator `tools/gen/<f>.py`, executor
`harness/x_<f>.c`, driver `lean/Driver/Fam/<F>.lean`).

"""
parts = []
for f in sorted(glob.glob(os.path.join(V, "notes", "design", "14_4_C*.md"))):
    parts.append(open(f, encoding="utf-8").read().strip() + "\n")
s = s[:a] + head + "\n".join(parts) + "\n\n" + s[b:]
open(p, "w", encoding="utf-8").write(s)
print("14.4 assembled from %d files" % len(parts))
