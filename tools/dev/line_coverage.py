#!/usr/bin/env python3
"""development aid (not a check): how much of the LIBRARY's code do the correspondence runs execute?

The hand-written Lean models are tied to /repo only as far as the generators exercise the real code (DESIGN.md 14.5 item 4).
This tool measures that: it builds a gcov-instrumented copy of the library and of every executor in a scratch cache, runs the
corpus + generated request stream of every correspondence family of every property (tier quick by default), merges the
line counts of all translation units (an executor that #includes a library .c file has its own copy of that file's counters)
and prints, per library source file and per function, the lines no request executed.

Usage: tools/dev/line_coverage.py [--tier quick|thorough] [--json out.json] [family …]
Scratch: $COV_CACHE (default /root/scratch/linecov) — remove it afterwards."""
import os, re, sys, subprocess, glob, json, gzip, importlib.util, argparse
HERE = os.path.dirname(os.path.abspath(__file__)); T = os.path.dirname(HERE)
sys.path.insert(0, T); sys.path.insert(0, os.path.join(T, "gen"))
import check
ap = argparse.ArgumentParser(); ap.add_argument("--tier", default="quick"); ap.add_argument("--json"); ap.add_argument("fams", nargs="*")
ap.add_argument("--seed", type=int, default=1)
A = ap.parse_args()
SCR = os.environ.get("COV_CACHE", "/root/scratch/linecov")
check.CACHE = SCR
check.SAN_FLAGS = ["-g", "-O0", "--coverage", "-fprofile-update=atomic"]
check.PLAIN_FLAGS = check.SAN_FLAGS
check.WRAP_LDFLAGS = check.WRAP_LDFLAGS + ["--coverage"]


def load(p):
    s = importlib.util.spec_from_file_location("m", p); m = importlib.util.module_from_spec(s); s.loader.exec_module(m); return m


fams = list(A.fams)
if not fams:
    for p in sorted(glob.glob(os.path.join(T, "props", "C*.py"))):
        c = load(p)
        for f in list(getattr(c, "FAMILIES", [])):
            if f not in fams: fams.append(f)
rh = check.repo_hash()
ran = {}
for fam in fams:
    try:
        fmod = check.family_mod(fam)
    except Exception as e:
        print("!! %s: %s" % (fam, e)); continue
    exe, err = check.build_executor(fmod, rh)
    if err:
        print("!! %s: %s" % (fam, err[-300:])); continue
    try:
        reqs = check.corpus_requests(fam) + list(fmod.generate(A.seed, A.tier))
    except Exception as e:
        print("!! %s: generator: %s" % (fam, e)); continue
    if getattr(fmod, "second_phase", None):
        pass  # multi-phase families (oom): only their first phase is run here
    env = dict(os.environ); env.update(getattr(fmod, "ENV", None) or {})
    for i in range(0, len(reqs), 200):
        try:
            subprocess.run([exe], input="\n".join(reqs[i:i + 200]) + "\n", capture_output=True, text=True, env=env, timeout=900)
        except subprocess.TimeoutExpired:
            pass
    ran[fam] = len(reqs)
    print("ran %-12s %6d requests" % (fam, len(reqs)), flush=True)

# merge: (basename, line) -> executed?  ; function extents from gcov's json
cov = {}      # (file, line) -> count
funcs = {}    # file -> {name: (start, end)}
libnames = {f + ".c" for f in check.LIB_FILES}
for gcno in glob.glob(os.path.join(SCR, "**", "*.gcno"), recursive=True):
    d = os.path.dirname(gcno)
    r = subprocess.run(["gcov", "--json-format", "--stdout", gcno], capture_output=True, cwd=d)
    if r.returncode != 0 or not r.stdout:
        continue
    for doc in r.stdout.decode(errors="replace").splitlines():
        try: j = json.loads(doc)
        except Exception: continue
        for fe in j.get("files", []):
            b = os.path.basename(fe["file"])
            if b not in libnames: continue
            for fn in fe.get("functions", []):
                funcs.setdefault(b, {})[fn["name"]] = (fn["start_line"], fn["end_line"])
            for ln in fe.get("lines", []):
                k = (b, ln["line_number"]); cov[k] = cov.get(k, 0) + ln["count"]
out = {"tier": A.tier, "repo": rh, "families": ran, "files": {}}
tot_l = tot_c = 0
print()
for b in sorted(libnames):
    lines = sorted(n for (f, n) in cov if f == b)
    if not lines: continue
    src = open(os.path.join(check.REPO, "src", b), errors="replace").read().split("\n")
    hit = [n for n in lines if cov[(b, n)] > 0]
    tot_l += len(lines); tot_c += len(hit)
    print("== %s: %d of %d executable lines executed (%.1f%%)" % (b, len(hit), len(lines), 100.0 * len(hit) / len(lines)))
    fo = {}
    for name, (s, e) in sorted(funcs.get(b, {}).items(), key=lambda kv: kv[1]):
        fl = [n for n in lines if s <= n <= e]
        miss = [n for n in fl if cov[(b, n)] == 0]
        if not fl: continue
        fo[name] = {"lines": len(fl), "missed": miss}
        if miss:
            # memory-failure exits are the domain of the fault-injection families, label them
            txt = ["%d%s" % (n, "m" if re.search(r"MEMORY_ERROR|memory", src[n - 1]) else "") for n in miss]
            print("   %-40s %3d/%3d missed: %s" % (name, len(miss), len(fl), " ".join(txt[:40]) + (" …" if len(txt) > 40 else "")))
    out["files"][b] = fo
print("\nTOTAL: %d of %d executable lines of src/*.c executed by the correspondence streams (%.1f%%)" % (tot_c, tot_l, 100.0 * tot_c / max(1, tot_l)))
if A.json:
    json.dump(out, open(A.json, "w"), indent=1)
