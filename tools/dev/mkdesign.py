#!/usr/bin/env python3
"""development aid: regenerates the GENERATED blocks of DESIGN.md (between `<!-- BEGIN GENERATED: x -->` / `<!-- END GENERATED: x -->`):
   summary  — as-built table per property (from tools/props/*.py and evidence/*.json)
   findings — repaired defects (known_findings.json 'fixed') and open findings (known_findings.json + known_findings.d/*.json)
   seeds    — seeded changes and which check caught them (seeded/*/meta.json, detection.txt)
   inventory— per property: modules, required theorems, axioms, families with the counts of the last run, PARTIAL list
Run after `python3 tools/check.py --all` on the unchanged tree (the counts come from the evidence files)."""
import json, os, re, glob, subprocess, importlib.util
HERE = os.path.dirname(os.path.abspath(__file__)); T = os.path.dirname(HERE); V = os.path.dirname(T)


def load(p):
    s = importlib.util.spec_from_file_location("m", p); m = importlib.util.module_from_spec(s); s.loader.exec_module(m); return m


def props():
    for f in sorted(os.listdir(os.path.join(T, "props"))):
        if f.endswith(".py"):
            pid = f[:-3]
            evp = os.path.join(V, "evidence", pid + ".json")
            yield pid, load(os.path.join(T, "props", f)), (json.load(open(evp)) if os.path.exists(evp) else None)


def titles():
    t = {}
    for l in open(os.path.join(V, "properties.jsonl")):
        d = json.loads(l); t[d["id"]] = d["title"]
    return t


def is_aux(n):
    return bool(re.search(r"\.(eq_\d+|eq_def|match_\d+|proof_\d+|_simp_\d+|congr_simp|injEq|sizeOf_spec|noConfusion.*)$", n)) or "._" in n


def gen_summary():
    tt = titles()
    out = ["| id | property | Lean modules | required theorems | theorems audited | families (cases in the last quick run) | open findings | items in PARTIAL |", "|---|---|---|---|---|---|---|---|"]
    openf = open_findings()
    for pid, cfg, ev in props():
        th = (ev or {}).get("coverage", {}).get("theorems", {})
        fam = "; ".join("%s (%d)" % (c["family"], c["evaluations"]) for c in (ev or {}).get("coverage", {}).get("correspondence", []))
        out.append("| %s | %s | %d | %d | %d | %s | %d | %d |" % (pid, tt.get(pid, ""), len(cfg.LEAN_MODULES), len(getattr(cfg, "REQUIRED", [])),
                   len([n for n in th if not is_aux(n)]), fam, len({e["id"] for e in openf if e.get("property") == pid}), len(getattr(cfg, "PARTIAL", []))))
    return "\n".join(out)


def open_findings():
    res = []
    for p in [os.path.join(V, "known_findings.json")] + sorted(glob.glob(os.path.join(V, "known_findings.d", "*.json"))):
        try: d = json.load(open(p))
        except Exception: continue
        res += d.get("open", [])
    return res


def gen_findings():
    d = json.load(open(os.path.join(V, "known_findings.json")))
    out = ["**Repaired in `/repo` (%d `fix:` commits; each entry: property, commit, what failed).**  Every repair is a minimal unguarded commit; "
           "the repository's own suite passes after each (74 test programs, `make -k check`).  A `fixed:` entry suppresses nothing: the "
           "failing inputs are regression lines in `corpus/` and a recurrence is reported as a violation.\n" % len(d.get("fixed", []))]
    for e in d.get("fixed", []):
        m = re.match(r"fixed: property=(C\d+) ([0-9a-f]+) (.*)", e, re.S)
        if m: out.append("* `%s` %s — %s" % (m.group(2), m.group(1), m.group(3).strip()))
        else: out.append("* " + e)
    of = open_findings()
    out.append("\n**Open findings (%d entries, %d distinct ids)** — genuine deviations of the current tree from a property that were not "
               "repaired; each check prints `KNOWN-FINDING:` for those it meets and exits 0; any other failure is a violation.\n"
               % (len(of), len({(e.get('property'), e['id']) for e in of})))
    seen = set()
    for e in of:
        k = (e.get("property"), e["id"])
        if k in seen: continue
        seen.add(k)
        out.append("* %s `%s` (family %s) — %s" % (e.get("property"), e["id"], ", ".join(sorted({x.get("family", "-") for x in of if (x.get("property"), x["id"]) == k})), e.get("what", "").strip()))
    return "\n".join(out)


def gen_seeds():
    rows = ["| change | what was changed (sub-agent's summary) | needs | result of the quick check(s) on the changed tree |", "|---|---|---|---|"]
    n = caught = nfi_only = missed = gone = 0
    for d in sorted(glob.glob(os.path.join(V, "seeded", "*"))):
        name = os.path.basename(d)
        try: m = json.load(open(os.path.join(d, "meta.json")))
        except Exception: m = {}
        det = ""; st = []
        p = os.path.join(d, "detection.txt")
        if os.path.exists(p):
            txt = open(p).read()
            if txt.startswith("patch no longer applies"):
                det = "patch no longer applies to the repaired tree (the code it changed was rewritten by a later `fix:` commit); caught when it was current"
                st.append("gone")
            for b in [b for b in txt.split("\n\n") if b.strip()]:
                mm = re.match(r"check (C\d+) tier=(\w+) against the changed tree[^:]*: exit=(\d), (\d+) VIOLATION", b.strip().split("\n")[0])
                if not mm: continue
                pid, tier, ex, nv = mm.groups()
                nfi = "no-failing-input-found" in b.split("\n")[1] if len(b.split("\n")) > 1 else False
                req = re.search(r"request: (\S+ \S+)", b); orc = re.search(r"oracle: FAIL\s+([^|]{0,120})", b)
                if ex == "0": st.append((pid, "missed"))
                elif nfi: st.append((pid, "nfi"))
                else: st.append((pid, "caught"))
                det += ("; " if det else "") + ("%s: **missed**" % pid if ex == "0" else "%s: VIOLATION%s%s" % (
                    pid, " (no-failing-input-found)" if nfi else "", (" — `" + req.group(1) + " …`: " + orc.group(1).strip()) if (req and orc) else ""))
        n += 1
        kinds = [s[1] for s in st if isinstance(s, tuple)]
        if "caught" in kinds: caught += 1
        elif "nfi" in kinds: nfi_only += 1
        elif "gone" in st: gone += 1
        else: missed += 1
        rows.append("| %s | %s | %s | %s |" % (name, (m.get("summary") or "").replace("|", "/").replace("\n", " ")[:330],
                    (m.get("needs") or "").replace("|", "/").replace("\n", " ")[:280], det))
    head = ("%d seeded changes; on the final tree %d are reported with a concrete failing input by at least one registered check, %d only as a broken "
            "proof / correspondence (`no-failing-input-found`), %d no longer apply, %d are missed.\n\n" % (n, caught, nfi_only, gone, missed))
    return head + "\n".join(rows)


def gen_inventory():
    out = []
    for pid, cfg, ev in props():
        out.append("#### %s" % pid)
        out.append("* Lean modules: %s" % ", ".join("`%s`" % m.replace("CifModel.", "") for m in cfg.LEAN_MODULES))
        req = list(getattr(cfg, "REQUIRED", []))
        out.append("* required theorems (%d): %s" % (len(req), ", ".join("`%s`" % n.replace("CifModel.", "") for n in req)))
        if ev:
            th = ev["coverage"].get("theorems", {})
            names = [n for n in th if not is_aux(n)]
            out.append("* theorems audited in the property's modules: %d (plus %d compiler-generated equation lemmas); axioms used: %s" % (
                len(names), len(th) - len(names), ", ".join(sorted({a for v in th.values() for a in v})) or "none"))
            for c in ev["coverage"].get("correspondence", []):
                out.append("* family `%s`: %d cases in the last quick run (%d distinct non-trivial), %d disagreements, %d oracle failures (known findings included); classes %s" % (
                    c["family"], c["evaluations"], c["distinct_nontrivial"], c["disagreements"], c["oracle_failures"],
                    json.dumps(dict(sorted(c.get("histogram", {}).items(), key=lambda kv: -kv[1])[:6]))))
        for a in getattr(cfg, "ASSUMPTIONS", []):
            out.append("* assumption: %s" % a)
        for p in getattr(cfg, "PARTIAL", []):
            out.append("* partial: %s" % p)
        out.append("")
    return "\n".join(out)


GEN = {"summary": gen_summary, "findings": gen_findings, "seeds": gen_seeds, "inventory": gen_inventory}


def main():
    p = os.path.join(V, "DESIGN.md")
    s = open(p, encoding="utf-8").read()
    for k, fn in GEN.items():
        a = "<!-- BEGIN GENERATED: %s -->" % k; b = "<!-- END GENERATED: %s -->" % k
        if a not in s or b not in s:
            print("marker for %s missing" % k); continue
        i = s.index(a) + len(a); j = s.index(b)
        s = s[:i] + "\n" + fn() + "\n" + s[j:]
    open(p, "w", encoding="utf-8").write(s)
    print("DESIGN.md regenerated blocks:", ", ".join(GEN))


if __name__ == "__main__":
    main()
