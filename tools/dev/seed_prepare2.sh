#!/bin/sh
# second round: fresh scratch worktrees of /repo HEAD under /tmp/seed2/<id>, built, with the static archive
for id in "$@"; do
  ( d=/tmp/seed2/$id; rm -rf $d; git -C /repo worktree prune; mkdir -p /tmp/seed2; git -C /repo worktree add -q --detach $d HEAD && cd $d && ./configure -q >/dev/null 2>&1 && make -j4 >/dev/null 2>&1 && ar rcs src/.libs/libcif.a src/.libs/*.o && echo "$id ready" ) &
done
wait
