#!/usr/bin/env python3
"""development aid (not a check): full allocation-fault census; prints the failure classes with one example each,
and with --write regenerates known_findings.d/C17.json from them (review the diff before committing!)"""
import sys, glob, os, json, collections
HERE = os.path.dirname(os.path.abspath(__file__)); T = os.path.dirname(HERE)
sys.path.insert(0, T); sys.path.insert(0, os.path.join(T, "gen"))
import check, oom
rh = check.repo_hash()
exe, err = check.build_executor(oom, rh)
assert not err, err
ops, _ = check.run_stream(exe, ["oom ops"], oom.ENV)
r1 = oom.second_phase(["oom ops"], ops, 1, "thorough")
i1, _ = check.run_parallel(exe, r1, 16, oom.ENV)
r2 = oom.second_phase(r1, i1, 1, "thorough")
i2, _ = check.run_parallel(exe, r2, 16, oom.ENV)
cls = collections.Counter(); ex = {}
fired = 0
for r, i in zip(r1 + r2, i1 + i2):
    if oom.nontrivial(r, i):
        fired += 1
    w = oom.oracle(r, i)
    if w is None and (i.startswith("SAN") or i.startswith("CRASH") or i.startswith("TIMEOUT")):
        w = "implementation did not return normally: " + i
    if w:
        c = oom.finding_class(r, i, None, w); cls[c] += 1; ex.setdefault(c, (r, i[:160], w))
if "--coverage" in sys.argv:
    # per operation: library-class fault sites by group (proved ladder / leaf / observed only), see tools/gen/oom.py LADDER_FUNCS
    per = collections.defaultdict(collections.Counter); funcs = collections.Counter()
    for r, i in zip(r2, i2):
        t = r.split()
        if t[2] == "lib" and oom._field(i, "fired") == "1":
            g = oom.site_group(oom._field(i, "site")); per[t[1]][g] += 1; funcs[(g, oom._field(i, "site"))] += 1
    tot = collections.Counter()
    print("%-28s %7s %7s %9s %6s" % ("operation", "proved", "leaf", "observed", "total"))
    for op in sorted(per):
        c = per[op]; tot.update(c)
        print("%-28s %7d %7d %9d %6d" % (op, c["proved"], c["leaf"], c["observed"], sum(c.values())))
    n = sum(tot.values())
    print("%-28s %7d %7d %9d %6d   (%.0f%% of the library-class sites inside a proved ladder, %.0f%% leaves)" %
          ("ALL", tot["proved"], tot["leaf"], tot["observed"], n, 100.0 * tot["proved"] / max(n, 1), 100.0 * tot["leaf"] / max(n, 1)))
    print("functions by number of fault sites:")
    for (g, f), k in sorted(funcs.items(), key=lambda x: -x[1]):
        print("  %4d %-9s %s" % (k, g, f))
print("requests", len(r1) + len(r2), "fired", fired, "failing", sum(cls.values()), "classes", len(cls))
for c, n in sorted(cls.items()):
    print("%4d %s    e.g. %s" % (n, c, ex[c][0]))
if "--write" in sys.argv:
    out = {"open": [{"property": "C17", "id": "F31/" + c, "family": "oom", "class": c,
                     "what": "%s (e.g. `%s`)" % (ex[c][2], ex[c][0])} for c in sorted(cls)]}
    json.dump(out, open(os.path.join(os.path.dirname(T), "known_findings.d", "C17.json") if os.path.isdir(os.path.join(os.path.dirname(T), "known_findings.d")) else "C17.json", "w"), indent=1)
