#!/usr/bin/env python3
"""development aid: markdown table of the seeded changes (seeded/<name>/meta.json + detection.txt) for DESIGN.md section 15"""
import json, os, glob, re
V = os.path.dirname(os.path.dirname(os.path.dirname(os.path.abspath(__file__))))
print("| change | property | what was changed (sub-agent's summary) | needs | result of the property's quick check on the changed tree |")
print("|---|---|---|---|---|")
for d in sorted(glob.glob(os.path.join(V, "seeded", "*"))):
    name = os.path.basename(d)
    try: m = json.load(open(os.path.join(d, "meta.json")))
    except Exception: m = {}
    det = ""
    p = os.path.join(d, "detection.txt")
    if os.path.exists(p):
        blocks = [b for b in open(p).read().split("\n\n") if b.strip()]
        outs = []
        for b in blocks:
            h = b.strip().split("\n")[0]
            mm = re.match(r"check (C\d+) tier=(\w+) against the changed tree: exit=(\d), (\d+) VIOLATION", h)
            if not mm: continue
            pid, tier, ex, nv = mm.groups()
            nfi = "no-failing-input-found" in b
            req = re.search(r"request: (\S+ \S+)", b)
            orc = re.search(r"oracle: FAIL\s+([^|]{0,110})", b)
            if ex == "0": outs.append("%s: **missed** (exit 0)" % pid)
            else: outs.append("%s: VIOLATION%s%s" % (pid, " (no-failing-input-found)" if nfi else "", (" — `" + req.group(1) + " …`: " + orc.group(1).strip()) if (req and orc) else ""))
        det = "; ".join(dict.fromkeys(outs))
    summ = (m.get("summary") or "").replace("|", "/").replace("\n", " ")
    needs = (m.get("needs") or "").replace("|", "/").replace("\n", " ")
    print("| %s | %s | %s | %s | %s |" % (name, m.get("property", name.split("_")[0]), summ[:300], needs[:260], det))
