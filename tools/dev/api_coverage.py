#!/usr/bin/env python3
"""development aid (not a check): which error exits of the PUBLIC API functions are executed by the request streams that
property C16 sweeps for leaks / undefined behaviour?  Builds a gcov-instrumented copy of the library and of the executors
of C16's families in a scratch cache, runs each family's quick stream (the first LEAK_LIMIT['quick'] cases, as the leak
sweep does; api16 and locale completely), and prints, per public function of src/cif.h, the non-memory error exits
(`return CIF_…`, `FAIL(…, CIF_…)`, `SET_RESULT(CIF_…)` other than CIF_OK / CIF_MEMORY_ERROR) whose line was never executed,
and the public functions that were never entered.  Usage: tools/dev/api_coverage.py [family …]"""
import os, re, sys, subprocess, shutil, glob, importlib.util
HERE = os.path.dirname(os.path.abspath(__file__)); T = os.path.dirname(HERE)
sys.path.insert(0, T); sys.path.insert(0, os.path.join(T, "gen"))
import check
SCR = os.environ.get("COV_CACHE", "/root/scratch/gI-cov")
check.CACHE = SCR
check.SAN_FLAGS = [f for f in check.PLAIN_FLAGS if not f.startswith("-O")] + ["-O0", "-g", "--coverage"]
check.PLAIN_FLAGS = check.SAN_FLAGS
check.WRAP_LDFLAGS = check.WRAP_LDFLAGS + ["--coverage"]


def load(p):
    s = importlib.util.spec_from_file_location("m", p); m = importlib.util.module_from_spec(s); s.loader.exec_module(m); return m


c16 = load(os.path.join(T, "props", "C16.py"))
fams = sys.argv[1:] or (list(c16.FAMILIES) + list(c16.LEAK_FAMILIES))
rh = check.repo_hash()
for fam in fams:
    fmod = check.family_mod(fam)
    exe, err = check.build_executor(fmod, rh)
    if err:
        print("!! %s: %s" % (fam, err[-300:])); continue
    reqs = check.corpus_requests(fam) + list(fmod.generate(1, "quick"))
    if fam not in c16.FAMILIES:
        reqs = reqs[:c16.LEAK_LIMIT["quick"]]
    env = dict(os.environ); env.update(getattr(fmod, "ENV", None) or {})
    # one process per 200 requests; a crash loses only that chunk's counters
    for i in range(0, len(reqs), 200):
        subprocess.run([exe], input="\n".join(reqs[i:i + 200]) + "\n", capture_output=True, text=True, env=env, timeout=600)
    print("ran %-10s %5d requests" % (fam, len(reqs)), flush=True)

libd = os.path.join(SCR, "lib", rh, "asan")
if not os.path.isdir(libd):
    libd = glob.glob(os.path.join(SCR, "lib", rh, "*"))[0]
cov = {}
for f in check.LIB_FILES:
    r = subprocess.run(["gcov", "-o", libd, os.path.join(libd, f + ".o")], capture_output=True, text=True, cwd=libd)
    g = os.path.join(libd, f + ".c.gcov")
    if os.path.exists(g):
        for line in open(g, errors="replace"):
            m = re.match(r"\s*([^:]+):\s*(\d+):(.*)", line)
            if m:
                cov[(f + ".c", int(m.group(2)))] = (m.group(1).strip(), m.group(3))
hdr = open(os.path.join(check.REPO, "src", "cif.h")).read()
public = sorted(set(re.findall(r"CIF_(?:INT|VOID)FUNC_DECL\(\s*(\w+)", hdr) + re.findall(r"CIF_FUNC_DECL\([^,]+,\s*(\w+)", hdr)) - {"name"})
never, gaps = [], []
for fn in public:
    found = False
    for f in check.LIB_FILES:
        src = open(os.path.join(check.REPO, "src", f + ".c"), errors="replace").read()
        m = re.search(r"^(?:[A-Za-z_][\w \*]*?\b)?%s\s*\([^;{]*\)\s*\{" % re.escape(fn), src, re.M)
        if not m:
            continue
        found = True
        start = src[:m.start()].count("\n") + 1
        i, depth = m.end(), 1
        while i < len(src) and depth:
            depth += (src[i] == "{") - (src[i] == "}"); i += 1
        end = src[:i].count("\n") + 1
        lines = [(n, cov.get((f + ".c", n))) for n in range(start, end + 1)]
        if not any(c and c[0] not in ("-", "#####", "=====") for _, c in lines):
            never.append("%s (%s.c:%d)" % (fn, f, start))
            break
        for n, c in lines:
            if c and c[0] in ("#####", "=====") and re.search(r"\bCIF_[A-Z_]+\b", c[1]) and re.search(r"return|FAIL|SET_RESULT", c[1]) \
                    and not re.search(r"CIF_(OK|MEMORY_ERROR|TRAVERSE_\w+)\b", c[1]):
                gaps.append("%s  %s.c:%d  %s" % (fn, f, n, c[1].strip()[:110]))
        break
    if not found:
        never.append("%s (definition not found: macro or inline?)" % fn)
print("\npublic functions never entered: %d" % len(never))
for x in never: print("  " + x)
print("\nnon-memory error exits never executed inside public functions: %d" % len(gaps))
for x in gaps: print("  " + x)
