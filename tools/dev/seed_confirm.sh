#!/bin/sh
# tools/dev/seed_confirm.sh <dir with patch.diff demo.c meta.json> <name>
# Confirms a seeded change independently in a fresh scratch worktree of /repo's HEAD: demo PASSes on the unchanged tree,
# the patch applies and compiles, the repository's own suite still passes (74/0), demo FAILs on the changed tree.
# On success copies the deliverable to /verif/seeded/<name>/ and leaves the patched, built tree at /tmp/seedc/<name>
# (use it as VERIF_REPO to run the checks against the change; remove it with: git -C /repo worktree remove --force /tmp/seedc/<name>).
set -u
SRC=$1; NAME=$2; WT=/tmp/seedc/$NAME
# a demo may need the linker's --wrap for allocation-failure injection: every -Wl,--wrap=… named in meta.json is added
WRAPS=$(grep -o -e '-Wl,--wrap=[a-z_]*' $SRC/meta.json $SRC/demo.c 2>/dev/null | sed 's/^[^:]*://' | sort -u | tr '\n' ' ')
LIBS="-lsqlite3 -lm $(pkg-config --libs icu-uc icu-io icu-i18n) $WRAPS"
rm -rf $WT; git -C /repo worktree prune; mkdir -p /tmp/seedc
git -C /repo worktree add -q --detach $WT HEAD || exit 2
mkar() { rm -f $WT/src/.libs/libcif.a; ar rcs $WT/src/.libs/libcif.a $WT/src/.libs/*.o; }   # the checkout builds the shared library only
cd $WT && ./configure -q >/dev/null 2>&1 && make -j8 >/dev/null 2>&1 && mkar || { echo "$NAME: clean build failed"; exit 2; }
sed "s#/tmp/seed[23]\?/[A-Za-z0-9_]*#$WT#g" $SRC/demo.c > $WT/demo.c
gcc -g -w -I$WT/src -I$WT demo.c $WT/src/.libs/libcif.a $LIBS -o demo_clean 2>demo_build.log || { echo "$NAME: demo does not compile"; cat demo_build.log | head; exit 2; }
timeout 120 ./demo_clean > demo_clean.out 2>&1; RC_CLEAN=$?
git apply $SRC/patch.diff || { echo "$NAME: patch does not apply to HEAD"; exit 2; }
make -j8 >/dev/null 2>&1 && mkar || { echo "$NAME: changed tree does not compile"; exit 2; }
SUITE=$(make -k check 2>&1 | grep -E "^# (PASS|FAIL)" | tr -d '\n ')
mkar
gcc -g -w -I$WT/src -I$WT demo.c $WT/src/.libs/libcif.a $LIBS -o demo_mut 2>/dev/null
timeout 120 ./demo_mut > demo_mut.out 2>&1; RC_MUT=$?
echo "$NAME: demo clean rc=$RC_CLEAN, demo changed rc=$RC_MUT, suite $SUITE"
if [ "$RC_CLEAN" = 0 ] && [ "$RC_MUT" != 0 ] && [ "$SUITE" = "#PASS:74#FAIL:0" ]; then
  mkdir -p /verif/seeded/$NAME && cp $SRC/patch.diff $SRC/demo.c /verif/seeded/$NAME/ && \
  python3 - "$SRC/meta.json" "/verif/seeded/$NAME/meta.json" "$RC_CLEAN" "$RC_MUT" "$SUITE" <<'PY'
import json, sys, subprocess
try: m = json.load(open(sys.argv[1]))
except Exception: m = {}
m["confirmed_by_coordinator"] = {"demo_on_unchanged_tree_rc": int(sys.argv[3]), "demo_on_changed_tree_rc": int(sys.argv[4]),
    "repository_suite_with_change": sys.argv[5],
    "repo_head": subprocess.run(["git", "-C", "/repo", "rev-parse", "--short", "HEAD"], capture_output=True, text=True).stdout.strip(),
    "how": "tools/dev/seed_confirm.sh in a fresh scratch worktree of /repo HEAD: configure, make, demo PASS; git apply patch.diff, make, make -k check, demo FAIL"}
json.dump(m, open(sys.argv[2], "w"), indent=1)
PY
  echo "$NAME: CONFIRMED"
else
  echo "$NAME: NOT confirmed"; tail -5 demo_clean.out; tail -5 demo_mut.out
fi
