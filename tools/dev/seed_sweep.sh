#!/bin/sh
# tools/dev/seed_sweep.sh [name…] — re-run the detection record of seeded changes on the CURRENT /repo HEAD.
# For every /verif/seeded/<name> (or the names given): fresh scratch worktree of /repo's HEAD under /tmp/seedsweep,
# apply patch.diff, run the quick check of the change's property (and every further property listed in
# meta.json "also_check") with VERIF_REPO pointing at it, write seeded/<name>/detection.txt (replaced, not appended),
# remove the worktree.  Sequential on purpose: the checks share lean/CifModel/Gen and .cache of this tree.
# Finishes by regenerating the generated files for /repo itself; the evidence files must be regenerated afterwards
# (python3 tools/check.py --all) because the runs against the changed trees overwrite them.
cd "$(dirname "$0")/../.."
mkdir -p /tmp/seedsweep
names="$@"; [ -n "$names" ] || names=$(ls seeded)
head=$(git -C /repo rev-parse --short HEAD)
for name in $names; do
  [ -f seeded/$name/patch.diff ] || continue
  wt=/tmp/seedsweep/$name
  rm -rf $wt; git -C /repo worktree prune
  git -C /repo worktree add -q --detach $wt HEAD || { echo "$name: cannot create worktree"; continue; }
  # the generated headers a fresh checkout lacks (none of the seeded patches touches their sources; if one does, build them)
  cp /repo/config.h $wt/config.h 2>/dev/null
  cp /repo/src/internal/schema.h /repo/src/internal/version.h $wt/src/internal/ 2>/dev/null
  if grep -q "cif_schema.sql\|configure.ac" seeded/$name/patch.diff; then REGEN=1; else REGEN=0; fi
  if ! git -C $wt apply --3way seeded/$name/patch.diff 2>/dev/null && ! git -C $wt apply "$(pwd)/seeded/$name/patch.diff" 2>/dev/null; then
    echo "$name: patch no longer applies to $head"; echo "patch no longer applies to /repo $head (the code it changed was since repaired or rewritten)" > seeded/$name/detection.txt
    git -C /repo worktree remove --force $wt; continue
  fi
  [ $REGEN = 1 ] && (cd $wt && ./configure -q >/dev/null 2>&1 && make -C src internal/schema.h internal/version.h >/dev/null 2>&1)
  pids=$(python3 - "$name" <<'PY'
import json, sys
n = sys.argv[1]
try: m = json.load(open("seeded/%s/meta.json" % n))
except Exception: m = {}
p = [n.split("_")[0]] + [x for x in m.get("also_check", []) if x != n.split("_")[0]]
print(" ".join(p))
PY
)
  : > seeded/$name/detection.txt
  for pid in $pids; do
    out=$(VERIF_REPO=$wt python3 tools/check.py $pid --tier ${TIER:-quick} 2>&1); rc=$?
    nv=$(echo "$out" | grep -c "^VIOLATION")
    first=$(echo "$out" | grep "^VIOLATION" | head -1)
    rep=$(echo "$first" | sed -n 's/.*replay=\([^ ]*\).*/\1/p')
    why=""; [ -n "$rep" ] && why=$(grep -E "^(request|oracle|broken):" $rep | cut -c1-260 | tr '\n' '|')
    echo "$name $pid exit=$rc violations=$nv $(echo "$first" | grep -o 'no-failing-input-found') :: $(echo "$why" | cut -c1-200)"
    { echo "check $pid tier=${TIER:-quick} against the changed tree (patch on /repo $head): exit=$rc, $nv VIOLATION line(s)"; echo "$first"; echo "$why"; echo "$out" | tail -1; echo; } >> seeded/$name/detection.txt
  done
  git -C /repo worktree remove --force $wt
done
git -C /repo worktree prune
python3 tools/translate.py >/dev/null
