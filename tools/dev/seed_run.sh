#!/bin/sh
# tools/dev/seed_run.sh <name>… — run the check of the seeded change's property (and any extra property given as name:Cxx)
# against the changed tree /tmp/seedc/<name>; appends the outcome to seeded/<name>/detection.txt
cd "$(dirname "$0")/../.."
for spec in "$@"; do
  name=${spec%%:*}; pid=${spec#*:}; [ "$pid" = "$spec" ] && pid=${name%_*}
  wt=/tmp/seedc/$name
  [ -d $wt ] || { echo "$name: no changed tree"; continue; }
  out=$(VERIF_REPO=$wt python3 tools/check.py $pid --tier ${TIER:-quick} 2>&1)
  rc=$?
  nv=$(echo "$out" | grep -c "^VIOLATION")
  first=$(echo "$out" | grep "^VIOLATION" | head -1)
  rep=$(echo "$first" | sed -n 's/.*replay=\([^ ]*\).*/\1/p')
  why=""; [ -n "$rep" ] && why=$(grep -E "^(request|oracle|broken):" $rep | cut -c1-260 | tr '\n' '|')
  echo "$name $pid tier=${TIER:-quick} exit=$rc violations=$nv $(echo "$first" | grep -o 'no-failing-input-found') :: $why"
  mkdir -p seeded/$name; { echo "check $pid tier=${TIER:-quick} against the changed tree: exit=$rc, $nv VIOLATION line(s)"; echo "$first"; echo "$why"; echo "$out" | tail -1; echo; } >> seeded/$name/detection.txt
done
# restore generated files for the unchanged tree
python3 tools/translate.py >/dev/null
