#!/bin/sh
# tools/dev/seed_prepare.sh <id>… — scratch git worktrees of /repo under /tmp/seed/<id>, configured and built,
# for the independent "seeded change" sub-agents (development aid, not a check)
for id in "$@"; do
  ( d=/tmp/seed/$id; rm -rf $d; git -C /repo worktree prune; git -C /repo worktree add -q --detach $d HEAD && cd $d && ./configure -q >/dev/null 2>&1 && make -j4 >/dev/null 2>&1 && echo "$id ready" ) &
done
wait
