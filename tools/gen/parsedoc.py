"""family `parsedoc` (C01, integrated layer): well-formed CIF 2.0 / CIF 1.1 documents through the REAL integrated parser.

Also the library of the families `parse` (C03) and `defect` (C12): abstract documents, the layout-parametrised renderer
(with token spans and line numbers), `denote` and the canonical dump of harness/cifio.h computed in Python.

Abstract documents (the Python mirror of lean/CifModel/Spec/Grammar.lean):
    doc    = [block];   block = (code, [elem])
    elem   = ("item", name, value) | ("loop", [name], [[value]]) | ("frame", code, [elem])
    value  = ("unk",) | ("na",) | ("str", text, pres) | ("list", [value]) | ("table", [(key, keypres, value)])
    pres   = bare | sq | dq | tsq | tdq | text | fold | prefix | both          (how a string value is PRESENTED)
The content a document denotes does not depend on `pres` except through quoted / unquoted: `bare` gives an unquoted
value, everything else a quoted one (in CIF 1.1 a bare value containing [ ] { } is reported quoted).

Request = the request language of harness/x_parse.c; the expected canonical dump travels as the annotation `| X <dump>`.
Oracle (implementation only): return code 0, no callback, dump = denote(doc)."""
import os, sys
sys.path.insert(0, os.path.dirname(os.path.abspath(__file__)))
from common import rng, hexs, unhexs
from decode import encode as encode_text, ends_bsl_blank

FAMILY = "parsedoc"
HARNESS = {"source": "x_parse.c", "exclude_objs": ["parser"], "leak_clean": True}
RULE = ("grammar-directed random documents (<= 4 blocks, save frames, scalar items, loops <= 4 x 4, lists / tables nested <= 3) x "
        "random layout (blank / tab / newline / comment atoms, case variants of keywords, every admissible presentation of "
        "every string value incl. line-folded and/or prefixed text fields, lines of 2046-2048 characters), CIF 2.0 and CIF 1.1, "
        "default options, targets new / pre-filled with disjoint content; non-trivial = the document has at least one item; "
        "oracle (implementation only): rc 0, no callback, canonical dump = denote(doc)")

# ---------------------------------------------------------------------------------------------------------------------
# units

def units(s):
    out = []
    for ch in s:
        u = ord(ch)
        if u > 0xFFFF:
            u -= 0x10000
            out += [0xD800 + (u >> 10), 0xDC00 + (u & 0x3FF)]
        else:
            out.append(u)
    return out


def hx(s):
    return hexs(units(s)) if isinstance(s, str) else hexs(s)


def nchars(s):
    return len(s)          # Python strings here hold code points; a supplementary character is ONE character of a CIF line


# ---------------------------------------------------------------------------------------------------------------------
# canonical dump (harness/cifio.h, canon = 1) of the content a document denotes

def dump_value(v):
    k = v[0]
    if k == "unk":
        return "U"
    if k == "na":
        return "N"
    if k == "str":
        return "C%d:%s" % (1 if v[2] else 0, hx(v[1]))
    if k == "list":
        return "[" + "".join(" " + dump_value(e) for e in v[1]) + " ]"
    if k == "table":
        return "{" + "".join(" K:%s %s" % (hx(key), dump_value(e)) for key, e in v[1]) + " }"
    raise ValueError(k)


def ukey(s):
    return units(s)


def dump_loop(cat, names, packets):
    idx = sorted(range(len(names)), key=lambda i: ukey(names[i]))
    t = " L:%s:%d" % ("~" if cat is None else hx(cat), len(names))
    t += "".join(" " + hx(names[i]) for i in idx)
    for p in packets:
        t += " P" + "".join(" " + dump_value(p[i]) for i in idx)
    return t + " Z"


def dump_container(c, is_block):
    code, frames, loops = c
    t = " %s:%s" % ("B" if is_block else "F", hx(code))
    t += "".join(sorted((dump_container(f, False) for f in frames), key=lambda x: x.encode()))
    t += "".join(sorted((dump_loop(*l) for l in loops), key=lambda x: x.encode()))
    return t + " E"


def dump_cif(cif):
    t = "".join(sorted((dump_container(b, True) for b in cif), key=lambda x: x.encode()))
    return t if t else " -"


# ---------------------------------------------------------------------------------------------------------------------
# denote: abstract document -> content (values become ("str", text, quoted) etc.)

def has_brackets(s):
    return any(c in s for c in "[]{}")


def denote_value(v, dia):
    k = v[0]
    if k in ("unk", "na"):
        return (k,)
    if k == "str":
        text, pres = v[1], v[2]
        quoted = pres != "bare" or (dia == 1 and has_brackets(text))
        return ("str", text, quoted)
    if k == "list":
        return ("list", [denote_value(e, dia) for e in v[1]])
    if k == "table":
        out = []
        for key, _kp, e in v[1]:
            dv = denote_value(e, dia)
            for i, (k2, _) in enumerate(out):
                if k2 == key:
                    out[i] = (key, dv)
                    break
            else:
                out.append((key, dv))
        return ("table", out)
    raise ValueError(k)


def denote_elems(code, elems, dia):
    frames, loops, scal_names, scal_vals = [], [], [], []
    for e in elems:
        if e[0] == "item":
            scal_names.append(e[1])
            scal_vals.append(denote_value(e[2], dia))
        elif e[0] == "loop":
            loops.append((None, list(e[1]), [[denote_value(v, dia) for v in p] for p in e[2]]))
        elif e[0] == "frame":
            frames.append(denote_elems(e[1], e[2], dia))
    if scal_names:
        loops.append(("", scal_names, [scal_vals]))
    return (code, frames, loops)


def denote(doc, dia):
    return [denote_elems(code, elems, dia) for code, elems in doc]


def merge_content(pre, cif):
    """content of a pre-filled target after a parse of a document whose block codes are disjoint from it"""
    return list(pre) + list(cif)


# ---------------------------------------------------------------------------------------------------------------------
# admissibility of presentations (CIF 2.0 / CIF 1.1 grammar)

RESERVED = ("data_", "save_", "loop_", "stop_", "global_")
CIF1_OK = set(chr(c) for c in range(32, 127)) | {"\t", "\n"}


def is_reserved_word(s):
    l = s.lower()
    return l.startswith("data_") or l.startswith("save_") or l in ("loop_", "stop_", "global_")


def bare_ok(s, dia):
    if not s or s in ("?", "."):
        return False
    if any(c in " \t\n" for c in s):
        return False
    if s[0] in "\"#$'_":
        return False
    if dia == 2 and has_brackets(s):
        return False
    if dia == 1 and (s[0] in "[]" or any(c not in CIF1_OK for c in s)):
        return False
    return not is_reserved_word(s)


def quoted_ok(s, q, dia):
    if "\n" in s:
        return False
    if dia == 2:
        return q not in s
    if any(c not in CIF1_OK for c in s):
        return False
    for i, c in enumerate(s):
        if c == q and i + 1 < len(s) and s[i + 1] in " \t":
            return False
    return True


def triple_ok(s, q, dia):
    return dia == 2 and (q * 3) not in s and not s.endswith(q)


def plain_admissible(s):
    """an unmarked text field reads back as itself in CIF 2.0 iff it starts with ';' or its first line does not end in
    backslash (+ blanks)"""
    return s.startswith(";") or not ends_bsl_blank(s.split("\n")[0])


def text_ok(s, dia):
    if "\n;" in s:
        return False
    if dia == 1:
        return all(c in CIF1_OK for c in s)
    return plain_admissible(s)


def presentations(s, dia, proto=True):
    out = []
    if bare_ok(s, dia):
        out.append("bare")
    for pres, q in (("sq", "'"), ("dq", '"')):
        if quoted_ok(s, q, dia):
            out.append(pres)
    for pres, q in (("tsq", "'"), ("tdq", '"')):
        if triple_ok(s, q, dia):
            out.append(pres)
    if text_ok(s, dia):
        out.append("text")
    if dia == 2 and proto:
        out += ["fold", "prefix", "both"]
    return out


PREFIXES = ["> ", ">", "x", "# ", "a b", "  ", ">>>", "'", "|;", "_", "data_"]


def text_body(r, s, pres):
    """the body of a text field (between the opening ';' and the closing newline + ';') presenting `s`"""
    if pres == "text":
        return s
    for _ in range(20):
        fold = pres in ("fold", "both")
        prefix = r.choice(PREFIXES) if pres in ("prefix", "both") else None
        body = encode_text(r, s, fold, prefix, strict_prefix=r.random() < 0.7)
        if "\n;" not in body and not body.startswith(";"):
            return body
        pres = "both" if fold else "prefix"          # a line would begin with ';' — protect it with a prefix
    return encode_text(r, s, pres in ("fold", "both"), "> ", True)


# ---------------------------------------------------------------------------------------------------------------------
# renderer: document -> text, token spans, line numbers

class Layout:
    """how separators, keywords and presentations are chosen.  style: 'min' (one blank), 'lines' (one element per line),
    'rand' (random atoms)"""
    def __init__(self, r, style="rand", comments=True, dia=2):
        self.r, self.style, self.comments, self.dia = r, style, comments, dia


class Renderer:
    def __init__(self, layout):
        self.l = layout
        self.r = layout.r
        self.out = []          # pieces
        self.col = 0           # characters on the current line so far
        self.line = 1
        self.spans = []        # (kind, start offset, end offset, line at start, line at end) per token
        self.marks = []        # indices into spans of the tokens marked by the defect planter
        self.mark_next = False
        self.pos = 0
        self.need_ws = False   # whitespace is required before the next token

    # -- raw output
    def put(self, s):
        self.out.append(s)
        self.pos += len(s)
        nl = s.count("\n")
        if nl:
            self.line += nl
            self.col = len(s) - s.rfind("\n") - 1
        else:
            self.col += len(s)

    def comment_text(self):
        al = "abc #;'\"_[]{}$\\" + ("é�\U0001f600" if self.l.dia == 2 else "")
        return "#" + "".join(self.r.choice(al) for _ in range(self.r.randint(0, 6)))

    def sep(self, required=True, want_bol=False, closing=False):
        """whitespace between tokens.  want_bol: the next token must begin a line (text field)"""
        r = self.r
        style = self.l.style
        s = ""
        if style == "min":
            s = " " if required else ""
        elif style == "lines":
            s = "\n" if (required and self.col > 0) else ""
        else:
            n = r.choice([1, 1, 1, 2, 3]) if required else r.choice([0, 0, 1, 2])
            for i in range(n):
                k = r.random()
                if k < 0.5:
                    s += " "
                elif k < 0.6:
                    s += "\t"
                elif k < 0.85 or not self.l.comments:
                    s += "\n"
                else:
                    # a comment must be preceded by whitespace (or start the document)
                    if not s and (self.pos > 0):
                        s += " "
                    s += self.comment_text() + "\n"
            if required and not s:
                s = " "
        if self.col + len(s.split("\n")[0]) > 1500 and "\n" not in s and (required or s):
            s += "\n"
        if want_bol and not s.endswith("\n") and not (self.pos == 0 and not s):
            s += "\n"
        if self.pos == 0 and s and not required and style != "rand":
            s = ""
        self.put(s)

    def token(self, kind, text):
        if self.mark_next:
            self.marks.append(len(self.spans))
            self.mark_next = False
        self.spans.append((kind, self.pos, self.pos + len(text), self.line, self.line + text.count("\n")))
        self.put(text)

    # -- grammar
    def kw(self, word):
        if self.l.style == "rand":
            return "".join(c.upper() if self.r.random() < 0.3 else c for c in word)
        return word

    def choose_pres(self, v):
        s, pres = v[1], v[2]
        return pres

    def string(self, s, pres, closing_ok=True):
        """one string value in presentation `pres`; the caller has emitted the separator"""
        if pres == "bare":
            self.token("value", s)
        elif pres in ("sq", "dq"):
            q = "'" if pres == "sq" else '"'
            self.token("qvalue", q + s + q)
        elif pres in ("tsq", "tdq"):
            q = "'''" if pres == "tsq" else '"""'
            self.token("qvalue", q + s + q)
        else:
            body = text_body(self.r, s, pres)
            self.token("tvalue", ";" + body + "\n;")

    def value(self, v, first_sep=True, required=True):
        k = v[0]
        if k == "skip":                       # (defect planting) a value that is simply not there
            return
        if k == "mark":                       # (defect planting) mark the first token of the value
            self.mark_next = True
            return self.value(v[1], first_sep, required)
        if k == "str" and v[2] in ("text", "fold", "prefix", "both"):
            if first_sep:
                self.sep(required, want_bol=True)
            elif self.col != 0:
                self.put("\n")
        elif first_sep:
            self.sep(required)
            if k == "str" and v[2] == "bare" and v[1].startswith(";") and self.col == 0:
                self.put(" ")
        if k == "unk":
            self.token("value", "?")
        elif k == "na":
            self.token("value", ".")
        elif k == "rawv":                     # (defect planting) literal text in value position
            self.mark_next = True
            self.token("raw", v[1])
        elif k == "str":
            self.string(v[1], v[2])
        elif k == "list":
            self.token("olist", "[")
            first = True
            for e in v[1]:
                self.value(e, True, required=not first)
                first = False
            if len(v) < 3 or v[2]:
                # whitespace is not required before the closing bracket
                self.sep(False)
                self.token("clist", "]")
        elif k == "table":
            self.token("otable", "{")
            first = True
            for key, kp, e in v[1]:
                self.sep(not first)
                first = False
                if kp in ("sq", "dq", "tsq", "tdq"):
                    q = {"sq": "'", "dq": '"', "tsq": "'''", "tdq": '"""'}[kp]
                    self.token("key", q + key + q + ":")
                elif kp == "bare":            # (defect planting) unquoted key
                    self.mark_next = True
                    self.token("key", key + ":")
                elif kp == "text":            # text-field key
                    if self.col != 0:
                        self.put("\n")
                    self.mark_next = True
                    self.token("key", ";" + key + "\n;:")
                elif kp == "null":            # colon without any key
                    self.mark_next = True
                    self.token("key", ":")
                elif kp == "none":            # no key at all: the value alone
                    self.mark_next = True
                    self.value(e, first_sep=False)
                    continue
                # no whitespace between the colon and the value (a text field needs its line break, which the
                # grammar does not allow here: such values are presented differently by fix_table_values)
                if e[0] == "none":
                    continue
                self.value(e, first_sep=False)
            if len(v) < 3 or v[2]:
                self.sep(False)
                self.token("ctable", "}")

    def name(self, n):
        if isinstance(n, tuple):              # (defect planting) ("mark", name)
            self.mark_next = True
            n = n[1]
        self.token("name", n)

    def elems(self, elems):
        for e in elems:
            if e[0] == "item":
                self.sep(self.pos > 0)
                self.name(e[1])
                self.value(e[2])
            elif e[0] == "noval":             # (defect planting) a data name without a value
                self.sep(self.pos > 0)
                self.mark_next = True
                self.token("name", e[1])
            elif e[0] == "loop":
                self.sep(self.pos > 0)
                self.token("loopkw", self.kw("loop_"))
                for n in e[1]:
                    self.sep()
                    self.name(n)
                for p in e[2]:
                    for v in p:
                        self.value(v)
            elif e[0] == "frame":
                self.sep(self.pos > 0)
                if len(e) > 4 and e[4]:
                    self.mark_next = True
                self.token("framehead", self.kw("save_") + e[1])
                self.elems(e[2])
                if len(e) < 4 or e[3]:
                    self.sep()
                    self.token("frameterm", self.kw("save_"))
            elif e[0] == "raw":
                # a planted piece of text (family `defect`): (raw, text, separator-before?)
                if e[2]:
                    self.sep(self.pos > 0)
                self.mark_next = True
                self.token("raw", e[1])

    def doc(self, doc, lead_ws=True, trail_ws=True, magic=False):
        if magic:
            self.put("#\\#CIF_2.0\n" if self.l.dia == 2 else "#\\#CIF_1.1\n")
        elif lead_ws and self.l.style == "rand" and self.r.random() < 0.3:
            self.put(self.r.choice(["\n", " ", "#c\n", "\t\n"]))
        for b in doc:
            code, elems = b[0], b[1]
            if code is None:                  # (defect planting) content before the first block header
                self.elems(elems)
                continue
            self.sep(self.pos > 0)
            if len(b) > 2 and b[2]:
                self.mark_next = True
            self.token("blockhead", self.kw("data_") + code)
            self.elems(elems)
        if trail_ws and self.l.style == "rand":
            self.sep(False)
        return "".join(self.out)


def render(doc, r, dia, style="rand", comments=True, magic=False):
    rd = Renderer(Layout(r, style, comments, dia))
    text = rd.doc(doc, magic=magic)
    return text, rd.spans


def render_marked(doc, r, dia, style="lines", trail=""):
    """-> text, spans, marks (indices of the marked tokens)"""
    rd = Renderer(Layout(r, style, False, dia))
    text = rd.doc(doc, lead_ws=False, trail_ws=False) + trail
    return text, rd.spans, rd.marks


def max_line_chars(text):
    return max(len(l) for l in text.split("\n"))


# ---------------------------------------------------------------------------------------------------------------------
# random documents

TXT2 = list("abdegloptsv_#$'\";:\\?.[]{} \t\n") + ["é", "中", "�", "\U0001f600", ">", "x", "0", "1"]
TXT1 = list("abdegloptsv_#$'\";:\\?.[]{} \t\n>x01")
BARE = list("abcxyz019+-.e()") + [";", ":", "?", "#", "$", "'", "_", "\\"]
NAMES = ["_a", "_B", "_c", "_item.x", "_Item.Y", "_q", "_Z9", "_d", "_e[1]", "_f", "_g'", "_h#", "_data_x", "_loop_", "_$", "_;"]
NAMES2 = NAMES + ["_été", "_\U0001f600", "_中"]
CODES = ["a", "B", "c1", "blk", "x_y", "d.e", "1", "q'", "w#", "$v", "_u", "data_", "loop_"]
CODES2 = CODES + ["é1", "\U0001f600", "z[1]", "{k}"]


def rand_string(r, dia):
    al = TXT2 if dia == 2 else TXT1
    k = r.random()
    if k < 0.3:
        n = r.choice([1, 1, 2, 3, 5])
        return "".join(r.choice(BARE) for _ in range(n))
    if k < 0.4:
        return r.choice(["", "?", ".", "data_", "loop_", "stop_", "global_", "save_", "DATA_x", "save_f", "1.5(3)", "-1e5", ";", ";a", "\\", "a\\", "a\\ ",
                         "\\\\", "> \\", "''", '""', "'''", '"""', "a'b", 'a"b', "a' b", 'a" b', "[a]", "{b}", "a[", "x]y", "#c", "$d", "_n"])
    n = r.choice([1, 2, 3, 4, 6, 8, 12])
    return "".join(r.choice(al) for _ in range(n))


def rand_value(r, dia, depth=2):
    k = r.random()
    if dia == 2 and depth > 0 and k < 0.15:
        return ("list", [rand_value(r, dia, depth - 1) for _ in range(r.randint(0, 3))])
    if dia == 2 and depth > 0 and k < 0.28:
        ents, seen = [], set()
        for _ in range(r.randint(0, 3)):
            for _try in range(5):
                key = "".join(r.choice(list("abAB _'\":;?[]") + ["é", "\U0001f600"]) for _ in range(r.randint(0, 4)))
                kps = [p for p in presentations(key, 2, proto=False) if p in ("sq", "dq", "tsq", "tdq")]
                if key not in seen and kps:
                    seen.add(key)
                    ents.append((key, r.choice(kps), rand_value(r, dia, depth - 1)))
                    break
        return ("table", ents)
    if k < 0.34:
        return ("unk",)
    if k < 0.40:
        return ("na",)
    for _ in range(50):
        s = rand_string(r, dia)
        ps = presentations(s, dia)
        if ps:
            # favour the presentations that are rarer
            return ("str", s, r.choice(ps))
    return ("str", "x", "bare")


def fix_table_values(v):
    """a text field cannot directly follow a table key's colon in a well-formed document (no line break is allowed there):
    present such values differently"""
    if v[0] == "list":
        return ("list", [fix_table_values(e) for e in v[1]])
    if v[0] == "table":
        out = []
        for key, kp, e in v[1]:
            e = fix_table_values(e)
            if e[0] == "str" and e[2] in ("text", "fold", "prefix", "both"):
                alt = [p for p in presentations(e[1], 2, proto=False) if p not in ("text",)]
                # a bare value beginning with ';' would be fine too (not at column 1 after a colon)
                e = ("str", e[1], alt[0]) if alt else ("str", "t", "sq")
            out.append((key, kp, e))
        return ("table", out)
    return v


def uniq(r, pool, n, used, key=lambda s: s.lower()):
    out = []
    cands = list(pool)
    r.shuffle(cands)
    for c in cands:
        if len(out) >= n:
            break
        if key(c) not in used:
            used.add(key(c))
            out.append(c)
    return out


def rand_elems(r, dia, size, allow_frames, depth, nest=0):
    used, fused, out = set(), set(), []
    names_pool = NAMES2 if dia == 2 else NAMES
    for _ in range(r.randint(0, size)):
        k = r.random()
        if k < 0.55:
            n = uniq(r, names_pool, 1, used)
            if n:
                out.append(("item", n[0], fix_table_values(rand_value(r, dia, depth))))
        elif k < 0.8:
            ns = uniq(r, names_pool, r.randint(1, 4), used)
            if ns:
                pk = [[fix_table_values(rand_value(r, dia, depth)) for _ in ns] for _ in range(r.randint(1, 4))]
                out.append(("loop", ns, pk))
        elif allow_frames:
            c = uniq(r, CODES2 if dia == 2 else CODES, 1, fused)
            if c:
                # `nest` = how many further levels of save frames may follow inside this one
                out.append(("frame", c[0], rand_elems(r, dia, max(1, size - 2), nest > 0, depth, nest - 1)))
    return out


def rand_doc(r, dia, size=5, depth=2, avoid=(), nest=0):
    used = set(a.lower() for a in avoid)
    codes = uniq(r, CODES2 if dia == 2 else CODES, r.randint(1, 4) if size > 1 else 1, used)
    return [(c, rand_elems(r, dia, size, True, depth, nest)) for c in codes]


def frame_depth(doc):
    def de(elems):
        return max([1 + de(e[2]) for e in elems if e[0] == "frame"] + [0])
    return max([de(b[1]) for b in doc] + [0])


def count_items(doc):
    def ce(elems):
        return sum(1 if e[0] == "item" else (len(e[1]) if e[0] == "loop" else ce(e[2])) for e in elems)
    return sum(ce(b[1]) for b in doc)


# ---------------------------------------------------------------------------------------------------------------------
# requests

PRE_CIF = [("pre1", [], [("", ["_p"], [[("str", "v", False)]])]),
           ("pre2", [("fr", [], [("", ["_q"], [[("str", "w w", True)]])])], [(None, ["_l1", "_l2"], [[("str", "1", False), ("unk",)]])])]


def content_tokens(cif):
    """the content in the token language of harness/cifio.h (for `pre`)"""
    def val(v):
        return dump_value(v).split(" ")
    def cont(c, is_block):
        code, frames, loops = c
        t = ["%s:%s" % ("B" if is_block else "F", hx(code))]
        for f in frames:
            t += cont(f, False)
        for cat, names, packets in loops:
            t.append("L:%s:%d" % ("~" if cat is None else hx(cat), len(names)))
            t += [hx(n) for n in names]
            for p in packets:
                t.append("P")
                for v in p:
                    t += val(v)
            t.append("Z")
        return t + ["E"]
    out = []
    for b in cif:
        out += cont(b, True)
    return out


def make_request(fam, text, dia=2, mfd=1, fold=0, prefix=0, ews="", eeol="", nutf8=0, policy="a", target="e", pre=None, note=None):
    t = [fam, str(dia), str(mfd), str(fold), str(prefix), hx(ews), hx(eeol), str(nutf8), policy, target, hx(text)]
    if target == "p":
        t += ["pre"] + content_tokens(pre if pre is not None else PRE_CIF)
    if note:
        t += ["|"] + note
    return " ".join(t)


def split_request(req):
    """-> dict(dia, mfd, fold, prefix, ews, eeol, nutf8, policy, target, units, note)"""
    t = req.split(" ")
    note = []
    if "|" in t:
        i = t.index("|")
        note = t[i + 1:]
        t = t[:i]
    return {"fam": t[0], "dia": int(t[1]), "mfd": int(t[2]), "fold": int(t[3]), "prefix": int(t[4]), "ews": unhexs(t[5]),
            "eeol": unhexs(t[6]), "nutf8": int(t[7]), "policy": t[8], "target": t[9], "units": unhexs(t[10]), "rest": t[11:],
            "note": note}


def split_impl(impl):
    """`ps rc= n= log= ptr= kinds= cif=<dump> post=` -> dict, or None"""
    if not impl.startswith("ps rc="):
        return None
    try:
        head, rest = impl.split(" cif=", 1)
        f = dict(x.split("=", 1) for x in head.split(" ")[1:])
        post = None
        if " post=" in rest:
            rest, post = rest.rsplit(" post=", 1)
        aa = None
        if post is not None and " aa=" in post:
            post, aa = post.split(" aa=", 1)
        log = [] if f["log"] == "-" else [tuple(int(y) for y in x.split(":")) for x in f["log"].split(",")]
        return {"rc": int(f["rc"]), "n": int(f["n"]), "log": log, "ptr": f.get("ptr"), "cif": rest, "post": post, "aa": aa}
    except (ValueError, KeyError):
        return None


def core(obs):
    """the part of an observation the model also produces"""
    d = split_impl(obs)
    if d is None:
        return obs
    return (d["rc"], d["n"], tuple(d["log"]), d["cif"].rstrip())


def subst_dump(dump, ews, eeol):
    """identity of extra whitespace / end-of-line units inside delimited strings is not modelled: map them as the model does"""
    if not ews and not eeol:
        return dump
    toks = dump.split(" ")
    def fix(h):
        if len(h) % 4 or h in ("-", "~"):
            return h
        us = [h[i:i + 4] for i in range(0, len(h), 4)]
        return "".join("000a" if int(u, 16) in eeol else ("0009" if int(u, 16) in ews else u) for u in us)
    res = []
    for tk in toks:
        if ":" in tk and tk[0] in "CKBFM" and not tk.startswith("L:"):
            a, b = tk.split(":", 1)
            res.append(a + ":" + fix(b))
        else:
            res.append(tk)
    return " ".join(res)


def store_units(dump):
    """U+FFFE / U+FFFF (reported as disallowed by the scanner, kept when the callback accepts) come back from the SQLite store
    as U+FFFD — storage fidelity is property C07's, not modelled here: identify the three in both dumps"""
    if "fffe" not in dump and "ffff" not in dump:
        return dump
    res = []
    for tk in dump.split(" "):
        if ":" in tk and tk[0] in "CKBFM":
            a, b = tk.split(":", 1)
            if len(b) % 4 == 0:
                b = "".join("fffd" if b[i:i + 4] in ("fffe", "ffff") else b[i:i + 4] for i in range(0, len(b), 4))
            tk = a + ":" + b
        elif len(tk) % 4 == 0 and len(tk) >= 4 and all(c in "0123456789abcdef" for c in tk):
            tk = "".join("fffd" if tk[i:i + 4] in ("fffe", "ffff") else tk[i:i + 4] for i in range(0, len(tk), 4))
        res.append(tk)
    return " ".join(res)


def agree(impl, model, req=None):
    ci, cm = core(impl), core(model)
    if ci == cm:
        return True
    if req is not None and extra_in_key(impl, req):
        return True
    if not (isinstance(ci, tuple) and isinstance(cm, tuple)) or ci[:3] != cm[:3]:
        return False
    di, dm = store_units(ci[3]), store_units(cm[3])
    if req is not None:
        d = split_request(req)
        if 0xFFFE in d["units"] or 0xFEFF in d["units"][1:]:
            # a stored string that begins with U+FEFF / U+FFFE is altered by SQLite's UTF-16 binding (byte-order mark):
            # storage fidelity is not this family's subject — return value and log only
            return True
        if d["ews"] or d["eeol"]:
            di, dm = subst_dump(di, d["ews"], d["eeol"]), subst_dump(dm, d["ews"], d["eeol"])
    return di == dm


def extra_in_key(impl, req):
    """the one place where the IDENTITY of an extra whitespace / end-of-line character is observable: inside a quoted table
    key such a character (U+000B, U+000C: refused by cif_has_disallowed_chars) makes parse_table report CIF_INVALID_INDEX
    (since 8375485; before: fail with 73 silently, finding D8).  The model sees TAB / LF there (ASSUMPTIONS) and does not
    report, so these requests are left to the oracle (which still demands that a failure was reported)."""
    d = split_request(req)
    o = split_impl(impl)
    extra = list(d["ews"]) + list(d["eeol"])
    return bool(o and extra and any(u in d["units"] for u in extra) and any(c == 73 for c, _ in o["log"]))


def post_ok(d, aborted=False):
    """C03 'consistent afterwards' on the observation: walk, write, modify, destroy.  A parse that was ABORTED (non-zero
    return value, or stopped by a non-zero answer of the callback) may leave the loop it was filling without packets
    (cif.h documents that state as transient); cif_walk then answers CIF_EMPTY_LOOP."""
    if d["post"] in (None, "~"):
        return None
    try:
        w, o, m, x = [int(v) for v in d["post"].split(",")]
    except ValueError:
        return "unreadable post-parse observation %r" % d["post"]
    if x != 0:
        return "cif_destroy after the parse returned %d" % x
    if m != 0:
        return "modifying the CIF after the parse failed with %d" % m
    if w not in (0, 36) or (w == 36 and d["rc"] == 0 and not aborted):
        return "cif_walk after the parse returned %d" % w
    return None


def oracle(req, impl):
    d = split_request(req)
    o = split_impl(impl)
    if o is None:
        return None if impl.startswith(("SAN:", "CRASH:", "TIMEOUT")) else "unreadable observation: " + impl[:80]
    if "X" not in d["note"]:
        return None
    expected = " " + " ".join(d["note"][d["note"].index("X") + 1:])
    if o["rc"] != 0:
        return "well-formed document: cif_parse returned %d" % o["rc"]
    if o["log"]:
        return "well-formed document: error callback invoked with code %d at line %d" % o["log"][0]
    if o["ptr"] != "ok":
        return "callback text pointer outside the scan buffer"
    if d["target"] != "n" and o["cif"].rstrip() != expected.rstrip():
        return "parsed content differs from what the document denotes"
    return post_ok(o)


def nontrivial(req, impl):
    return len(req) > 200


def classify(req, impl):
    d = split_request(req)
    return "cif%d/%s" % (d["dia"], d["target"])


def finding_class(req, impl, model, why):
    return None


def shrink(req):
    """no structural shrinker: the generic hex shrinker would invalidate the expected-dump annotation"""
    return []


def gen_docs(r, n, dias=(2, 1)):
    for i in range(n):
        dia = 2 if r.random() < 0.7 else 1
        if dia not in dias:
            dia = dias[0]
        # every fourth document may nest save frames (up to three levels); those are parsed with max_frame_depth < 0
        doc = rand_doc(r, dia, size=r.choice([1, 2, 4, 6]), depth=r.choice([0, 1, 2, 3]), nest=r.choice([0, 0, 0, 2]))
        yield dia, doc


def generate(seed, tier):
    r = rng(seed, FAMILY)
    n = 1200 if tier == "quick" else 60000
    for dia, doc in gen_docs(r, n):
        style = r.choice(["rand", "rand", "rand", "min", "lines"])
        text, _ = render(doc, r, dia, style, magic=r.random() < 0.2)
        if max_line_chars(text) > 2048:
            continue
        target = r.choice(["e", "e", "e", "p", "n"])
        content = denote(doc, dia)
        pre = None
        if target == "p":
            content = merge_content(PRE_CIF, content)
        note = ["X"] + dump_cif(content).split(" ")[1:]
        mfd = -1 if frame_depth(doc) > 1 else (1 if r.random() < 0.8 else -1)
        yield make_request("parse", text, dia=dia, mfd=mfd, target=target, note=note)
    # boundary: lines of 2046..2048 characters in every kind of token (admissible: <= 2048)
    for dia in (2, 1):
        for n_ in (2046, 2047, 2048):
            for kind in range(6):
                fill = "a" * 3000
                if kind == 0:
                    doc = [("a", [("item", "_x", ("str", fill[:n_ - 5], "bare"))])]
                    text = "data_a\n_x  " + fill[:n_ - 4] + "\n"
                    doc = [("a", [("item", "_x", ("str", fill[:n_ - 4], "bare"))])]
                elif kind == 1:
                    text = "data_a\n_x '" + fill[:n_ - 5] + "'\n"
                    doc = [("a", [("item", "_x", ("str", fill[:n_ - 5], "sq"))])]
                elif kind == 2:
                    text = "data_a _x\n;" + fill[:n_ - 1] + "\n" + fill[:n_] + "\n;\n"
                    doc = [("a", [("item", "_x", ("str", fill[:n_ - 1] + "\n" + fill[:n_], "text"))])]
                elif kind == 3:
                    if dia == 1:
                        continue
                    text = "data_a _x\n'''" + fill[:n_ - 3] + "\n" + fill[:n_ - 3] + "'''\n"
                    doc = [("a", [("item", "_x", ("str", fill[:n_ - 3] + "\n" + fill[:n_ - 3], "tsq"))])]
                elif kind == 4:
                    text = "data_a\n#" + fill[:n_ - 1] + "\n_x 1\n"
                    doc = [("a", [("item", "_x", ("str", "1", "bare"))])]
                else:
                    text = "data_a\n_" + fill[:n_ - 3] + " 1\n"
                    doc = [("a", [("item", "_" + fill[:n_ - 3], ("str", "1", "bare"))])]
                note = ["X"] + dump_cif(denote(doc, dia)).split(" ")[1:]
                yield make_request("parse", text, dia=dia, note=note)
