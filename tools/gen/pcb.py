"""family `pcb` (C15): cif_parse with handler / syntax / error callbacks, storing and syntax-only, under handler programs.

request:  pcb doc <hex text> toks <T…>* prog <k>:<resp> ...
            token  T<ty>;<segs>;<payload>    ty in bh fh ft lk nm ot ct ol cl key val qval tval end
                   segs = comma-separated w<hex> (whitespace run) / c<hex> (comment) preceding the token
                   payload = hex text (block/frame code, data name, key; `-` otherwise) or, for value tokens, the decoded
                             value U | N | C<q>:<hex>
impl:     pc S rc= n= log= <events> cif= <canonical dump> N rc= n= log= <events>        (harness/x_pcb.c)
model:    the same line

The generator renders well-formed CIF 2.0 documents from an abstract document with a simple random layout, so it knows
the token sequence.  The oracle restates C15 over the implementation's observation alone (independent of the model); it
is tolerant where the property is silent (DESIGN.md C15 reading notes)."""
import os, sys, unicodedata
sys.path.insert(0, os.path.dirname(os.path.abspath(__file__)))
from common import hexs, unhexs, rng

FAMILY = "pcb"
HARNESS = {"source": "x_pcb.c", "leak_clean": True}
RULE = ("well-formed CIF 2.0 documents (<= 3 blocks, one level of save frames, scalar items, loops <= 3 names x <= 3 "
        "packets, values incl. nested lists/tables, text fields, triple-quoted strings, comments) rendered with random "
        "layout x every handler program deviating from CONTINUE at <= 1 handler invocation (quick) / <= 2 (thorough) with "
        "responses {-1,-2,-3,7,1} and a spread of other return values (1, 2, 33, 36, 43, 104, 134, 100000, -4, -5) at every "
        "handler invocation, random programs beyond, each in storing and syntax-only mode; non-trivial = a deviation "
        "is reached; plus targeted programs bypassing loops from inside (loop_start SKIP_CURRENT, packet_start/packet_end "
        "SKIP_SIBLINGS, item SKIP_SIBLINGS in a non-last packet, all packets of a loop bypassed); oracle (implementation "
        "only): C15 restated over log + final CIF, strict on loop_end / packet_end / later packets / stored packets")

CONT, SKIP_CUR, SKIP_SIB, END = 0, -1, -2, -3
RESPS = [-1, -2, -3, 7, 1]
# a spread of non-navigation return values (see tools/gen/walk.py); 1000 / 1001 are avoided (internal codes of the model)
CODES = [1, 2, 33, 36, 43, 104, 134, 100000, -4, -5]


def ustr(s):
    """python str -> list of UTF-16 code units"""
    out = []
    for ch in s:
        u = ord(ch)
        if u > 0xFFFF:
            u -= 0x10000
            out += [0xD800 + (u >> 10), 0xDC00 + (u & 0x3FF)]
        else:
            out.append(u)
    return out


def hx(s):
    return hexs(s)


# ------------------------------------------------------------------------------------------------ abstract documents
# doc      = [block];  block = ("b", code, [element]);  frame = ("f", code, [element without frames])
# element  = ("i", name, value) | ("l", [name], [[value]]) | frame
# value    = ("U",) | ("N",) | ("C", quoted 0/1, text, style) | ("L", [value]) | ("T", [(key, keystyle, value)])

UNQ_ALPHA = list("abcxyzABC0123456789+-.")
TXT_ALPHA = list("abc xyz019_#$;:[]{}?.,") + ["é", "中", "\U0001f600"]
RESERVED = ("data_", "save_", "loop_", "stop_", "global_")


def ok_unquoted(s):
    if not s or s in ("?", "."):
        return False
    if s[0] in "_#$'\";[]{}":
        return False
    if any(c in " \t\n\r[]{}" for c in s):
        return False
    low = s.lower()
    return not low.startswith(RESERVED)


def rand_unquoted(r):
    for _ in range(50):
        s = "".join(r.choice(UNQ_ALPHA) for _ in range(r.randint(1, 5)))
        if ok_unquoted(s):
            return s
    return "v"


def rand_text(r, allow_nl, allow_sq=True, allow_dq=True):
    al = list(TXT_ALPHA)
    if allow_sq:
        al.append("'")
    if allow_dq:
        al.append('"')
    if allow_nl:
        al += ["\n", "\n"]
    return "".join(r.choice(al) for _ in range(r.choice([0, 1, 2, 3, 5, 8])))


def rand_value(r, depth=2):
    k = r.random()
    if depth > 0 and k < 0.12:
        return ("L", [rand_value(r, depth - 1) for _ in range(r.randint(0, 3))])
    if depth > 0 and k < 0.22:
        ents, seen = [], set()
        for _ in range(r.randint(0, 3)):
            key = rand_text(r, False, allow_sq=False, allow_dq=True)
            kstyle = "sq"
            if '"' not in key and r.random() < 0.5:
                kstyle = "dq"
            nk = unicodedata.normalize("NFC", key)
            if nk in seen:
                continue
            seen.add(nk)
            ents.append((key, kstyle, rand_value(r, depth - 1)))
        return ("T", ents)
    if k < 0.30:
        return ("U",)
    if k < 0.36:
        return ("N",)
    if k < 0.62:
        return ("C", 0, rand_unquoted(r), "unq")
    style = r.choice(["sq", "sq", "dq", "dq", "tsq", "tdq", "text", "text"])
    if style == "sq":
        return ("C", 1, rand_text(r, False, allow_sq=False), style)
    if style == "dq":
        return ("C", 1, rand_text(r, False, allow_dq=False), style)
    if style == "tsq":
        return ("C", 1, rand_text(r, True, allow_sq=False), style)
    if style == "tdq":
        return ("C", 1, rand_text(r, True, allow_dq=False), style)
    t = rand_text(r, True)
    while "\n;" in t:
        t = t.replace("\n;", "\n ;")
    return ("C", 1, t, "text")


NAMES = ["_a", "_B", "_c", "_item.x", "_Item.Y", "_été", "_q", "_Z9", "_d", "_e", "_f", "_g"]


def rand_elements(r, size, allow_frames, fcodes):
    els = []
    names = list(NAMES)
    r.shuffle(names)
    for _ in range(r.randint(0, size["elements"])):
        k = r.random()
        if allow_frames and k < 0.25 and fcodes:
            els.append(("f", fcodes.pop(), rand_elements(r, size, False, fcodes)))
        elif k < 0.6 and names:
            els.append(("i", names.pop(), rand_value(r)))
        elif len(names) >= 1:
            n = min(len(names), r.randint(1, size["names"]))
            ns = [names.pop() for _ in range(n)]
            pk = [[rand_value(r, 1) for _ in ns] for _ in range(r.randint(1, size["pkts"]))]
            els.append(("l", ns, pk))
    return els


def rand_doc(r, size):
    bcodes = ["b1", "B2", "é3", "x"]
    fcodes = ["f1", "F2", "s3", "Fé", "g5", "h6"]
    r.shuffle(bcodes)
    r.shuffle(fcodes)
    return [("b", bcodes.pop(), rand_elements(r, size, True, fcodes)) for _ in range(r.randint(0 if r.random() < 0.05 else 1, size["blocks"]))]


def norm(s):
    """name / code equivalence as far as the generator varies spellings: ASCII case folding"""
    return "".join(chr(ord(ch) + 32) if "A" <= ch <= "Z" else ch for ch in s)


def respell(r, s):
    """another spelling of the same (normalised) name: ASCII letters change case"""
    out = "".join((ch.swapcase() if ch.isascii() and ch.isalpha() and r.random() < 0.6 else ch) for ch in s)
    return out


def plant_dups(r, doc, size):
    """duplicate data names (scalar against scalar / loop, loop header against container / itself), duplicate frame codes
    and duplicate block codes — the second occurrence in the same or another ASCII-case spelling"""
    doc = [(b[0], b[1], list(b[2])) for b in doc]

    def names_of(els):
        out = []
        for e in els:
            if e[0] == "i":
                out.append(e[1])
            elif e[0] == "l":
                out += list(e[1])
        return out

    def dup_in(els, allow_frames):
        ns = names_of(els)
        k = r.random()
        if ns and k < 0.35:
            # a scalar item with a name the container already has (or will have: the FIRST occurrence wins)
            n = r.choice(ns)
            els.insert(r.randint(0, len(els)), ("i", respell(r, n) if r.random() < 0.5 else n, rand_value(r)))
        elif ns and k < 0.6:
            # a loop whose header repeats a name of the container and / or one of its own
            n = r.choice(ns)
            fresh = [x for x in ["_n1", "_n2", "_N3"] if norm(x) not in {norm(y) for y in ns}]
            hdr = [fresh[0], respell(r, n) if r.random() < 0.5 else n] if fresh else [n]
            if fresh and r.random() < 0.5:
                hdr.append(respell(r, fresh[0]))          # repeats a name of its own header
            if fresh and r.random() < 0.3:
                r.shuffle(hdr)
                if norm(hdr[0]) in {norm(y) for y in ns} and len(hdr) > 1:
                    hdr[0], hdr[1] = hdr[1], hdr[0]
            pk = [[rand_value(r, 1) for _ in hdr] for _ in range(r.randint(1, size["pkts"]))]
            els.insert(r.randint(0, len(els)), ("l", hdr, pk))
        elif allow_frames and k < 0.85:
            fr = [e for e in els if e[0] == "f"]
            if fr:
                f = r.choice(fr)
                sub = rand_elements(r, size, False, [])
                if f[2] and r.random() < 0.7:
                    # some content that collides with the frame's earlier content
                    n = r.choice(names_of(f[2]) or ["_q"])
                    sub.insert(0, ("i", n, rand_value(r)))
                els.append(("f", respell(r, f[1]) if r.random() < 0.5 else f[1], sub))
        else:
            for e in els:
                if e[0] == "f" and r.random() < 0.5:
                    dup_in(e[2], False)
                    break

    for _ in range(r.randint(1, 3)):
        k = r.random()
        if k < 0.3 and doc:
            b = r.choice(doc)
            sub = rand_elements(r, size, True, ["z8", "Z9x"])
            ns = names_of(b[2])
            if ns and r.random() < 0.7:
                sub.insert(0, ("i", r.choice(ns), rand_value(r)))
            doc.append(("b", respell(r, b[1]) if r.random() < 0.5 else b[1], sub))
        elif doc:
            dup_in(r.choice(doc)[2], True)
    # a loop header may not lose all its names (every name dropped: outside the model)
    return doc


def plant_defects(r, doc):
    """token-level defects whose recovery runs handler code (accepting error callback): CIF_PARTIAL_PACKET (the last packet of a loop
    truncated), CIF_EMPTY_LOOP (a header without values), CIF_NULL_LOOP (`loop_` without names), CIF_MISSING_VALUE (a data name
    followed by no value), CIF_UNEXPECTED_VALUE (a value in element position).  What the text really contains is read back from the
    rendered tokens (doc_of_tokens), so an unlucky neighbourhood only changes which defect the case exercises."""
    def copy(els):
        return [("f", e[1], copy(e[2])) if e[0] == "f" else e for e in els]
    doc = [("b", b[1], copy(b[2])) for b in doc]
    if not doc:
        return doc

    def bodies(els, out):
        out.append(els)
        for e in els:
            if e[0] == "f":
                bodies(e[2], out)
        return out

    def nonvalue_follows(els, i):
        return i + 1 >= len(els) or els[i + 1][0] != "x"

    for _ in range(r.randint(1, 2)):
        els = r.choice(bodies(r.choice(doc)[2], []))
        k = r.random()
        loops = [i for i, e in enumerate(els) if e[0] == "l" and e[1] and e[2]]
        if k < 0.4 and loops:
            i = r.choice(loops)
            _, ns, pk = els[i]
            if len(ns) >= 2 and nonvalue_follows(els, i):
                cut = r.randint(1, len(ns) - 1)
                els[i] = ("l", ns, [list(p) for p in pk[:-1]] + [list(pk[-1][:cut])])      # partial packet
            elif len(ns) == 1 and nonvalue_follows(els, i):
                # one column: add a second name so that the last packet can be short
                ns2 = ns + ["_pp%d" % r.randint(0, 9)]
                els[i] = ("l", ns2, [list(p) + [rand_value(r, 1)] for p in pk[:-1]] + [list(pk[-1])])
        elif k < 0.55 and loops:
            i = r.choice(loops)
            if i + 1 >= len(els) or els[i + 1][0] in ("l", "f"):
                els[i] = ("l", els[i][1], [])                                                # empty loop
            else:
                els.append(("l", ["_el%d" % r.randint(0, 9)], []))
        elif k < 0.7:
            els.append(("l", [], []))                                                        # null loop at the end
            if r.random() < 0.5:
                els.append(("x", rand_value(r, 1)))
        elif k < 0.85:
            i = r.randint(0, len(els))
            if i >= len(els) or els[i][0] != "x":
                els.insert(i, ("i", "_mv%d" % r.randint(0, 9), None))                        # missing value
        else:
            ok = [i for i in range(len(els) + 1) if i == 0 or els[i - 1][0] == "f" or (els[i - 1][0] == "i" and els[i - 1][2] is not None)
                  or (els[i - 1][0] == "l" and not els[i - 1][1])]
            if ok:
                els.insert(r.choice(ok), ("x", rand_value(r, 1)))                            # unexpected value
    return doc


def header_ok(doc):
    """no loop header can lose all its names: its first name is new to everything the (possibly reopened) container could
    hold, whatever was skipped before"""
    blocks = {}

    def els_ok(es, seen, frames):
        for e in es:
            if e[0] == "i":
                seen.add(norm(e[1]))
            elif e[0] == "x" or (e[0] == "l" and not e[1]):
                pass
            elif e[0] == "l":
                if norm(e[1][0]) in seen:
                    return False
                seen |= {norm(n) for n in e[1]}
            else:
                fseen = frames.setdefault(norm(e[1]), set())
                if not els_ok(e[2], fseen, {}):
                    return False
        return True
    for b in doc:
        seen, frames = blocks.setdefault(norm(b[1]), (set(), {}))
        if not els_ok(b[2], seen, frames):
            return False
    return True


# ------------------------------------------------------------------------------------------------ rendering

def gen_ws(r, layout, nl_end=False, allow_empty=False, first=False):
    """-> list of segments ("w"|"c", text)"""
    if layout == "min":
        if first:
            return [("c", "#\\#CIF_2.0"), ("w", "\n")]
        if allow_empty and not nl_end:
            return []
        return [("w", "\n" if nl_end else " ")]
    segs = []
    if first:
        segs = [("c", "#\\#CIF_2.0" + r.choice(["", "", " "])), ("w", r.choice(["\n", "\n\n", "\n  "]))]
        if r.random() < 0.2:
            segs += [("c", "# a comment"), ("w", "\n")]
    else:
        if allow_empty and r.random() < 0.35 and not nl_end:
            return []
        w1 = r.choice([" ", " ", "\n", "  ", "\t", "\n\n ", " \n", "\n  "])
        segs = [("w", w1)]
        if r.random() < 0.15:
            segs += [("c", "#" + r.choice(["", " note", "_x 1", " data_z", "#"])), ("w", r.choice(["\n", "\n ", "\n\n"]))]
    if nl_end and not segs[-1][1].endswith("\n"):
        segs[-1] = ("w", segs[-1][1] + "\n")
    return segs


class Renderer:
    def __init__(self, r, layout):
        self.r, self.layout = r, layout
        self.toks = []          # (ty, segs, payload wire, text)
        self.first = True
        self.after_open = False  # previous token allows the next one to follow without whitespace

    def emit(self, ty, payload, text, needs_nl=False, closes=False):
        segs = gen_ws(self.r, self.layout, nl_end=needs_nl, allow_empty=(self.after_open or closes) and not self.first,
                      first=self.first)
        self.first = False
        self.toks.append((ty, segs, payload, text))
        self.after_open = ty in ("ol", "ot", "key")

    def value(self, v):
        if v[0] == "U":
            self.emit("val", "U", "?")
        elif v[0] == "N":
            self.emit("val", "N", ".")
        elif v[0] == "C":
            _, q, t, style = v
            pay = "C%d:%s" % (q, hx(t))
            if style == "unq":
                self.emit("val", pay, t)
            elif style == "sq":
                self.emit("qval", pay, "'" + t + "'")
            elif style == "dq":
                self.emit("qval", pay, '"' + t + '"')
            elif style == "tsq":
                self.emit("qval", pay, "'''" + t + "'''")
            elif style == "tdq":
                self.emit("qval", pay, '"""' + t + '"""')
            else:
                self.emit("tval", pay, ";" + t + "\n;", needs_nl=True)
        elif v[0] == "L":
            self.emit("ol", "-", "[")
            for e in v[1]:
                self.value(e)
            self.emit("cl", "-", "]", closes=True)
        else:
            self.emit("ot", "-", "{")
            for key, ks, e in v[1]:
                qc = "'" if ks == "sq" else '"'
                self.emit("key", hx(key), qc + key + qc + ":")
                self.value(e)
            self.emit("ct", "-", "}", closes=True)

    def elements(self, els):
        for e in els:
            if e[0] == "i":
                self.emit("nm", hx(e[1]), e[1])
                if e[2] is not None:                     # None: planted CIF_MISSING_VALUE
                    self.value(e[2])
            elif e[0] == "x":                            # planted CIF_UNEXPECTED_VALUE
                self.value(e[1])
            elif e[0] == "l":
                self.emit("lk", "-", self.r.choice(["loop_", "loop_", "LOOP_", "Loop_"]) if self.layout != "min" else "loop_")
                for n in e[1]:
                    self.emit("nm", hx(n), n)
                for p in e[2]:
                    for v in p:
                        self.value(v)
            else:
                self.emit("fh", hx(e[1]), self.r.choice(["save_", "SAVE_"]) + e[1] if self.layout != "min" else "save_" + e[1])
                self.elements(e[2])
                self.emit("ft", "-", "save_")

    def doc(self, d):
        for b in d:
            self.emit("bh", hx(b[1]), (self.r.choice(["data_", "DATA_", "Data_"]) if self.layout != "min" else "data_") + b[1])
            self.elements(b[2])
        # END
        segs = gen_ws(self.r, self.layout, allow_empty=True, first=self.first)
        if self.layout != "min" and not self.first and self.r.random() < 0.1:
            segs = [("w", " "), ("c", "# trailing comment")]
        self.toks.append(("end", segs, "-", ""))

    def text(self):
        return "".join("".join(s[1] for s in segs) + text for _, segs, _, text in self.toks)

    def wire(self):
        return " ".join("T%s;%s;%s" % (ty, ",".join(k + hx(t) for k, t in segs), pay) for ty, segs, pay, _ in self.toks)


def request(doc, r, layout, prog):
    rd = Renderer(r, layout)
    rd.doc(doc)
    return "pcb doc %s toks %s prog%s" % (hx(rd.text()), rd.wire(), "".join(" %d:%d" % e for e in sorted(prog.items())))


def handler_count(doc):
    def els(es):
        n = 0
        for e in es:
            if e[0] == "i":
                n += 1
            elif e[0] == "x":
                pass
            elif e[0] == "l":
                n += 2 + len(e[2]) * (2 + len(e[1]))
            else:
                n += 2 + els(e[2])
        return n
    return 2 + sum(2 + els(b[2]) for b in doc)


def handler_labels(doc):
    """the handler callbacks of an all-continue parse, in order, as labels (kind, loop number, packet, item)"""
    out = ["cs"]
    nloop = [0]

    def els(es):
        for e in es:
            if e[0] == "i":
                out.append(("it",))
            elif e[0] == "x":
                pass
            elif e[0] == "l" and not e[1]:
                out.append(("nl",))                     # null loop: loop_end only
            elif e[0] == "l":
                L = nloop[0]
                nloop[0] += 1
                out.append(("ls", L))
                for i, p in enumerate(e[2]):
                    out.append(("ps", L, i))
                    for j in range(len(p)):
                        out.append(("li", L, i, j))
                    out.append(("pe", L, i))
                out.append(("le", L))
            else:
                out.append(("fs",))
                els(e[2])
                out.append(("fe",))
    for b in doc:
        out.append(("bs",))
        els(b[2])
        out.append(("be",))
    out.append("ce")
    return out


def loop_bypass_programs(doc):
    """programs that bypass a loop from inside it while its container is not skipped"""
    lab = handler_labels(doc)
    idx = {l: k for k, l in enumerate(lab)}
    loops = sorted({l[1] for l in lab if isinstance(l, tuple) and l[0] == "ls"})
    progs = []
    for L in loops:
        npk = len([l for l in lab if isinstance(l, tuple) and l[0] == "ps" and l[1] == L])
        nit = len([l for l in lab if isinstance(l, tuple) and l[0] == "li" and l[1] == L and l[2] == 0])
        progs += [{idx[("ls", L)]: SKIP_CUR}, {idx[("ls", L)]: SKIP_SIB}]
        for i in range(npk):
            progs += [{idx[("ps", L, i)]: SKIP_SIB}, {idx[("pe", L, i)]: SKIP_SIB}, {idx[("ps", L, i)]: SKIP_CUR},
                      {idx[("pe", L, i)]: SKIP_CUR}]
            for j in range(nit):
                progs += [{idx[("li", L, i, j)]: SKIP_SIB}, {idx[("li", L, i, j)]: SKIP_CUR}]
        # all packets bypassed, in three ways (the loop must not be left behind packet-less)
        progs.append({idx[("ps", L, i)]: SKIP_CUR for i in range(npk)})
        progs.append({idx[("pe", L, i)]: SKIP_CUR for i in range(npk)})
        progs.append({idx[("li", L, i, 0)]: SKIP_SIB for i in range(npk)})
        if npk >= 2:
            # first packet kept, the rest bypassed / first packets bypassed one by one, the last kept
            progs.append({idx[("ps", L, 1)]: SKIP_SIB})
            progs.append({idx[("ps", L, i)]: SKIP_CUR for i in range(npk - 1)})
            progs.append({idx[("li", L, 0, nit - 1)]: SKIP_SIB, idx[("pe", L, 1)]: SKIP_SIB})
            progs.append({idx[("ps", L, 0)]: SKIP_SIB, idx[("le", L)]: END})          # le is never reached
        # the same followed by END / an error a little later
        progs.append({idx[("ps", L, 0)]: SKIP_SIB, idx[("ps", L, 0)] + 1: END})
        progs.append({idx[("ls", L)]: SKIP_CUR, idx[("ls", L)] + 1: 7})
    return progs


def U(x):
    return ("C", 0, x, "unq")


TARGET = [("b", "t1", [("i", "_s0", U("a")),
                       ("l", ["_a", "_b"], [[U("1"), U("2")], [U("3"), ("N",)], [("U",), U("6")]]),
                       ("i", "_s1", ("C", 1, "x y", "sq")),
                       ("f", "fr", [("l", ["_c"], [[U("7")], [U("8")]]), ("i", "_s2", U("b"))]),
                       ("l", ["_d", "_e", "_f"], [[U("p"), ("L", [U("q")]), U("r")], [U("s"), U("t"), ("T", [("k", "sq", U("u"))])]])]),
          ("b", "t2", [("l", ["_g"], [[U("9")]]), ("i", "_z", U("c"))])]


# ------------------------------------------------------------------------------------------------ reading requests back

def split_req(req):
    t = req.split(" ")
    assert t[1] == "doc" and t[3] == "toks"
    k = t.index("prog")
    prog = {}
    for e in t[k + 1:]:
        a, b = e.split(":")
        prog[int(a)] = int(b)
    toks = []
    for w in t[4:k]:
        ty, segs, pay = w[1:].split(";")
        toks.append((ty, [(s[0], s[1:]) for s in segs.split(",") if s], pay))
    return t[2], toks, prog


VALUE_TYPES = ("val", "qval", "tval", "ol", "ot")


def doc_of_tokens(toks):
    """independent little parser of the (well-formed) token list -> abstract document with values as dump text"""
    pos = [0]

    def peek():
        return toks[pos[0]][0]

    def value():
        ty, _, pay = toks[pos[0]]
        pos[0] += 1
        if ty in ("val", "qval", "tval"):
            return pay
        if ty == "ol":
            out = ["["]
            while peek() != "cl":
                out.append(value())
            pos[0] += 1
            return " ".join(out + ["]"])
        if ty == "ot":
            out = ["{"]
            while peek() != "ct":
                out.append("K:" + toks[pos[0]][2])
                pos[0] += 1
                out.append(value())
            pos[0] += 1
            return " ".join(out + ["}"])
        raise ValueError("value expected at token %d" % (pos[0] - 1))

    def elements(in_frame):
        els = []
        while True:
            ty = peek()
            if ty == "nm":
                name = toks[pos[0]][2]
                pos[0] += 1
                # a data name followed by no value: CIF_MISSING_VALUE (value None)
                els.append(("i", name, value() if peek() in VALUE_TYPES else None))
            elif ty in VALUE_TYPES:
                els.append(("x", value()))               # CIF_UNEXPECTED_VALUE
            elif ty == "lk":
                pos[0] += 1
                names = []
                while peek() == "nm":
                    names.append(toks[pos[0]][2])
                    pos[0] += 1
                if not names:
                    els.append(("l", [], []))            # CIF_NULL_LOOP; values that follow are unexpected values
                    continue
                vals = []
                while peek() in VALUE_TYPES:
                    vals.append(value())
                n = len(names)
                # no values: CIF_EMPTY_LOOP; a short last packet: CIF_PARTIAL_PACKET
                els.append(("l", names, [vals[i:i + n] for i in range(0, len(vals), n)]))
            elif ty == "fh" and not in_frame:
                code = toks[pos[0]][2]
                pos[0] += 1
                sub = elements(True)
                assert peek() == "ft"
                pos[0] += 1
                els.append(("f", code, sub))
            else:
                return els

    doc = []
    while peek() == "bh":
        code = toks[pos[0]][2]
        pos[0] += 1
        doc.append(("b", code, elements(False)))
    assert peek() == "end", "unexpected token %s" % peek()
    return doc


def take_value(toks, i):
    t = toks[i]
    if t in ("[", "{"):
        close = "]" if t == "[" else "}"
        out = [t]
        i += 1
        while toks[i] != close:
            if t == "{":
                out.append(toks[i])
                i += 1
            v, i = take_value(toks, i)
            out.append(v)
        out.append(close)
        return " ".join(out), i + 1
    return t, i + 1


QBAD = []               # handle queries that answered wrongly (filled by parse_log)


def parse_log(t):
    """event tokens -> list of tuples"""
    evs, i = [], 0
    while i < len(t):
        k = t[i]
        if k in ("@bs", "@be", "@fs", "@fe"):
            # the container handle is queried inside the callback: cif_container_assert_block tells a block from a frame
            evs.append((k[1:], t[i + 1]))
            q = t[i + 2] if i + 2 < len(t) else "?"
            want = "q:~" if t[i + 1] == "~" else ("q:0" if k in ("@bs", "@be") else "q:6")
            if q != want:
                QBAD.append("%s %s: cif_container_assert_block on the handle answers %s, expected %s" % (k, t[i + 1], q, want))
            i += 3
        elif k in ("@cs", "@ce", "@ps", "@dn", "@kw", "@ws", "@er"):
            evs.append((k[1:], t[i + 1]))
            i += 2
        elif k == "@ls" or (k == "@le" and t[i + 1] != "~"):
            n = int(t[i + 1])
            evs.append((k[1:], tuple(t[i + 2:i + 2 + n])))
            i += 2 + n
        elif k == "@le":
            evs.append(("le", None))
            i += 2
        elif k == "@pe":
            m = int(t[i + 1])
            i += 2
            items = []
            for _ in range(m):
                nm = t[i]
                v, i = take_value(t, i + 1)
                items.append((nm, v))
            evs.append(("pe", tuple(items)))
        elif k == "@it":
            v, j = take_value(t, i + 2)
            evs.append(("it", (t[i + 1], v)))
            i = j
        else:
            raise ValueError("bad log token %r at %d" % (k, i))
    return evs


def split_impl(impl):
    """-> dict(S=(rc, n, events), cif=tokens, N=(rc, n, events)) or None"""
    t = impl.split(" ")
    if len(t) < 5 or t[0] != "pc" or t[1] != "S" or "cif=" not in t or "N" not in t:
        return None
    try:
        c = t.index("cif=")
        n = [i for i in range(c, len(t) - 1) if t[i] == "N" and t[i + 1].startswith("rc=")][-1]
        return {"S": (int(t[2][3:]), int(t[3][2:]), parse_log(t[5:c])), "cif": t[c + 1:n],
                "N": (int(t[n + 1][3:]), int(t[n + 2][2:]), parse_log(t[n + 4:]))}
    except Exception:       # noqa
        return None


def parse_dump(t):
    """canonical dump tokens -> {code: container}, container = {"frames": {code: container}, "scalars": {name: value},
    "loops": [(frozenset(names), [ {name: value} ])]}"""
    pos = [0]

    def body():
        c = {"frames": {}, "scalars": {}, "loops": []}
        while t[pos[0]] != "E":
            w = t[pos[0]]
            if w.startswith("F:"):
                pos[0] += 1
                c["frames"][w[2:]] = body()
            elif w.startswith("L:"):
                cat, n = w[2:].rsplit(":", 1)
                n = int(n)
                names = t[pos[0] + 1:pos[0] + 1 + n]
                pos[0] += 1 + n
                pk = []
                while t[pos[0]] == "P":
                    pos[0] += 1
                    row = {}
                    for nm in names:
                        v, pos[0] = take_value(t, pos[0])
                        row[nm] = v
                    pk.append(row)
                assert t[pos[0]] == "Z"
                pos[0] += 1
                if cat == "-":
                    for row in pk:
                        c["scalars"].update(row)
                else:
                    c["loops"].append((frozenset(names), pk))
            else:
                raise ValueError("bad dump token " + w)
        pos[0] += 1
        return c

    out = {}
    while pos[0] < len(t):
        w = t[pos[0]]
        if not w.startswith("B:"):
            raise ValueError("bad dump token " + w)
        pos[0] += 1
        out[w[2:]] = body()
    return out


# ------------------------------------------------------------------------------------------------ oracle

def normh(h):
    """normalised form of a name / code given as the hex text of the wire format"""
    return norm("".join(chr(u) for u in unhexs(h)))


MUST, MAY, NOT = "must", "may", "not"


class Stop(Exception):
    def __init__(self, code):
        self.code = code


class Bad(Exception):
    pass


class Sim:
    """C15 restated: walks the abstract document in document order, consuming the logged events; `bypassed` entities
    must produce no handler / dataname / keyword callback and store nothing; optional end callbacks are resolved by
    looking at the log.  Records storage classes on the way."""

    def __init__(self, evs, prog, storing):
        self.evs = [e for e in evs if e[0] != "ws"]            # error callbacks are part of what is checked
        self.prog, self.k, self.h, self.storing = prog, 0, 0, storing
        self.stopped = False

    def peek(self):
        return self.evs[self.k] if self.k < len(self.evs) else None

    def syntax(self, ev):
        if self.peek() != ev:
            raise Bad("event %d: expected syntax callback %r, log has %r" % (self.k, ev, self.peek()))
        self.k += 1

    def handler(self, ev):
        got = self.peek()
        if got != ev:
            raise Bad("event %d (handler invocation %d): expected %r, log has %r" % (self.k, self.h, ev, got))
        return self.answer()

    def answer(self):
        r = self.prog.get(self.h, CONT)
        self.k += 1
        self.h += 1
        if r == END:
            raise Stop(0)
        if r not in (CONT, SKIP_CUR, SKIP_SIB):
            # any other return value ends the parse at once, no further callback; cif_parse returns it if it is positive
            # (negative values are navigation-like and map to CIF_OK)
            raise Stop(r if r > 0 else 0)
        return r

    def opt_end(self, ev, optional):
        """the end callback `ev`; returns its answer or None when (legitimately) absent"""
        if self.peek() == ev:
            return self.answer()
        if not optional:
            raise Bad("event %d: expected %r, log has %r" % (self.k, ev, self.peek()))
        return None

    def hcode(self, code):
        return code if self.storing else "~"

    # every visit returns "go" or "sib"; cls dictionaries are filled in place
    def cif(self, doc, st):
        r = self.handler(("cs", "1" if self.storing else "0"))
        byp = (r != CONT)
        optional = byp
        for b in doc:
            handle = self.storing and not byp          # cif != NULL and nothing being skipped: the block is created
            key = next((k for k in st if normh(k) == normh(b[1])), None)
            code = b[1]
            if handle and key is not None and st[key].get("created"):
                # CIF_DUP_BLOCKCODE: error callback, the existing block is reopened (its handle goes to the handlers)
                self.syntax(("er", "11"))
                bs, code = st[key], key
            elif key is not None:
                bs = {"exists": NOT, "items": {}, "loops": [], "frames": {}}      # a bypassed namesake: never created
            else:
                bs = {"exists": NOT, "items": {}, "loops": [], "frames": {}}
                st[b[1]] = bs
            if self.container(b, bs, byp, True, handle, code) == "sib":
                byp = True
                optional = True
        self.opt_end(("ce", "1" if self.storing else "0"), optional)

    def present(self, cs):
        """normalised data names the container holds right now"""
        out = {normh(n) for n, (_, cls) in cs["items"].items() if cls == MUST}
        for l in cs["loops"]:
            if l.get("created") and not l.get("pruned"):
                out |= {normh(n) for n in l["names"]}
        return out

    def container(self, c, cs, byp, is_block, handle, code):
        """`handle`: the container exists in the CIF (non-NULL handle); `code`: the code its handle carries"""
        st_tag, en_tag = ("bs", "be") if is_block else ("fs", "fe")
        for e in c[2]:                      # default classes: nothing stored
            self.prefill(e, cs)
        if byp:
            if not cs.get("created"):
                cs["exists"] = NOT
            for e in c[2]:
                self.element(e, cs, True, False)
            return "go"
        if handle:
            cs["created"] = True
            cs["exists"] = MUST
        elif self.storing:
            cs["exists"] = NOT
        else:
            cs["exists"] = MUST
        cs["closed"] = False
        r = self.handler((st_tag, self.hcode(code)))
        sib = (r == SKIP_SIB)
        inner_byp = (r != CONT)
        optional = inner_byp
        try:
            for e in c[2]:
                if self.element(e, cs, inner_byp, handle) == "sib":
                    inner_byp = True
                    optional = True
        except Stop:
            raise
        # the container has reached its end with CIF_OK: cif_container_prune runs now, just before the end handler
        cs["closed"] = True
        for l in cs["loops"]:
            if l.get("created") and not any(cl == MUST for _, cl in l["pk"]):
                l["pruned"] = True
        r2 = self.opt_end((en_tag, self.hcode(code)), optional)
        if r2 == SKIP_SIB:
            sib = True
        return "sib" if sib else "go"

    def prefill(self, e, cs):
        if e[0] == "i":
            cs["items"].setdefault(e[1], (e[2] if e[2] is not None else "U", NOT))
        elif e[0] == "x":
            pass
        elif e[0] == "l":
            cs["loops"].append({"names": e[1], "pk": [(p, NOT) for p in e[2]], "open": False, "id": id(e)})
        else:
            cs["frames"].setdefault(e[1], {"exists": NOT, "items": {}, "loops": [], "frames": {}, "pre": True})

    def element(self, e, cs, byp, handle):
        """`handle`: the container these elements belong to has a non-NULL handle (duplicates are detected against it)"""
        # Recovery paths (accepting error callback).  The ERROR callback is made whatever is being skipped; only handler and
        # syntax callbacks are suppressed in a bypassed region.
        if e[0] == "x":
            # CIF_UNEXPECTED_VALUE: a value in element position is parsed as a nameless item and dropped
            self.syntax(("er", "134"))
            return "go"
        if e[0] == "i":
            missing = e[2] is None                      # CIF_MISSING_VALUE: a synthetic unknown value, the token stays
            val = "U" if missing else e[2]
            if byp:
                if missing:
                    self.syntax(("er", "133"))
                return "go"
            self.syntax(("dn", e[1]))
            if handle and normh(e[1]) in self.present(cs):
                # CIF_DUP_ITEMNAME: error callback, the value is parsed, NO item handler, nothing stored
                self.syntax(("er", "41"))
                if missing:
                    self.syntax(("er", "133"))
                return "go"
            if missing:
                self.syntax(("er", "133"))
            cs["items"][e[1]] = (val, MAY)            # in progress
            r = self.handler(("it", (e[1], val)))
            cs["items"][e[1]] = (val, MUST if r == CONT else NOT)     # STRICT: SKIP_* = not stored
            return "sib" if r == SKIP_SIB else "go"
        if e[0] == "f":
            fh = handle and not byp                      # the frame is created (or reopened) in the container
            key = next((k for k, f in cs["frames"].items() if normh(k) == normh(e[1]) and f.get("created")), None)
            code = e[1]
            if fh and key is not None:
                # CIF_DUP_FRAMECODE: error callback, the existing frame is reopened
                self.syntax(("er", "21"))
                fs, code = cs["frames"][key], key
            elif key is not None or (not fh and self.storing and cs["frames"].get(e[1], {}).get("created")):
                fs = {"exists": NOT, "items": {}, "loops": [], "frames": {}}      # a bypassed namesake
            else:
                fs = cs["frames"][e[1]]
                fs.pop("pre", None)
            return self.container(e, fs, byp, False, fh, code)
        # loop
        ls = [l for l in cs["loops"] if l["id"] == id(e)][0]
        if not byp:
            self.syntax(("kw", "-"))
        if not e[1]:
            # CIF_NULL_LOOP: `loop_` without a data name is ignored: no loop_start; the tail of parse_loop still runs: the skip
            # depth is popped, or handle_loop_end is called - with a NULL loop, in both modes
            self.syntax(("er", "37"))
            if byp:
                return "go"
            r4 = self.handler(("le", None))
            return "sib" if r4 == SKIP_SIB else "go"
        # the header: data-name callbacks only while nothing is skipped; duplicates are diagnosed in any case — against the
        # container whenever it has a handle, against the earlier names of the header always
        slots = []
        have = self.present(cs) if handle else set()
        for n in e[1]:
            if not byp:
                self.syntax(("dn", n))
            if normh(n) in have or any(m is not None and normh(m) == normh(n) for m in slots):
                self.syntax(("er", "41"))
                slots.append(None)
            else:
                slots.append(n)
        names = [n for n in slots if n is not None]
        ls["names"] = names
        ls["pk"] = [([v for v, m in zip(p, slots) if m is not None], cl) for p, cl in ls["pk"]]
        nslots = len(slots)
        if byp:
            # the body is parsed all the same: its defects are reported
            if not e[2]:
                self.syntax(("er", "36"))
            elif len(e[2][-1]) < nslots:
                self.syntax(("er", "53"))
            return "go"
        ls["open"] = True
        r = self.handler(("ls", tuple(names)))
        ls["created"] = (r == CONT and handle)          # the loop exists in the container from now on
        sib = (r == SKIP_SIB)
        pbyp = (r != CONT)
        # STRICT (documented behaviour, notes/agents/gH.md): a loop bypassed from loop_start or from inside (packet_start /
        # packet_end answering SKIP_SIBLINGS) gets no loop_end; a packet bypassed from packet_start or from an item
        # answering SKIP_SIBLINGS gets no packet_end and is not stored; later packets of a loop are bypassed only by
        # SKIP_SIBLINGS of packet_start / packet_end (an item's siblings are the other items of its packet)
        no_le = pbyp
        for i, p in enumerate(e[2]):
            # CIF_PARTIAL_PACKET: the body ends inside the last packet.  The values of the retained columns still missing are
            # filled with unknown values, then the end of a packet as usual: nothing while the packet is being skipped, else
            # packet_end (with the filled packet) and its answers
            partial = len(p) < nslots
            if pbyp:
                if partial:
                    self.syntax(("er", "53"))
                continue
            kept = [v for v, m in zip(p, slots) if m is not None]
            if partial:
                kept = kept + ["U"] * len([m for m in slots[len(p):] if m is not None])
            ls["pk"][i] = (kept, MAY)                   # in progress
            r1 = self.handler(("ps", "0"))
            ibyp = (r1 != CONT)
            no_pe = ibyp
            cls = NOT if ibyp else MUST
            if r1 == SKIP_SIB:
                pbyp = True
                no_le = True
            for n, v in zip(slots, p):
                if ibyp or n is None:                     # a dropped column: the value is parsed, no item handler
                    continue
                r2 = self.handler(("it", (n, v)))
                if r2 == SKIP_SIB:                        # SKIP_CURRENT: the item stays in its packet
                    ibyp = True
                    no_pe = True
                    cls = NOT
            if partial:
                self.syntax(("er", "53"))
            pe = ("pe", tuple(zip(names, kept)))
            if no_pe:
                if self.peek() == pe:
                    raise Bad("event %d: packet_end delivered for a packet that was bypassed" % self.k)
            else:
                r3 = self.handler(pe)
                if r3 != CONT:
                    cls = NOT
                if r3 == SKIP_SIB:
                    pbyp = True
                    no_le = True
            ls["pk"][i] = (kept, cls)
        if not e[2]:
            # CIF_EMPTY_LOOP: a header without values; the loop (if created) stays packet-less until its container is pruned
            self.syntax(("er", "36"))
        # loop end: handle = names sorted by code unit in storing mode, NULL otherwise
        exp = ("le", tuple(sorted(names)) if self.storing else None)
        if no_le:
            if self.peek() is not None and self.peek()[0] == "le":
                raise Bad("event %d: loop_end delivered for a loop that was bypassed from loop_start or from inside" % self.k)
        else:
            r4 = self.handler(exp)
            if r4 == SKIP_SIB:
                sib = True
        ls["open"] = False
        return "sib" if sib else "go"


def check_store(st, cif, stopped):
    """final CIF against the storage classes"""
    def cont(cs, c, where):
        # scalars
        for n, (v, cls) in cs["items"].items():
            got = c["scalars"].get(n)
            if cls == MUST and got != v:
                return "%s: item %s should be stored as %s, found %s" % (where, n, v, got)
            if cls == NOT and got is not None:
                return "%s: item %s was bypassed / never reached but is stored" % (where, n)
            if got is not None and got != v:
                return "%s: item %s stored with value %s, document has %s" % (where, n, got, v)
        for n in c["scalars"]:
            if n not in cs["items"]:
                return "%s: stored item %s is not in the document" % (where, n)
        # loops
        used = set()
        for names, pk in c["loops"]:
            cand = [l for l in cs["loops"] if frozenset(l["names"]) == names and id(l) not in used]
            if not cand:
                return "%s: stored loop %s is not in the document" % (where, sorted(names))
            l = cand[0]
            used.add(id(l))
            # packet-less loops are removed when their container ends (cif_container_prune, just before the end handler);
            # after END / an error only the containers that were still OPEN at that point keep theirs
            if not pk and (not stopped or cs.get("closed")):
                return "%s: packet-less loop %s left in a container that was closed" % (where, sorted(names))
            rows = [dict(zip(l["names"], p)) for p, _ in l["pk"]]
            classes = [cl for _, cl in l["pk"]]

            def match(i, j):
                if j == len(pk):
                    return all(cl != MUST for cl in classes[i:])
                if i == len(rows):
                    return False
                if classes[i] != NOT and rows[i] == pk[j] and match(i + 1, j + 1):
                    return True
                return classes[i] != MUST and match(i + 1, j)
            if not match(0, 0):
                return "%s: loop %s stores packets %s; document packets / classes: %s" % (where, sorted(names), pk, list(zip(rows, classes)))
        for l in cs["loops"]:
            if id(l) not in used and any(cl == MUST for _, cl in l["pk"]):
                return "%s: loop %s should be stored" % (where, l["names"])
            if id(l) not in used and stopped and not cs.get("closed") and l.get("created") and not l.get("pruned") \
                    and cs["exists"] == MUST:
                return ("%s: loop %s was created and its container was still open when the parse was stopped: it should be "
                        "stored (with the packets recorded so far, possibly none)") % (where, l["names"])
        # frames
        for code, fs in cs["frames"].items():
            r = exists(fs, c["frames"].get(code), where + "/save_" + code)
            if r:
                return r
        for code in c["frames"]:
            if code not in cs["frames"]:
                return "%s: stored frame %s is not in the document" % (where, code)
        return None

    def exists(cs, c, where):
        if cs["exists"] == MUST and c is None:
            return "%s should exist" % where
        if cs["exists"] == NOT and c is not None:
            return "%s was bypassed / never reached but exists" % where
        if c is not None:
            return cont(cs, c, where)
        return None

    for code, cs in st.items():
        r = exists(cs, cif.get(code), "data_" + code)
        if r:
            return r
    for code in cif:
        if code not in st:
            return "stored block %s is not in the document" % code
    return None


def strip_handles(evs):
    out = []
    for e in evs:
        if e[0] in ("cs", "ce", "bs", "be", "fs", "fe"):
            out.append((e[0],))
        elif e[0] == "le":
            out.append(("le",))
        else:
            out.append(e)
    return out


def first_reached(prog, n):
    ks = [k for k in sorted(prog) if k < n and prog[k] != CONT]
    return ks


def ws_layout_ok(toks, got, stopped):
    """C15_layout_callbacks restated on the implementation's observation: the whitespace callbacks, concatenated (hex), are the
    concatenation over a PREFIX of the document's tokens in order (all tokens, the end of input included, unless the parse was
    stopped) of either the token's whole layout (scanned outside a skipped region) or its comments only (inside one)."""
    full = ["".join(t for _, t in segs if t != "-") for _, segs, _ in toks]
    comm = ["".join(t for k, t in segs if k == "c" and t != "-") for _, segs, _ in toks]
    pos = {0}
    for k in range(len(toks)):
        if stopped and len(got) in pos:
            return True
        nxt = set()
        for q in pos:
            for s in (full[k], comm[k]):
                if got.startswith(s, q):
                    nxt.add(q + len(s))
        pos = nxt
        if not pos:
            return False
    return len(got) in pos


def oracle(req, impl):
    if " !SUBSET-CALLBACKS-DIFFER" in impl:
        return ("with only a subset of the three syntax callbacks registered the parse does not deliver the same events: "
                + impl[impl.index(" !SUBSET-CALLBACKS-DIFFER") + 1:][:160])
    del QBAD[:]
    sp = split_impl(impl)
    if QBAD:
        return "handle passed to a callback: " + QBAD[0]
    if sp is None:
        if impl.startswith("pc ") or impl.startswith("bad-op"):
            return "unreadable observation / executor rejected the request: " + impl[:80]
        return None             # crash / timeout lines are judged by check.py
    try:
        dochex, toks, prog = split_req(req)
        doc = doc_of_tokens(toks)
    except Exception as e:      # noqa
        return "unreadable request: %r" % (e,)
    wstext = "".join(t for _, segs, _ in toks for _, t in segs if t != "-")
    for mode in ("S", "N"):
        rc, n, evs = sp[mode]
        if n != sum(1 for e in evs if e[0] in ("cs", "ce", "bs", "be", "fs", "fe", "ls", "le", "ps", "pe", "it")):
            return "%s: handler call count differs from the logged handler events" % mode
        sim = Sim(evs, prog, mode == "S")
        st = {}
        expect_rc, stopped = 0, False
        try:
            sim.cif(doc, st)
        except Stop as s:
            expect_rc, stopped = s.code, True
        except Bad as b:
            return "%s: %s" % (mode, b)
        if sim.k != len(sim.evs):
            return "%s: event %d: callback %r delivered although the entity is bypassed / the parse is over" % (mode, sim.k, sim.evs[sim.k])
        if stopped and evs and evs[-1][0] == "ws" and False:
            return "%s: whitespace callback after the parse was stopped" % mode
        if rc != expect_rc:
            return "%s: cif_parse returned %d, expected %d" % (mode, rc, expect_rc)
        if not first_reached(prog, n):
            got = "".join(e[1] for e in evs if e[0] == "ws" and e[1] != "-")
            if got != wstext:
                return "%s: whitespace callbacks deliver %s, document whitespace is %s" % (mode, got, wstext)
        else:
            got = "".join(e[1] for e in evs if e[0] == "ws" and e[1] != "-")
            if not ws_layout_ok(toks, got, stopped):
                return ("%s: whitespace callbacks deliver %s: not the layout of a prefix of the document's tokens in order, comments "
                        "always, whitespace runs per token all or none (document whitespace is %s)" % (mode, got, wstext))
        if mode == "S":
            try:
                cif = parse_dump(sp["cif"])
            except Exception as e:      # noqa
                return "unreadable dump: %r" % (e,)
            why = check_store(st, cif, stopped)
            if why:
                return "stored CIF: " + why
    # (with a duplicate diagnostic the two modes legitimately differ: without a CIF only a loop header's own repeats are seen)
    if not any(e[0] == "er" and e[1] in ("41", "21", "11") for e in sp["S"][2] + sp["N"][2]) and \
            (strip_handles(sp["S"][2]) != strip_handles(sp["N"][2]) or sp["S"][0] != sp["N"][0]):
        return "syntax-only mode delivers a different callback sequence / result than storing mode"
    return None


# ------------------------------------------------------------------------------------------------ hooks

def nontrivial(req, impl):
    sp = split_impl(impl)
    if sp is None:
        return False
    _, _, prog = split_req(req)
    return bool(first_reached(prog, sp["S"][1]))


def classify(req, impl):
    _, _, prog = split_req(req)
    sp = split_impl(impl)
    lab = "dev%d" % min(len(prog), 3)
    if sp and sp["S"][0] > 0:
        lab += "/error"
    return lab


def finding_class(req, impl, model, why):
    return None         # no open finding (F33, loop_start code ignored, was fixed by 43d0bb7)


def render_min(doc, prog):
    import random
    return request(doc, random.Random(0), "min", prog)


def undump(v):
    """dump text of a value -> abstract value (for re-rendering in shrink)"""
    t = v.split(" ")

    def go(i):
        w = t[i]
        if w == "U":
            return ("U",), i + 1
        if w == "N":
            return ("N",), i + 1
        if w == "[":
            out, i = [], i + 1
            while t[i] != "]":
                e, i = go(i)
                out.append(e)
            return ("L", out), i + 1
        if w == "{":
            out, i = [], i + 1
            while t[i] != "}":
                key = "".join(chr(u) for u in unhexs(t[i][2:]))
                key = key.encode("utf-16", "surrogatepass").decode("utf-16")
                e, i = go(i + 1)
                out.append((key, "dq" if '"' not in key else "sq", e))
            return ("T", out), i + 1
        q = int(w[1])
        s = "".join(chr(u) for u in unhexs(w[3:])).encode("utf-16", "surrogatepass").decode("utf-16")
        if not q:
            return ("C", 0, s, "unq"), i + 1
        if "\n" not in s and "'" not in s:
            return ("C", 1, s, "sq"), i + 1
        if "\n" not in s and '"' not in s:
            return ("C", 1, s, "dq"), i + 1
        if "'" not in s:
            return ("C", 1, s, "tsq"), i + 1
        if '"' not in s:
            return ("C", 1, s, "tdq"), i + 1
        return ("C", 1, s, "text"), i + 1
    return go(0)[0]


def un(h):
    return "".join(chr(u) for u in unhexs(h)).encode("utf-16", "surrogatepass").decode("utf-16")


def shrink(req):
    try:
        _, toks, prog = split_req(req)
        doc = doc_of_tokens(toks)
    except Exception:       # noqa
        return

    def conv(els):
        out = []
        for e in els:
            if e[0] == "i":
                out.append(("i", un(e[1]), undump(e[2]) if e[2] is not None else None))
            elif e[0] == "x":
                out.append(("x", undump(e[1])))
            elif e[0] == "l":
                out.append(("l", [un(n) for n in e[1]], [[undump(v) for v in p] for p in e[2]]))
            else:
                out.append(("f", un(e[1]), conv(e[2])))
        return out
    adoc = [("b", un(b[1]), conv(b[2])) for b in doc]
    items = sorted(prog.items())
    for i in range(len(items)):
        yield render_min(adoc, dict(items[:i] + items[i + 1:]))
    # drop elements that come after the last deviation is hard to know; try dropping whole trailing blocks / elements
    if len(adoc) > 1:
        yield render_min(adoc[:-1], prog)
    for bi in range(len(adoc)):
        b = adoc[bi]
        for ei in reversed(range(len(b[2]))):
            nb = ("b", b[1], b[2][:ei] + b[2][ei + 1:])
            yield render_min(adoc[:bi] + [nb] + adoc[bi + 1:], prog)
    yield render_min(adoc, prog)


# ------------------------------------------------------------------------------------------------ generator

CORE = [("b", "b1", [("i", "_a", ("C", 0, "1.5", "unq")),
                     ("f", "f1", [("i", "_s", ("C", 1, "x y", "sq")), ("l", ["_p", "_q"], [[("U",), ("N",)], [("C", 0, "v", "unq"), ("L", [("C", 1, "", "dq")])]])]),
                     ("l", ["_c", "_d"], [[("C", 0, "u", "unq"), ("T", [("k", "sq", ("N",))])], [("C", 1, "t\nw", "text"), ("U",)]]),
                     ("i", "_e", ("C", 1, "q", "tsq"))]),
        ("b", "B2", [("i", "_a", ("U",))])]


# token-level defects under handler programs: a truncated last packet (in a block, in a frame, with a dropped column), an empty
# loop, a null loop followed by a stray value, a data name without value at the end of a frame and of the document
DEFECTS = [("b", "d1", [("i", "_s0", U("a")),
                        ("l", ["_a", "_b", "_c"], [[U("1"), U("2"), U("3")], [U("4")]]),
                        ("i", "_s1", U("b")),
                        ("f", "fr", [("l", ["_d", "_e"], [[U("5")]]), ("i", "_mv", None)]),
                        ("l", ["_g"], []),
                        ("l", [], []), ("x", U("9")),
                        ("l", ["_h", "_s0", "_i"], [[U("p"), U("q"), U("r")], [U("s"), U("t")]])]),
           ("b", "d2", [("x", ("L", [U("z")])), ("l", ["_k", "_l"], [[U("1"), U("2")], [U("3")]]), ("i", "_last", None)])]


def inside_model(req):
    """the document the TEXT of the request really is (a null loop followed by a data name is a loop header, …) keeps every loop
    header at least one name — a header that loses all its names to the duplicate check is outside the model"""
    try:
        _, toks, _ = split_req(req)
        doc = doc_of_tokens(toks)
    except Exception:       # noqa
        return False
    return header_ok([("b", un(b[1]), _unhex_els(b[2])) for b in doc])


def _unhex_els(els):
    out = []
    for e in els:
        if e[0] == "i":
            out.append(("i", un(e[1]), e[2]))
        elif e[0] == "l":
            out.append(("l", [un(n) for n in e[1]], e[2]))
        elif e[0] == "f":
            out.append(("f", un(e[1]), _unhex_els(e[2])))
        else:
            out.append(e)
    return out


def generate(seed, tier):
    r = rng(seed, FAMILY)
    quick = (tier == "quick")
    big = {"blocks": 3, "elements": 4, "names": 3, "pkts": 3}
    small = {"blocks": 2, "elements": 3, "names": 2, "pkts": 2}
    docs = [(CORE, "min"), (CORE, "rand")]
    for i in range(6 if quick else 50):
        docs.append((rand_doc(r, big if i % 2 == 0 else small), "rand"))
    # 1. all continue + every single deviation
    for di, (doc, layout) in enumerate(docs):
        n = handler_count(doc)
        yield request(doc, r, layout, {})
        for k in range(n):
            for resp in RESPS:
                yield request(doc, r, layout, {k: resp})
            # the spread of other return values: all of them at every handler invocation of the first document, two per
            # invocation (rotating) on the others
            for resp in (CODES if di == 0 else [CODES[(k + di) % len(CODES)], CODES[(k + di + 5) % len(CODES)]]):
                yield request(doc, r, layout, {k: resp})
    # 1b. loops bypassed from inside while their container is not skipped (loop_start SKIP_CURRENT; packet_start /
    #     packet_end SKIP_SIBLINGS; item SKIP_SIBLINGS in a packet that is not the last; all packets of a loop bypassed)
    tdocs = [(TARGET, "min"), (TARGET, "rand")]
    for i in range(2 if quick else 12):
        d = rand_doc(r, big)
        tries = 0
        while not any(e[0] == "l" and len(e[2]) >= 2 for b in d for e in b[2]) and tries < 50:
            d = rand_doc(r, big)
            tries += 1
        tdocs.append((d, "rand"))
    for doc, layout in tdocs:
        for prog in loop_bypass_programs(doc):
            yield request(doc, r, layout, prog)
    # 2. all pairs on small documents
    for i in range(1 if quick else 8):
        doc = rand_doc(r, small)
        while handler_count(doc) < 14:
            doc = rand_doc(r, small)
        n = handler_count(doc)
        if quick:
            n = min(n, 22)
        for k1 in range(n):
            for k2 in range(k1 + 1, n):
                for r1 in (-1, -2):
                    for r2 in RESPS:
                        yield request(doc, r, "rand", {k1: r1, k2: r2})
    # 3. random programs
    for i in range(300 if quick else 6000):
        doc = rand_doc(r, big if r.random() < 0.5 else small)
        n = handler_count(doc)
        prog = {}
        for _ in range(r.randint(0, 5)):
            prog[r.randrange(n)] = r.choice([-1, -1, -2, -2, -3, 7] + CODES)
        yield request(doc, r, "rand", prog)
    # 4. duplicates under callbacks (accepting error callback): duplicate data names (scalar items, loop headers against the
    #    container and against themselves), duplicate frame codes, duplicate block codes — same or ASCII-case-variant spelling
    for i in range(60 if quick else 900):
        doc = None
        for _ in range(30):
            cand = plant_dups(r, rand_doc(r, big if r.random() < 0.5 else small), small)
            if header_ok(cand):
                doc = cand
                break
        if doc is None:
            continue
        n = handler_count(doc)
        yield request(doc, r, "min" if i % 4 == 0 else "rand", {})
        for _ in range(3 if quick else 6):
            prog = {r.randrange(n): r.choice([-1, -2, -3, 7])}
            if r.random() < 0.4:
                prog[r.randrange(n)] = r.choice([-1, -2])
            yield request(doc, r, "rand", prog)
    # 5. token-level defects whose recovery runs handler code (accepting error callback): CIF_PARTIAL_PACKET, CIF_EMPTY_LOOP,
    #    CIF_NULL_LOOP, CIF_MISSING_VALUE, CIF_UNEXPECTED_VALUE x handler programs (every single deviation on the fixed document,
    #    skips / stops at the packet_end and loop_end of the recovery paths among them; random documents and programs beyond)
    ddocs = [(DEFECTS, "min"), (DEFECTS, "rand")]
    for i in range(4 if quick else 40):
        ddocs.append((plant_defects(r, rand_doc(r, big if i % 2 == 0 else small)), "rand"))
    for di, (doc, layout) in enumerate(ddocs):
        n = handler_count(doc)
        req = request(doc, r, layout, {})
        if not inside_model(req):
            continue
        yield req
        for k in range(n):
            for resp in ((-1, -2, -3, 7) if di < 2 else (r.choice([-1, -2]), r.choice([-3, 7]))):
                yield request(doc, r, layout, {k: resp})
    for i in range(150 if quick else 3000):
        doc = plant_defects(r, rand_doc(r, big if r.random() < 0.5 else small))
        if r.random() < 0.2:
            cand = plant_dups(r, doc, small)
            if header_ok(cand):
                doc = cand
        n = max(1, handler_count(doc))
        prog = {}
        for _ in range(r.randint(0, 4)):
            prog[r.randrange(n)] = r.choice([-1, -1, -2, -2, -3, 7])
        req = request(doc, r, "rand", prog)
        if inside_model(req):
            yield req
