"""family `analyze` (C18): cif_analyze_string against the model, and — implementation level — against an independent
restatement of the property: exact statistics, a permitted and admissible delimiter, preference for the simple forms, and
read-back of the recommended presentation through the real CIF 2.0 parser."""
import itertools, os, re, sys
sys.path.insert(0, os.path.dirname(os.path.abspath(__file__)))
from common import hexs, unhexs, rng

FAMILY = "analyze"
HARNESS = {"source": "x_analyze.c", "leak_clean": True}
RULE = ("exhaustive: every string of length <= 3 (quick) / <= 4 (thorough) over a 20-symbol alphabet of syntactically significant "
        "units (TAB LF VT CR SP \" # $ ' . ; ? [ \\ ] _ a { } U+03B1) x allow_unquoted x allow_triple x limit in {6, 8, 12, 2048}; "
        "all strings of length <= 5 over {' \" x} and <= 4 over {' \" ; LF x} (quote structure) x flags; "
        "plus seeded boundary strings of length limit-7 .. limit+1 (single line, multi-line with LF / CR / CR LF terminators, "
        "embedded and trailing quote runs, reserved words); seeded text-field strings that need the fold / prefix protocol under the writer's own arguments (both triple delimiters shut out, <LF>;, first line ending in a backslash, lines of 2044 .. 4100 units, semicolon runs at the fold window), each ALSO stored in a managed CIF, written by cif_write and parsed back (probe W); non-trivial = non-empty string; oracle (implementation only): "
        "statistics recomputed by line splitting, delimiter permitted + admissible + simple-form preference, and the probe "
        "document `data_a _x <presentation>` parsed by cif_parse reads back the string")

ALPHA = [9, 10, 11, 13, 32, 34, 35, 36, 39, 46, 59, 63, 91, 92, 93, 95, 97, 123, 125, 0x3b1]
LIMITS = [6, 8, 12, 2048]


def req(units, unq, tri, limit, norb=False):
    return "analyze %s %d %d %d%s" % (hexs(list(units)), unq, tri, limit, " norb" if norb else "")


def boundary_strings(r, limit, per_len):
    """strings whose line lengths sit on the comparisons of the cascade"""
    inline = [32, 9, 34, 39, 59, 91, 93, 123, 125, 92, 95, 35, 36, 63, 46, 0x3b1, 11]
    terms = [[10], [13], [13, 10]]
    out = []
    for n in range(max(0, limit - 7), limit + 2):
        for k in range(per_len):
            mode = r.randrange(8)
            if mode <= 2 or n < 3:                         # one line, specials at the ends and a few inside
                s = [97] * n
                for pos in ([0, n - 1] if n else []):
                    if r.random() < 0.5:
                        s[pos] = r.choice(inline)
                for _ in range(r.randrange(3)):
                    if n:
                        s[r.randrange(n)] = r.choice(inline)
            elif mode == 3:                                # quote runs: ''' and """ inside / at the end
                s = [97] * n
                for q in r.sample([39, 34], r.randrange(1, 3)):
                    run = r.randrange(1, 4)
                    pos = r.choice([0, max(0, n - run), r.randrange(n)])
                    for j in range(run):
                        if pos + j < n:
                            s[pos + j] = q
                if r.random() < 0.4 and n:
                    s[n - 1] = r.choice([39, 34])
                if r.random() < 0.3 and n:
                    s[r.randrange(n)] = r.choice([10, 13])
            else:                                          # several lines; first/last/longest line near the limit
                nl = r.randrange(2, 5)
                lens = [0] * nl
                budget = n
                which = r.randrange(nl)
                t = [r.choice(terms) for _ in range(nl - 1)]
                budget -= sum(len(x) for x in t)
                budget = max(0, budget)
                lens[which] = max(0, budget - r.randrange(0, 3))
                rest = budget - lens[which]
                for j in range(nl):
                    if j != which and rest > 0:
                        take = r.randrange(0, rest + 1)
                        lens[j] = take
                        rest -= take
                s = []
                for j in range(nl):
                    line = [97] * lens[j]
                    if line and r.random() < 0.3:
                        line[0] = r.choice([59, 92, 39, 34])
                    if line and r.random() < 0.3:
                        line[-1] = r.choice([32, 9, 92, 39, 34, 11, 59])
                    if len(line) > 2 and r.random() < 0.2:
                        p = r.randrange(len(line) - 2)
                        q = r.choice([39, 34])
                        line[p:p + 3] = [q, q, q]
                    s += line
                    if j < nl - 1:
                        s += t[j]
            out.append(s)
    return out


def generate(seed, tier):
    r = rng(seed, FAMILY)
    maxlen = 4 if tier == "thorough" else 3
    for n in range(0, maxlen + 1):
        for s in itertools.product(ALPHA, repeat=n):
            for limit in LIMITS:
                for unq in (0, 1):
                    for tri in (0, 1):
                        yield req(s, unq, tri, limit)
    # quote structure (both tiers): which of ' " ''' """ occur, and what the string ends in, decides between the four quoted forms —
    # all strings of length <= 5 over {', ", x} and of length <= 4 over {', ", ;, LF, x}
    seen_q = set()
    for alpha, top in (([39, 34, 120], 5), ([39, 34, 59, 10, 120], 4)):
        for n in range(0, top + 1):
            for s in itertools.product(alpha, repeat=n):
                if s in seen_q:
                    continue
                seen_q.add(s)
                for unq, tri in ((0, 1), (1, 1), (0, 0)):
                    yield req(s, unq, tri, 2048)
                yield req(s, 0, 1, 12)
                yield req(s, 0, 1, 8)
    # reserved words and near misses as whole strings (the unquoted branch consults cif_is_reserved_string)
    for w in ["data_", "data_x", "DATA_x", "dAtA_", "data", "save_", "save_a", "SaVe_", "loop_", "LOOP_", "loop_a", "stop_", "stop_x",
              "global_", "GLOBAL_", "global_x", "globa", "sav", "st", "stop", "?", ".", "??", "..", "-", "1.5", "1e5", "+", "a"]:
        for limit in (4, 8, 2048):
            yield req([ord(c) for c in w], 1, 1, limit)
    # small limits (0..5): the `limit - k` comparisons at their lower edge
    for limit in range(0, 6):
        for n in range(0, 3):
            for s in itertools.product([97, 39, 34, 10, 32, 59], repeat=n):
                yield req(s, 1, 1, limit)
    per = {"quick": {6: 12, 8: 12, 12: 12, 2048: 4}, "thorough": {6: 60, 8: 60, 12: 60, 2048: 40}}[tier]
    for limit in LIMITS:
        for s in boundary_strings(r, limit, per[limit]):
            flags = [(1, 1), (0, 1), (1, 0), (0, 0)] if limit < 100 or tier == "thorough" else [r.choice([(1, 1), (0, 1), (1, 0), (0, 0)])]
            for unq, tri in flags:
                yield req(s, unq, tri, limit)
    # random units from the whole BMP + surrogates (char_counts index clamp, non-ASCII): statistics only matter
    for _ in range(300 if tier == "quick" else 3000):
        n = r.randrange(1, 12)
        s = [r.choice(ALPHA) if r.random() < 0.6 else r.randrange(1, 0x10000) for _ in range(n)]
        yield req(s, r.randrange(2), r.randrange(2), r.choice([6, 8, 12, 2048]))
    # text fields that NEED the fold / prefix protocol under the arguments write_char itself passes (quoted value: allow_unquoted = 0,
    # allow_triple = 1, limit 2048), so that probe W exercises the real writer's protocol and the parser's decode_text: both triple
    # delimiters excluded (present, or the string ends in the quote character), then `<LF>;`, a first line ending in a backslash
    # (+ blanks), lines longer than 2048, long semicolon runs
    for s in protocol_strings(r, 150 if tier == "quick" else 2500):
        yield req(s, 0, 1, 2048)
        if r.random() < 0.2:
            yield req(s, r.randrange(2), r.randrange(2), r.choice([12, 2048]))


def protocol_strings(r, count):
    both = [[39, 39, 39, 34, 34, 34], [34, 34, 34, 120, 39, 39, 39], [39, 39, 39, 120, 34], [34, 34, 34, 39]]
    tails = [[], [39], [34]]
    fill = [97, 98, 32, 59, 92, 9, 0x3b1, 46, 35, 95]
    out = []
    for _ in range(count):
        kind = r.randrange(7)
        lines = []
        nl = r.randrange(2, 5)
        for j in range(nl):
            n = r.choice([0, 1, 2, 5, 30]) if r.random() < 0.8 else r.randrange(0, 80)
            lines.append([r.choice(fill) for _ in range(n)])
        if kind in (0, 1, 2, 3):                                   # both triples shut out
            q = list(r.choice(both))
            j = r.randrange(nl)
            p = r.randrange(len(lines[j]) + 1)
            lines[j][p:p] = q[:3]
            j2 = r.randrange(nl)
            p2 = r.randrange(len(lines[j2]) + 1)
            lines[j2][p2:p2] = q[3:] if len(q) > 3 else []
            if len(q) <= 4 or r.random() < 0.3:
                lines[-1] += [q[-1]] if q[-1] in (39, 34) else [39]
        if kind in (0, 4):                                         # <LF>; : the prefix protocol
            j = r.randrange(1, nl)
            lines[j] = [59] * r.choice([1, 1, 2, 3]) + lines[j]
        if kind in (1, 5):                                         # reserved start: first line ends in backslash (+ blanks)
            lines[0] = lines[0] + [92] + [r.choice([32, 9])] * r.choice([0, 0, 1, 3])
        if kind in (2, 4, 5, 6):                                   # a line beyond the line limit: folding
            j = r.randrange(nl)
            n = r.choice([2044, 2045, 2046, 2047, 2048, 2049, 2050, 4100])
            body = [r.choice([97, 97, 97, 32, 59, 92]) for _ in range(n)]
            if r.random() < 0.3:
                k = r.choice([2046, 2047, 2048]) if n >= 2048 else n
                body[:k] = [59] * min(k, n)                        # semicolon run at the fold window
            if r.random() < 0.3:
                for pos in (2045, 2046, 2047):
                    if pos < n:
                        body[pos] = r.choice([92, 32, 59, 97])
            lines[j] = body
        s = []
        for j, l in enumerate(lines):
            s += l
            if j < nl - 1:
                s += [10]
        s += r.choice(tails) if kind >= 4 and r.random() < 0.2 else []
        out.append(s)
    return out


# ---------------------------------------------------------------------------------------------------------------------
# oracle

def parse(impl):
    head, _, rb = impl.partition(" | ")
    t = head.split()
    if not t or t[0] != "an":
        return None, None
    f = {}
    for kv in t[1:]:
        k, _, v = kv.partition("=")
        f[k] = v
    probes = rb.split()[1:] if rb else []
    return f, probes


def cif2_char(u):
    return u in (9, 10, 13) or 0x20 <= u <= 0x7e or 0xa0 <= u <= 0xd7ff or 0xe000 <= u <= 0xfdcf or 0xfdf0 <= u <= 0xfffd


def cif2_string(units):
    """every unit a CIF 2.0 character (surrogate pairs: a supplementary character that is not a non-character)"""
    i, n = 0, len(units)
    while i < n:
        u = units[i]
        if 0xd800 <= u <= 0xdbff and i + 1 < n and 0xdc00 <= units[i + 1] <= 0xdfff:
            cp = 0x10000 + ((u - 0xd800) << 10) + (units[i + 1] - 0xdc00)
            if cp & 0xfffe == 0xfffe:
                return False
            i += 2
            continue
        if not cif2_char(u):
            return False
        i += 1
    return True


def eol_norm(units):
    out, i = [], 0
    while i < len(units):
        if units[i] == 13:
            out.append(10)
            if i + 1 < len(units) and units[i + 1] == 10:
                i += 1
        else:
            out.append(units[i])
        i += 1
    return out


# ASCII case-insensitivity only (Python's re.I would also match U+017F for `s`)
RESERVED = re.compile(r"^([dD][aA][tT][aA]_.*|[sS][aA][vV][eE]_.*|[lL][oO][oO][pP]_|[sS][tT][oO][pP]_|[gG][lL][oO][bB][aA][lL]_)$", re.S)


def ws_delimitable(s):
    """CIF 2.0 wsdelim-string, usable at any position of a line (hence no leading ';'); '?' and '.' are not strings"""
    if not s or s in ("?", "."):
        return False
    if any(c in " \t\r\n[]{}" for c in s):
        return False
    if s[0] in "'\"#$_;":
        return False
    return not RESERVED.match(s)


DELIMS = {"-": "none", "0027": "'", "0022": '"', "002700270027": "'''", "002200220022": '"""', "000a003b": "text"}


def oracle(req_, impl):
    t = req_.split()
    units = unhexs(t[1])
    unq, tri, limit = int(t[2]), int(t[3]), int(t[4])
    f, probes = parse(impl)
    if f is None:
        return None
    if "len" not in f:
        return "cif_analyze_string failed or returned garbage: " + impl[:80]
    s = "".join(chr(u) for u in units)
    lines = re.split("\r\n|\r|\n", s)
    want = {
        "len": len(units), "lines": len(lines), "first": len(lines[0]), "last": len(lines[-1]),
        "max": max(len(l) for l in lines), "semi": max([len(m) for m in re.findall(";+", s)] or [0]),
        "nlsemi": int(any(l.startswith(";") for l in lines[1:])),
    }
    for k, v in want.items():
        if int(f[k]) != v:
            return "statistic %s: reported %s, exact value %d" % (k, f[k], v)
    blanks = " \t" if 11 not in units else None
    if blanks is not None:
        tw = int(any(l and l[-1] in blanks for l in lines))
        if int(f["trail"]) != tw:
            return "statistic trail: reported %s, exact value %d" % (f["trail"], tw)
    d = DELIMS.get(f["delim"])
    if d is None or int(f["dl"]) != (0 if f["delim"] == "-" else len(f["delim"]) // 4):
        return "unknown delimiter %s / delim_length %s" % (f["delim"], f["dl"])
    single = len(lines) == 1
    n = len(units)
    # permitted by the arguments
    if d == "none" and not unq:
        return "whitespace-delimited form recommended although allow_unquoted = 0"
    if d in ("'''", '"""') and not tri:
        return "triple-quoted form recommended although allow_triple_quoted = 0"
    # admissible for the string, and fits the limit
    if d == "none":
        if not ws_delimitable(s):
            return "whitespace-delimited form recommended for a string CIF 2.0 does not allow in that form"
        if n > limit:
            return "whitespace-delimited form does not fit the limit"
    elif d in ("'", '"'):
        if not single or d in s:
            return "delimiter %s recommended but the string contains it or a line terminator" % d
        if n + 2 > limit:
            return "single-quoted form does not fit the limit"
    elif d in ("'''", '"""'):
        if d in s or s.endswith(d[0]):
            return "delimiter %s recommended but the string contains it or ends with its character" % d
        if single and n + 6 > limit:
            return "triple-quoted form does not fit the limit"
        if not single and (want["first"] + 3 > limit or want["last"] + 3 > limit or want["max"] > limit):
            return "triple-quoted form does not fit the limit"
    # simple forms preferred
    if single and n + 2 <= limit:
        if unq and ws_delimitable(s) and d != "none":
            return "single line with room admits whitespace-delimited form, %s recommended" % d
        if ("'" not in s or '"' not in s) and d not in ("none", "'", '"'):
            return "single line with room admits a single-quoted form, %s recommended" % d
    # read-back through the real parser
    # text-field recommendations through the real WRITER (fold / prefix protocol where the analysis asks for it) and back: whatever
    # the line lengths, `<LF>;` sequences or reserved starts, the value comes back as exactly that string (modulo the parser's
    # EOL normalisation of CR, see below), quoted, with no error reported
    for p in probes or []:
        q = p.split(":")
        if q[0] != "W":
            continue
        if len(q) != 9:
            return "probe W did not run: %s" % p
        if not cif2_string(units):
            continue
        _, wrc, rc, nerr, ferr, items, kind, quoted, text = q
        if 13 in units:
            # a carriage return cannot be presented: cif_write refuses the value (CIF_DISALLOWED_VALUE)
            if int(wrc) != 62:
                return "probe W (cif_write of a string holding a CR): cif_write returned %s, not CIF_DISALLOWED_VALUE" % wrc
            continue
        if int(wrc) != 0:
            return "probe W (text field through cif_write): cif_write returned %s" % wrc
        if int(rc) != 0 or int(nerr) != 0:
            return "probe W (text field through cif_write): cif_parse rc=%s, %s errors, first error code %s" % (rc, nerr, ferr)
        if int(items) != 1 or int(kind) != 0:
            return "probe W (text field through cif_write): %s items, kind %s" % (items, kind)
        # (the writer analyses the value itself - as a quoted value, triple quotes allowed, limit 2048 - and may choose another
        #  delimiter than this request's flags gave; for CR-containing strings the two presentations normalise differently)
        if unhexs(text) not in (eol_norm(units + [10])[:-1], eol_norm(units)):
            return "probe W (text field through cif_write, fold / prefix protocol): read back %s" % text
        if int(quoted) != 1:
            return "probe W (text field through cif_write): quoted flag %s" % quoted
    probes = [p for p in (probes or []) if not p.startswith("W:")]
    if probes and probes[0] not in ("none", "proto") and cif2_string(units) and want["max"] <= 2048 \
            and not (d == "text" and want["first"] + 1 > 2048):      # ';' + first line over-long: needs the fold protocol
        # the parser normalises CR LF and CR to LF before tokenising (C08), so a string containing CR can only come back
        # EOL-normalised; in a text field a final CR merges with the LF of the closing delimiter
        back = eol_norm(units + [10])[:-1] if d == "text" else eol_norm(units)
        for p in probes:
            q = p.split(":")
            if len(q) != 8:
                if q[1:] == ["unencodable"]:
                    continue
                return "probe %s did not run: %s" % (q[0], p)
            lab, rc, nerr, ferr, items, kind, quoted, text = q
            if lab == "C" and limit > 2048:
                continue
            if int(rc) != 0 or int(nerr) != 0:
                return "probe %s (delimiter %s): cif_parse rc=%s, %s errors, first error code %s" % (lab, d, rc, nerr, ferr)
            if int(items) != 1 or int(kind) not in (0, 1):
                return "probe %s (delimiter %s): %s items, kind %s" % (lab, d, items, kind)
            if unhexs(text) != back:
                return "probe %s (delimiter %s): read back %s" % (lab, d, text)
            if int(quoted) != (0 if d == "none" else 1):
                return "probe %s (delimiter %s): quoted flag %s" % (lab, d, quoted)
    return None


def agree(impl, model, req_=None):
    return impl.partition(" | ")[0] == model


def nontrivial(req_, impl):
    return req_.split()[1] != "-"


def classify(req_, impl):
    f, probes = parse(impl)
    if not f or "delim" not in f:
        return "no-answer"
    return "%s/%s" % (DELIMS.get(f["delim"], "?"), "1-line" if f.get("lines") == "1" else "multi-line")


def finding_class(req_, impl, model, why):
    return None
