"""family `lex` (C01 lexical layer; reused by C03/C12): the real next_token() against Model.Lexer.nextToken.

Request:  lex <dialect 1|2> <fill f|b> <policy a|r<k>> <hex units> [<annotation>]
Answer:   lx toks=<ty>:<hex text>:<line>:<col>,… rc=<n> errs=<code>:<line>,…

The annotation (ignored by executor and model) carries what the GENERATOR knows about a rendering it produced from a
grammar: `X<expected toks field>|<expected errs field>`.  The oracle compares the implementation's observation with it;
for every request it additionally checks facts that need no annotation (see `oracle`).
"""
import os, sys
sys.path.insert(0, os.path.dirname(os.path.abspath(__file__)))
from common import hexs, unhexs, rng

FAMILY = "lex"
HARNESS = {"source": "x_lex.c", "exclude_objs": ["parser"], "leak_clean": True}
RULE = ("grammar-directed token sequences (blocks, frames, loops, names, lists, tables with keys, every presentation of random "
        "strings over the significant alphabet) rendered with random layout, both dialects; reserved words in all cases; "
        "lines of 2047..2050 characters in every context; plus a malformed stream (mutations, unpaired surrogates, "
        "disallowed characters, BOM, NUL, CR, truncation) under accept-all and reject-at-k policies.  non-trivial = at "
        "least 2 tokens before END or at least one report")

# enum token_type
BLOCK_HEAD, FRAME_HEAD, FRAME_TERM, LOOPKW, NAME, OTABLE, CTABLE, OLIST, CLIST, KEY, TKEY, VALUE, QVALUE, TVALUE, END, ERROR = range(16)
OVERLENGTH = 108
LF, SP, TAB, CR = 10, 32, 9, 13
SQ, DQ, SEMI, COLON, HASH = 39, 34, 59, 58, 35
PAIR = [0xD83D, 0xDE00]            # U+1F600
ALPHA2 = [ord(c) for c in "adtsvelopgb_#$'\";:\\?.[]{} \t\n"] + [0xE9, 0xFFFD, PAIR]
ALPHA1 = [ord(c) for c in "adtsvelopgb_#$'\";:\\?.[]{} \t\n"] + [ord("A"), ord("~")]
WORDS = ["data_", "save_", "loop_", "stop_", "global_", "data_x", "save_x", "loop_x", "stop_x", "global_x", "data", "save",
         "loop", "dat_a", "_data_", "data_[1]", "save_{a}", "DATA_", "Save_Fr", "LoOp_", "sToP_", "GLOBAL_", "Global_",
         "data_é", ";data_x", "x;", "?", ".", "a'b", 'a"b', "a;b", "a:b", "a#b", "a$b", "a_b", "-1.5(2)",
         ";data_x", ";save_f", ";SAVE_", ";Data_", ";loop_", ";dat_a"]


def flat(xs):
    out = []
    for x in xs:
        if isinstance(x, list):
            out += x
        else:
            out.append(x)
    return out


def u(s):
    return unhexs(hexs(s))


def is_ws(c):
    return c in (SP, TAB, LF, CR)


def lower(c):
    return c + 32 if 65 <= c <= 90 else c


def reserved_kind(s):
    """what the CIF grammars reserve among whitespace-delimited strings: data_<x>, save_<x>, save_, loop_, stop_, global_
    (case-insensitive).  Returns the token type, 'reserved' for the words that are errors, or None."""
    t = "".join(chr(lower(c)) if c < 128 else "?" for c in s)
    if t.startswith("data_"):
        return "reserved" if len(s) == 5 else BLOCK_HEAD
    if t.startswith("save_"):
        return FRAME_TERM if len(s) == 5 else FRAME_HEAD
    if t == "loop_":
        return LOOPKW
    if t in ("stop_", "global_"):
        return "reserved"
    return None


# ---------------------------------------------------------------------------------------------------------
# admissible presentations, written from the CIF 2.0 / CIF 1.1 grammars

def chars_ok(dia, s, inline=False):
    for c in s:
        if c in (LF,):
            if inline:
                return False
        elif c == TAB or 32 <= c < 127:
            pass
        elif dia == 2 and (0xA0 <= c <= 0xD7FF or 0xE000 <= c <= 0xFDCF or 0xFDF0 <= c <= 0xFFFD and c != 0xFEFF):
            pass
        elif dia == 2 and 0xD800 <= c <= 0xDFFF:
            pass        # only generated as well-formed pairs
        else:
            return False
    return True


def adm_bare(dia, s):
    if not s or any(is_ws(c) for c in s) or not chars_ok(dia, s):
        return False
    if s[0] in (SQ, DQ, HASH, ord("$"), ord("_")):
        return False
    if dia == 2 and any(c in (91, 93, 123, 125) for c in s):
        return False
    if dia == 1 and s[0] in (91, 93):
        return False
    return reserved_kind(s) is None


def adm_quoted(dia, s, q):
    if not chars_ok(dia, s, inline=True):
        return False
    if dia == 2:
        return q not in s
    return not any(s[i] == q and s[i + 1] in (SP, TAB) for i in range(len(s) - 1))


def adm_triple(dia, s, q):
    if dia != 2 or not chars_ok(dia, s):
        return False
    if s and s[-1] == q:
        return False
    return not any(s[i:i + 3] == [q, q, q] for i in range(len(s) - 2))


def adm_text(dia, s):
    if not chars_ok(dia, s):
        return False
    return not any(s[i] == LF and s[i + 1] == SEMI for i in range(len(s) - 1))


PRESENTATIONS = ["bare", "sq", "dq", "tsq", "tdq", "text"]


def admissible(dia, s, p):
    return {"bare": lambda: adm_bare(dia, s), "sq": lambda: adm_quoted(dia, s, SQ), "dq": lambda: adm_quoted(dia, s, DQ),
            "tsq": lambda: adm_triple(dia, s, SQ), "tdq": lambda: adm_triple(dia, s, DQ), "text": lambda: adm_text(dia, s)}[p]()


# ---------------------------------------------------------------------------------------------------------
# renderer with position tracking (what the document denotes, lexically)

class Doc:
    def __init__(self, dia, r):
        self.dia, self.r = dia, r
        self.units = []
        self.line, self.col = 1, 0
        self.toks = []
        self.after_ws = True          # nothing emitted yet: a token may start right away
        self.glue_close = True        # a closing bracket may follow the previous token without whitespace
        self.alpha = ALPHA2 if dia == 2 else ALPHA1
        self.errs = []                # expected reports other than over-length lines: (code, line), in order

    def emit(self, units):
        for c in units:
            prev = self.units[-1] if self.units else 0
            self.units.append(c)
            if c == LF:
                self.line += 1
                self.col = 0
            elif 0xDC00 <= c <= 0xDFFF and 0xD800 <= prev <= 0xDBFF:
                pass
            else:
                self.col += 1

    def tok(self, ty, text):
        self.toks.append((ty, list(text), self.line, self.col))

    # --- layout
    def comment(self):
        body = [c for c in self.rand_string(self.r.choice([0, 1, 3, 8])) if c != LF]
        self.emit([HASH] + body)

    def sep(self, required, col0=False, not_col0=False, maxatoms=4):
        """a separator: `required` = at least one whitespace unit; a comment may only come first where no whitespace is
        required; a comment is always followed by LF"""
        r = self.r
        n = r.choice([0, 1, 1, 1, 2, 3, maxatoms])
        if required and n == 0:
            n = 1
        first = True
        for _ in range(n):
            k = r.random()
            if k < 0.45:
                self.emit([SP])
            elif k < 0.55:
                self.emit([TAB])
            elif k < 0.8:
                self.emit([LF])
            elif first and not self.after_ws:
                self.emit([r.choice([SP, TAB, LF])])
                self.comment()
                self.emit([LF])
            else:
                self.comment()
                self.emit([LF])
            first = False
        if col0 and self.col != 0:
            self.emit([LF])
        if not_col0 and self.col == 0:
            self.emit([r.choice([SP, TAB])])

    def before(self, close=False, col0=False, not_col0=False):
        self.sep(required=not (self.after_ws or (close and self.glue_close)), col0=col0, not_col0=not_col0)
        self.glue_close = True

    # --- strings
    def rand_string(self, n):
        return flat(self.r.choice(self.alpha) for _ in range(n))

    def rand_value_string(self):
        r = self.r
        k = r.random()
        if k < 0.15:
            return u(r.choice(WORDS)) if self.dia == 2 else [c for c in u(r.choice(WORDS)) if c < 127]
        return self.rand_string(r.choice([0, 1, 1, 2, 2, 3, 4, 6, 10]))

    # --- tokens
    def value(self, s=None, p=None, key=False):
        r = self.r
        for _ in range(200):
            s1 = s if s is not None else self.rand_value_string()
            ps = [q for q in (PRESENTATIONS if p is None else [p]) if admissible(self.dia, s1, q)]
            if key:
                ps = [q for q in ps if q != "bare"]
            if ps:
                break
        else:
            s1, ps = u("x"), ["sq"]
        p1 = r.choice(ps)
        if p1 == "bare":
            self.before(not_col0=(s1[0] == SEMI))
            self.emit(s1)
            self.tok(VALUE, s1)
            self.after_ws = False
        elif p1 in ("sq", "dq"):
            q = SQ if p1 == "sq" else DQ
            self.before()
            self.emit([q] + s1 + [q])
            self.close_quoted(QVALUE, s1, key)
        elif p1 in ("tsq", "tdq"):
            q = SQ if p1 == "tsq" else DQ
            self.before()
            self.emit([q, q, q] + s1 + [q, q, q])
            self.close_quoted(QVALUE, s1, key)
        else:
            self.before(col0=True)
            self.emit([SEMI] + s1 + [LF, SEMI])
            self.close_quoted(TVALUE, s1, key)
        return p1

    def close_quoted(self, ty, s, key):
        if key and self.dia == 2:
            self.emit([COLON])
            self.tok(KEY if ty == QVALUE else TKEY, s)
            self.after_ws = True
        else:
            self.tok(ty, s)
            self.after_ws = False

    def word(self, ty, units, text):
        self.before(not_col0=(units[0] == SEMI))
        self.emit(units)
        self.tok(ty, text)
        self.after_ws = False
        self.glue_close = False       # `_name]`, `data_x]`, `save_]` would swallow the bracket

    def reserved(self):
        """an unquoted reserved word: reported as CIF_RESERVED_WORD (132) on its line and dropped (no token)"""
        r = self.r
        w = [ord(c.upper()) if r.random() < 0.4 else ord(c) for c in r.choice(["data_", "stop_", "global_"])]
        self.before()
        self.emit(w)
        self.errs.append((132, self.line))
        # the word ends at whitespace; the scanner then goes on as if the word had not been there
        self.after_ws = False
        self.glue_close = False

    def name(self):
        body = [c for c in self.rand_string(self.r.choice([1, 2, 5])) if not is_ws(c)] or u("n")
        self.word(NAME, [ord("_")] + body, [ord("_")] + body)

    def kw(self, word, ty, code=None):
        r = self.r
        w = [ord(c.upper()) if r.random() < 0.3 else ord(c) for c in word]
        body = code if code is not None else []
        self.word(ty, w + body, body)

    def code(self):
        return [c for c in self.rand_string(self.r.choice([1, 2, 5])) if not is_ws(c)] or u("b")

    def bracket(self, c, ty):
        self.before(close=(ty in (CLIST, CTABLE)))
        self.emit([c])
        self.tok(ty, [c])
        self.after_ws = ty in (OLIST, OTABLE)

    def anyvalue(self, depth):
        r = self.r
        k = r.random()
        if self.dia == 2 and depth > 0 and k < 0.15:
            self.bracket(91, OLIST)
            for _ in range(r.randint(0, 3)):
                self.anyvalue(depth - 1)
            self.bracket(93, CLIST)
        elif self.dia == 2 and depth > 0 and k < 0.3:
            self.bracket(123, OTABLE)
            for _ in range(r.randint(0, 3)):
                self.value(key=True)
                self.anyvalue(depth - 1)
            self.bracket(125, CTABLE)
        else:
            self.value()

    def items(self, n, depth=2):
        r = self.r
        for _ in range(n):
            k = r.random()
            if k < 0.6:
                self.name()
                self.anyvalue(depth)
            elif k < 0.8:
                self.kw("loop_", LOOPKW)
                m = r.randint(1, 3)
                for _ in range(m):
                    self.name()
                for _ in range(m * r.randint(1, 2)):
                    self.anyvalue(depth)
            else:
                self.kw("save_", FRAME_HEAD, self.code())
                self.items(r.randint(0, 2), depth)
                self.kw("save_", FRAME_TERM)

    def finish(self):
        if self.r.random() < 0.7:
            self.sep(required=False)
        self.tok(END, [])

    # --- observation strings
    def toks_field(self):
        return ",".join("%d:%s:%d:%d" % (ty, hexs(text), line, col) for ty, text, line, col in self.toks)


def expected_overlength(units):
    """lines (1-based) that are terminated by LF and hold more than 2048 characters, terminator excluded (a surrogate
    pair is one character; an unpaired surrogate counts as one)"""
    out, line, n, prev = [], 1, 0, 0
    for c in units:
        if c == LF:
            if n > 2048:
                out.append(line)
            line += 1
            n = 0
        elif 0xDC00 <= c <= 0xDFFF and 0xD800 <= prev <= 0xDBFF:
            prev = 0
            continue
        else:
            n += 1
        prev = c
    return out


def request(dia, fill, pol, units, annot=None):
    return "lex %d %s %s %s%s" % (dia, fill, pol, hexs(units), (" " + annot) if annot else "")


def annotated(doc, pol="a"):
    over = expected_overlength(doc.units)
    assert not (over and doc.errs)
    errs = ",".join("%d:%d" % e for e in ([(OVERLENGTH, l) for l in over] + doc.errs)) or "-"
    return request(doc.dia, "f", pol, doc.units, "X%s|%s" % (doc.toks_field(), errs))


# ---------------------------------------------------------------------------------------------------------
# generators

def gen_document(r, dia):
    d = Doc(dia, r)
    if r.random() < 0.5:
        d.sep(required=False)
    for _ in range(r.randint(1, 2)):
        d.kw("data_", BLOCK_HEAD, d.code())
        d.items(r.randint(0, 4))
    d.finish()
    return d


def gen_token_soup(r, dia):
    """tokens in arbitrary order: the scanner's only context is the previous token's type"""
    d = Doc(dia, r)
    for _ in range(r.randint(1, 10)):
        k = r.random()
        if k < 0.45:
            d.value()
        elif k < 0.55:
            d.name()
        elif k < 0.62:
            d.kw("loop_", LOOPKW)
        elif k < 0.7:
            d.kw("data_", BLOCK_HEAD, d.code())
        elif k < 0.78:
            d.kw("save_", FRAME_HEAD, d.code()) if r.random() < 0.5 else d.kw("save_", FRAME_TERM)
        elif dia == 2 and k < 0.9:
            c, ty = r.choice([(91, OLIST), (93, CLIST), (123, OTABLE), (125, CTABLE)])
            d.bracket(c, ty)
        elif dia == 2:
            d.value(key=True)
        else:
            d.value()
    d.finish()
    return d


def gen_reserved(r, dia):
    """a token sequence with unquoted reserved words (data_, stop_, global_ in any case) sprinkled in"""
    d = Doc(dia, r)
    for _ in range(r.randint(1, 6)):
        k = r.random()
        if k < 0.4:
            d.reserved()
        elif k < 0.7:
            d.value()
        elif k < 0.85:
            d.name()
        else:
            d.kw("loop_", LOOPKW)
    d.finish()
    return d


def gen_presentations(r, dia):
    """one string, every admissible presentation, one after the other"""
    d = Doc(dia, r)
    for _ in range(20):
        s = d.rand_value_string()
        ps = [p for p in PRESENTATIONS if admissible(dia, s, p)]
        if ps:
            break
    else:
        s, ps = u("v"), ["bare", "sq"]
    for p in ps:
        d.value(s=s, p=p)
    d.finish()
    return d


def filler(r, n, dia, pairs=False):
    """n characters without whitespace, quotes, brackets"""
    out = []
    for i in range(n):
        if pairs and dia == 2 and r.random() < 0.02:
            out += PAIR
        else:
            out.append(r.choice([97, 97, 97, 98, 46, 63, 0xE9 if dia == 2 else 99] + ([59] if i > 0 else [])))
    return out


def gen_longline(r, dia):
    """a document with one line of 2047..2050 characters, in a chosen context"""
    L = r.choice([2047, 2048, 2048, 2049, 2049, 2050])
    ctx = r.choice(["bare", "ws", "comment", "quoted", "text-first", "text-middle", "text-last", "name"]
                   + (["triple-open", "triple-middle", "triple-close", "key", "tkey", "pairs", "list"] if dia == 2 else []))
    d = Doc(dia, r)
    pre = r.random() < 0.5
    if pre:
        d.emit(u("'v'")); d.tok(QVALUE, u("v")); d.emit([LF])
        d.after_ws = True
    pairs = ctx == "pairs" or r.random() < 0.2
    if ctx in ("bare", "pairs"):
        s = [97] + filler(r, L - 1, dia, pairs)
        d.emit(s); d.tok(VALUE, s); d.after_ws = False
    elif ctx == "ws":
        d.emit(u("w")); d.tok(VALUE, u("w"))
        d.emit([r.choice([SP, TAB]) for _ in range(L - d.col)])
        d.after_ws = True
    elif ctx == "comment":
        d.emit([HASH] + filler(r, L - 1, dia, pairs))
    elif ctx == "quoted":
        s = filler(r, L - 2, dia, pairs)
        d.emit([DQ] + s + [DQ]); d.tok(QVALUE, s); d.after_ws = False
    elif ctx == "name":
        s = [95] + filler(r, L - 1, dia, pairs)
        d.emit(s); d.tok(NAME, s); d.after_ws = False
    elif ctx == "text-first":
        s = filler(r, L - 1, dia, pairs) + [LF] + u("end")
        d.emit([SEMI] + s + [LF, SEMI]); d.tok(TVALUE, s); d.after_ws = False
    elif ctx == "text-middle":
        s = u("first") + [LF] + filler(r, L, dia, pairs) + [LF] + u("last")
        d.emit([SEMI] + s + [LF, SEMI]); d.tok(TVALUE, s); d.after_ws = False
    elif ctx == "text-last":
        s = u("x")
        d.emit([SEMI] + s + [LF, SEMI]); d.tok(TVALUE, s); d.after_ws = False
        d.emit([SP] * (L - 2) + [35])
    elif ctx == "triple-open":
        s = filler(r, L - 3, dia, pairs) + [LF] + u("z")
        d.emit([SQ] * 3 + s + [SQ] * 3); d.tok(QVALUE, s); d.after_ws = False
    elif ctx == "triple-middle":
        s = u("a") + [LF] + filler(r, L, dia, pairs) + [LF] + u("z")
        d.emit([DQ] * 3 + s + [DQ] * 3); d.tok(QVALUE, s); d.after_ws = False
    elif ctx == "triple-close":
        s = u("a") + [LF] + filler(r, L - 5, dia, pairs)
        d.emit([DQ] * 3 + s + [DQ] * 3); d.tok(QVALUE, s); d.after_ws = False
        d.emit([SP, 35])
    elif ctx == "key":
        d.emit([123]); d.tok(OTABLE, [123])
        k = u("k")
        d.emit([SQ] + k + [SQ, COLON]); d.tok(KEY, k); d.after_ws = True
        s = filler(r, L - d.col - 1, dia, pairs)
        d.emit(s); d.tok(VALUE, s); d.after_ws = False
        d.emit([125]); d.tok(CTABLE, [125])
    elif ctx == "tkey":
        d.emit([SEMI] + u("k") + [LF, SEMI, COLON]); d.tok(TKEY, u("k")); d.after_ws = True
        s = [97] + filler(r, L - 3, dia, pairs)
        d.emit(s); d.tok(VALUE, s); d.after_ws = False
    elif ctx == "list":
        d.emit([91]); d.tok(OLIST, [91])
        s = [97] + filler(r, L - 3, dia, pairs)
        d.emit(s); d.tok(VALUE, s); d.after_ws = False
        d.emit([93]); d.tok(CLIST, [93])
    d.emit([LF])
    d.after_ws = True
    if r.random() < 0.6:
        d.value(s=u("t"), p="bare")
    d.finish()
    return d, ctx, L


BAD_UNITS = [0, 1, 7, 0x0B, 0x0C, 0x1F, 0x7F, 0x80, 0x9F, 0xA0, 0xFEFF, 0xFFFE, 0xFFFF, 0xFDD0, 0xFDEF, 0xFDF0, 0xD83D, 0xDE00,
             0xD800, 0xDBFF, 0xDC00, 0xDFFF, [0xD83F, 0xDFFE], [0xDBFF, 0xDFFF], [0xD83F, 0xDFFD], [0xD800, 0xDC00], CR,
             [CR, LF], 0xE9, 0x2A]


def mutate(r, units, dia):
    xs = list(units)
    for _ in range(r.choice([1, 1, 1, 2, 3])):
        k = r.random()
        alpha = ALPHA2 if dia == 2 else ALPHA1
        ins = flat([r.choice(BAD_UNITS)]) if r.random() < 0.5 else flat([r.choice(alpha)])
        if not xs or k < 0.35:
            i = r.randint(0, len(xs))
            xs[i:i] = ins
        elif k < 0.6:
            i = r.randrange(len(xs))
            del xs[i:i + r.choice([1, 1, 2, 5])]
        elif k < 0.8:
            i = r.randrange(len(xs))
            xs[i:i + 1] = ins
        elif k < 0.9:
            xs = xs[:r.randrange(len(xs) + 1)]
        else:
            i = r.randrange(len(xs))
            j = r.randrange(len(xs))
            xs[i], xs[j] = xs[j], xs[i]
    return xs


def rand_policy(r):
    k = r.random()
    if k < 0.6:
        return "a"
    return "r%d" % r.choice([0, 0, 1, 1, 2, 3, 5])


def generate(seed, tier):
    r = rng(seed, FAMILY)
    quick = tier == "quick"
    n_doc, n_soup, n_pres, n_long, n_mut, n_rand = (500, 700, 500, 90, 1200, 500) if quick else (8000, 10000, 8000, 1500, 20000, 8000)
    n_res = 150 if quick else 2500
    pool = []
    for i in range(n_doc):
        d = gen_document(r, 2 if i % 2 == 0 else 1)
        pool.append(d)
        yield annotated(d)
    for i in range(n_soup):
        d = gen_token_soup(r, 2 if i % 3 != 0 else 1)
        pool.append(d)
        yield annotated(d)
    for i in range(n_pres):
        d = gen_presentations(r, 2 if i % 3 != 0 else 1)
        pool.append(d)
        yield annotated(d)
    for i in range(n_res):
        d = gen_reserved(r, 2 if i % 2 == 0 else 1)
        pool.append(d)
        yield annotated(d)
    for i in range(n_long):
        d, ctx, L = gen_longline(r, 2 if i % 3 != 0 else 1)
        yield annotated(d)
        if i % 4 == 0:   # the same line under a rejecting policy, and with a defect on it
            yield request(d.dia, "f", "r0", d.units)
            yield request(d.dia, "f", "a", mutate(r, d.units, d.dia))
    # malformed stream
    for i in range(n_mut):
        d = r.choice(pool)
        xs = mutate(r, d.units, d.dia)
        fill = "b" if r.random() < 0.25 else "f"
        yield request(d.dia if r.random() < 0.9 else 3 - d.dia, fill, rand_policy(r), xs)
    for i in range(n_rand):
        dia = r.choice([1, 2])
        alpha = (ALPHA2 if dia == 2 else ALPHA1) + ([r.choice(BAD_UNITS)] if r.random() < 0.5 else [])
        xs = flat(r.choice(alpha) for _ in range(r.choice([1, 2, 3, 5, 8, 13, 30])))
        yield request(dia, "b" if r.random() < 0.3 else "f", rand_policy(r), xs)


# ---------------------------------------------------------------------------------------------------------
# observation helpers and oracle

def parse_obs(obs):
    """-> (toks [(ty, hex, line, col)], rc, errs [(code, line)]) or None"""
    t = obs.split()
    if len(t) != 4 or t[0] != "lx":
        return None
    try:
        toks = [] if t[1] == "toks=-" else [tuple(x.split(":")) for x in t[1][5:].split(",")]
        toks = [(int(a), b, int(c), int(d)) for a, b, c, d in toks]
        rc = int(t[2][3:])
        errs = [] if t[3] == "errs=-" else [tuple(int(y) for y in x.split(":")) for x in t[3][5:].split(",")]
        return toks, rc, errs
    except (ValueError, IndexError):
        return None


def eol_convert(units):
    out, i = [], 0
    while i < len(units):
        if units[i] == CR:
            out.append(LF)
            i += 2 if i + 1 < len(units) and units[i + 1] == LF else 1
        else:
            out.append(units[i])
            i += 1
    return out


def oracle(req, impl):
    """the lexical layer of C01 (and the scanner clauses of C03/C12) on the implementation's observation alone"""
    t = req.split()
    o = parse_obs(impl)
    if o is None:
        return None                      # crashes / timeouts are judged generically
    toks, rc, errs = o
    dia, fill, pol = int(t[1]), t[2], t[3]
    units = unhexs(t[4])
    if len(t) > 5 and t[5].startswith("X"):
        want_toks, want_errs = t[5][1:].split("|")
        got = impl.split()
        if got[1] != "toks=" + want_toks:
            return "well-formed rendering: token stream differs from what the document denotes (%s)" % first_diff(got[1][5:], want_toks)
        if pol == "a" and (got[3] != "errs=" + want_errs or rc != 0):
            return "well-formed rendering: reports %s rc=%d, expected errs=%s rc=0" % (got[3], rc, want_errs)
    if any(l < 1 for _, l in errs):
        return "a report carries line 0"
    if pol == "a":
        if rc != 0:
            return "accept-all policy, yet next_token returned %d" % rc
        if not toks or toks[-1][0] != END:
            return "token stream does not end with END"
    else:
        k = int(pol[1:])
        if len(errs) > k + 1:
            return "scanning went on after the rejected report"
        if len(errs) == k + 1 and rc != errs[k][0]:
            return "rejected report %d has code %d but next_token returned %d" % (k, errs[k][0], rc)
        if len(errs) <= k and rc != 0:
            return "next_token returned %d without a rejected report" % rc
    if any(ty == ERROR for ty, _, _, _ in toks):
        return "token of type ERROR escaped next_token"
    for (a, b) in zip(toks, toks[1:]):
        if b[2] < a[2]:
            return "token line numbers decrease"
    conv = eol_convert(units) if fill == "f" else units
    if pol == "a" and CR not in conv:
        nl = conv.count(LF)
        if toks[-1][2] != 1 + nl:
            return "END is reported at line %d but the input has %d line terminators" % (toks[-1][2], nl)
        want = expected_overlength(conv)
        got = [l for c, l in errs if c == OVERLENGTH]
        if got != want:
            return "CIF_OVERLENGTH_LINE reported for lines %s, lines longer than 2048 characters are %s" % (got[:5], want[:5])
    return None


def first_diff(a, b):
    xa, xb = a.split(","), b.split(",")
    for i, (p, q) in enumerate(zip(xa, xb)):
        if p != q:
            return "token %d: got %s, expected %s" % (i, p[:80], q[:80])
    return "got %d tokens, expected %d" % (len(xa), len(xb))


def agree(impl, model, req=None):
    return impl == model


def nontrivial(req, impl):
    o = parse_obs(impl)
    return bool(o) and (len(o[0]) >= 3 or len(o[2]) >= 1)


def classify(req, impl):
    t = req.split()
    kind = "wellformed" if len(t) > 5 else "malformed"
    o = parse_obs(impl)
    tag = ""
    if o:
        if any(c == OVERLENGTH for c, _ in o[2]):
            tag = "+overlength"
        elif o[2]:
            tag = "+reports"
        if o[1] != 0:
            tag += "+abort"
    return "cif%s/%s/%s%s" % (t[1], kind, "accept" if t[3] == "a" else "reject", tag)


def shrink(req):
    """drop the annotation, then shorten the unit string"""
    t = req.split()
    units = unhexs(t[4])
    base = t[:4]
    n = len(units)
    if len(t) > 5:
        yield " ".join(base + [t[4]])
    step = n // 2
    cands = 0
    while step >= 1 and cands < 400:
        for s in range(0, n, step):
            c = units[:s] + units[s + step:]
            cands += 1
            yield " ".join(base + [hexs(c)])
        step //= 2


def finding_class(req, impl, model, why):
    return None
