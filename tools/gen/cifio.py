"""family `cifio`: self-test of the shared CIF/value token language (harness/cifio.h, Driver/CifArg.lean, gen/cifdesc.py):
a CIF built through the public API and dumped through the public query API reads back as described."""
import os, sys
sys.path.insert(0, os.path.dirname(os.path.abspath(__file__)))
from common import rng
import cifdesc

FAMILY = "cifio"
HARNESS = {"source": "x_cifio.c", "leak_clean": True}
RULE = "random CIF descriptions (<= 3 blocks, 1 level of frames, scalar and looped items, nested values); non-trivial = has a loop"


def generate(seed, tier):
    r = rng(seed, FAMILY)
    for _ in range(300 if tier == "quick" else 5000):
        yield "cifio " + " ".join(cifdesc.rand_cif(r))


def nontrivial(req, impl):
    return " L:" in req


def classify(req, impl):
    return "frames" if " F:" in req else "flat"
