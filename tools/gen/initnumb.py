"""family `initnumb` (C10): cif_value_init_numb / cif_value_autoinit_numb"""
import os, re, sys
sys.path.insert(0, os.path.dirname(os.path.abspath(__file__)))
from common import hexs, unhexs, rng
import numbcommon as nc
from fractions import Fraction

FAMILY = "initnumb"
HARNESS = {"source": "x_initnumb.c", "extra_sources": ["x_numb_dbl.h"], "exclude_objs": ["value"], "leak_clean": True}
RULE = ("non-trivial = a distinct call within the documented preconditions that succeeds; oracle (implementation only, exact "
        "rationals): digits = |val|*10^scale rounded half-even, su digits likewise (absent or \"0\" when it rounds to zero), text "
        "denotes exactly digits*10^-scale, is in the documented notation (scientific iff scale < 0 or more leading zeroes than "
        "allowed), parses back (cif_value_parse_numb in the executor) to the same sign, digits, su and scale; autoinit with su > 0 "
        "chooses the largest scale whose rounded su is <= su_rule; invalid arguments give CIF_ARGUMENT_ERROR; LC_NUMERIC "
        "and the rounding mode are what they were before the call")

SU_RULES = [2, 9, 19, 27, 28, 29, 99]


def dtok(d):
    return nc.tok(*d)


def generate(seed, tier):
    r = rng(seed, FAMILY)
    n = 4000 if tier == "quick" else 120000
    Z = (False, 0, 0)
    def D(x):
        t = nc.parse_dbl(nc.dbl_token(x))
        return (t[1], t[2], t[3])
    for v, s, sc, ml in [(0.0004, 0.0, 2, 5), (1.0, 1e-20, 2, 5), (1.0, 0.0004, 2, 5), (-0.000123456, 0.000004, 7, 2), (12.3456, 0.0123, 3, 5),
                         (0.0, 0.0, 0, 0), (0.0, 0.0, 3, 5), (-0.0, 0.0, 2, 5), (-0.001, 0.0, 2, 5), (1e15, 0.0, -3, 5), (123456.0, 7.0, -2, 5),
                         (9.9999e-5, 0.0, 6, 3), (9.999999999999999e-5, 0.0, 25, 3), (0.5, 0.5, 0, 5), (1.5, 2.5, 0, 5), (1.0, -1.0, 2, 5),
                         (1.0, 0.0, 322, 5), (1.0, 0.0, -309, 5), (1.0, 0.0, 2, -1), (1.0, 0.0, 321, 5), (1e300, 0.0, -308, 5)]:
        yield "initnumb i %s %s %d %d" % (dtok(D(v)), dtok(D(s)), sc, ml)
    for v, s, rule in [(12.3456, 0.0123, 19), (12.3456, 0.0195, 19), (12.3456, 0.0196, 19), (12.3456, 0.095, 9), (12.3456, 0.0951, 9), (1.0, 0.0, 19),
                       (999999999999998.0, 0.0, 19), (0.1, 0.0, 19), (1e-300, 0.0, 19), (2.0 ** 60, 0.0, 19), (5.0, 3.0, 2), (5.0, 2.5, 2), (5.0, 0.25, 2),
                       (1.0, 0.0, 1), (1.0, 0.1, 0), (1.0, 0.1, 4294967295), (1.0, 995.0, 99), (1.0, 994.9, 99), (0.0, 0.0, 19), (1e22, 0.0, 19)]:
        yield "initnumb a %s %s %d" % (dtok(D(v)), dtok(D(s)), rule)
    for x, sc in [(1999999999.96, 1), (1999999999.996, 2), (12999999999.9996, 3), (1999999999.6, 0), (999999999999999999.0, 0),
                  (1.9999999999996e18, -6), (-1999999999.96, 1)]:
        yield "initnumb i %s %s %d 5" % (dtok(D(x)), dtok(D(0.96)), sc)
        yield "initnumb i %s %s %d 5" % (dtok(D(x)), dtok(Z), sc)
    # every decade of the double range in scientific notation: the width of the printed exponent changes at |exponent| = 10, 100
    # (and a value that rounds UP into the next decade crosses it), with and without su, both signs of the exponent
    for e in list(range(-110, -88)) + list(range(-12, -7)) + list(range(7, 13)) + list(range(88, 111)) + [-307, -300, -200, 200, 300, 307]:
        for mant in (1.0, 1.5, 9.96, 9.9996):
            x = float("%re%d" % (mant, e))
            yield "initnumb i %s %s %d 5" % (dtok(D(x)), dtok(Z), 2 - e)
            yield "initnumb i %s %s %d 0" % (dtok(D(-x)), dtok(D(x * 0.013)), 2 - e)
            yield "initnumb a %s %s 19" % (dtok(D(x)), dtok(D(x * 0.0123)))
    for i in range(300 if tier == "quick" else 6000):
        d, sc = nc.carry_ripple_case(r) if i % 2 == 0 else nc.nines_case(r)
        su = r.choice([Z, D(1999999999.96), D(0.96), D(9.996), nc.carry_ripple_case(r)[0]])
        su = (False, su[1], su[2])
        if r.random() < 0.5:
            yield "initnumb i %s %s %d %d" % (dtok(d), dtok(su), sc, r.choice([0, 5]))
        else:
            yield "initnumb a %s %s %d" % (dtok(d), dtok(su), r.choice(SU_RULES))
    for i in range(n):
        val = nc.rand_double(r)
        c = r.random()
        vq = Fraction(val[1]) * Fraction(2) ** val[2]
        k = nc.floor_log10(vq) if val[1] else 0
        if c < 0.5:
            # init_numb
            sc = r.choice([r.randint(0, 12) - k, r.randint(-3, 3) - k, r.randint(-308, 321), 9 * r.randint(-2, 4) + r.choice([-1, 0, 1])])
            sc = max(-308, min(321, sc))
            if r.random() < 0.03:
                sc = r.choice([-309, 322, 1000, -1000])
            cs = r.random()
            if cs < 0.3:
                su = Z
            else:
                # an su a few units in the last place kept
                mag = Fraction(r.choice([r.randint(1, 99), r.randint(1, 3000), 5, 15, 25])) / r.choice([1, 2, 4, 10, 20, 1000]) / Fraction(10) ** sc
                su = D(float(mag)) if 1e-300 < mag < 1e300 else D(1.0)
                su = (False, su[1], su[2])
                if r.random() < 0.02:
                    su = (True, su[1], su[2])     # negative su: argument error
            ml = r.choice([0, 1, 2, 3, 5, 5, 8, 400]) if r.random() > 0.02 else -1
            yield "initnumb i %s %s %d %d" % (dtok(val), dtok(su), sc, ml)
        else:
            rule = r.choice(SU_RULES) if r.random() < 0.93 else r.choice([0, 1, 3, 5, 6, 100, 1999, 4294967295])
            cs = r.random()
            if cs < 0.2:
                su = Z
            elif cs < 0.5:
                su = nc.rand_double(r)
                su = (False, su[1], su[2])
            else:
                # su with leading digits close to the rule: rule, rule +- a little, just below/above the rounding point
                p = len(str(rule)) if rule > 0 else 1
                lead = Fraction(r.choice([max(rule, 1), rule + 1, rule * 10 + 5, rule * 10 + 4, rule * 10 + 6, 10 ** p - 1, 10 ** p * 10 - 5,
                                          10 ** p * 10 - 4, 10 ** p * 10 - 6, 10 ** (p - 1), r.randint(1, 10 ** (p + 1))]))
                mag = lead / Fraction(10) ** (p + r.randint(-6, 12))
                su = D(float(mag)) if mag > 0 else Z
                su = (False, su[1], su[2])
            yield "initnumb a %s %s %d" % (dtok(val), dtok(su), rule)


def model_request(rq, impl):
    """the model takes libm's MSP(val) as observed in the executor (checked against the exact value by the oracle)"""
    a = nc.kv(impl)
    return rq + " " + a.get("msp", "0")


DEC_RE = re.compile(r"-?\d+(\.\d+)?(\(\d+\))?\Z")
SCI_RE = re.compile(r"-?\d(\.\d+)?e[+-]\d\d+(\(\d+\))?\Z")


def check_common(a, impl, val, su, scale, maxlead):
    """checks for a successful call at the scale the implementation used"""
    v, s = abs(nc.frac_of(val)), nc.frac_of(su)
    neg = nc.frac_of(val) < 0
    digits = nc.ascii_of_hex(a["digits"])
    sud = nc.ascii_of_hex(a["su"])
    text = nc.ascii_of_hex(a["text"])
    if int(a["scale"]) != scale:
        return "scale %s, expected %d" % (a["scale"], scale)
    if (a["neg"] == "1") != neg:
        return "sign flag"
    z = nc.scaled_round(v, scale)
    if digits != str(z):
        return "digits %s, correctly rounded %s" % (digits[:50], str(z)[:50])
    zs = nc.scaled_round(s, scale)
    if s == 0:
        if sud is not None:
            return "su digits for a zero su"
    elif zs == 0:
        if sud not in (None, "0"):
            return "su rounds to zero, digits %r" % sud
    elif sud != str(zs):
        return "su digits %s, correctly rounded %s" % (sud, zs)
    # the text denotes the same quantities
    p = nc.parse_number_text(text)
    if p is None:
        return "text %r is not a number" % text
    tneg, mant, fl, ex, tsu = p
    if tneg != neg or (tsu is None) != (sud is None) or (tsu is not None and tsu != sud):
        return "text %r: sign or su differ from the fields" % text
    if fl - ex != scale:
        return "text %r has %d decimal places, scale is %d" % (text[:60], fl - ex, scale)
    if int(mant) != z:
        return "text %r does not denote the digits %s" % (text[:60], digits[:40])
    # notation
    sci = bool(SCI_RE.match(text))
    if not sci and not DEC_RE.match(text):
        return "text %r is in neither documented notation" % text
    if len(text) > 2048:
        return "text longer than a line"
    lead_val = (-(nc.floor_log10(v) + 1) if (v != 0 and v < 1) else 0)
    lead_txt = max(0, scale - len(digits)) if z != 0 else lead_val
    must_sci = scale < 0 or (lead_val > maxlead and lead_txt > maxlead)
    must_dec = scale >= 0 and lead_val <= maxlead and lead_txt <= maxlead
    if must_sci and not sci:
        return "plain notation %r although %s" % (text[:40], "scale < 0" if scale < 0 else "it needs %d > %d leading zeroes" % (lead_val, maxlead))
    if must_dec and sci:
        return "scientific notation %r although scale >= 0 and only %d <= %d leading zeroes are needed" % (text[:40], lead_val, maxlead)
    # parse-back by the implementation
    if " | rp rc=0 " not in impl:
        return "the text does not parse back: " + impl.split("|")[-1]
    b = nc.kv(impl.split("|")[1])
    for k in ("neg", "digits", "su", "scale"):
        if b.get(k) != a.get(k):
            return "parse-back %s = %s, initialised %s" % (k, b.get(k), a.get(k))
    # read-back doubles
    want = nc.digits_value_token(digits, scale, neg and z != 0 or (neg and z == 0))
    if want is not None and a["val"] != want:
        return "value read back %s, nearest double %s" % (a["val"], want)
    if sud is not None:
        want = nc.digits_value_token(sud, scale)
        if want is not None and a["suv"] != want:
            return "su read back %s, nearest double %s" % (a["suv"], want)
    return None


def oracle(rq, impl):
    if not impl.startswith("in "):
        return None
    t = rq.split()
    a = nc.kv(impl.split("|")[0])          # the fields of the initialised value (the part after `|` is the parse-back)
    val, su = nc.parse_dbl(t[2]), nc.parse_dbl(t[3])
    if a.get("loc") != "0":
        return "LC_NUMERIC is not what it was before the call"
    if a.get("rnd") != "0":
        return "the floating-point rounding mode changed"
    s = nc.frac_of(su)
    v = abs(nc.frac_of(val))
    # libm's MSP against the exact floor(log10 |val|)
    if v != 0:
        k = nc.floor_log10(v)
        msp = int(a["msp"])
        if msp != k:
            return "MSP(val) = %d, exact floor(log10 |val|) = %d" % (msp, k)
    rc = int(a["rc"])
    if t[1] == "i":
        scale, ml = int(t[4]), int(t[5])
        bad = s < 0 or scale < -308 or scale > 321 or ml < 0
        if bad:
            return None if rc == nc.CIF_ARGUMENT_ERROR else "invalid arguments accepted (rc=%d)" % rc
        if rc != 0:
            return "valid arguments refused (rc=%d)" % rc
        return check_common(a, impl, val, su, scale, ml)
    rule = int(t[4])
    bad = s < 0 or rule < 2
    if bad:
        return None if rc == nc.CIF_ARGUMENT_ERROR else "invalid arguments accepted (rc=%d)" % rc
    if s == 0:
        # exact number: the scale is the implementation's choice; it may be refused only when it leaves the admitted range
        need = 0
        if v != 0:
            m, e = val[2], val[3]
            while m % 2 == 0:
                m //= 2
                e += 1
            need = max(0, -e)
        if rc != 0:
            return None if (rc == nc.CIF_ARGUMENT_ERROR and need > 321) else "exact number refused (rc=%d)" % rc
        sc = int(a["scale"])
        return check_common(a, impl, val, su, sc, 5)
    if rc != 0:
        # a scale outside the admitted range is the only documented reason
        x = nc.floor_log10(s)
        return None if (rc == nc.CIF_ARGUMENT_ERROR and not (-308 <= -x + len(str(rule)) - 1 <= 321 and -308 <= -x + len(str(rule)) - 2 <= 321)) \
            else "autoinit refused (rc=%d)" % rc
    sc = int(a["scale"])
    # the largest scale whose rounded su does not exceed the rule
    if nc.scaled_round(s, sc) > rule:
        return "rounded su %d exceeds the su_rule %d at scale %d" % (nc.scaled_round(s, sc), rule, sc)
    if nc.scaled_round(s, sc + 1) <= rule:
        return "scale %d is not the largest: at %d the rounded su is %d <= %d" % (sc, sc + 1, nc.scaled_round(s, sc + 1), rule)
    return check_common(a, impl, val, su, sc, 5)


def nontrivial(rq, impl):
    return impl.startswith("in rc=0 ")


def classify(rq, impl):
    t = rq.split()
    a = nc.kv(impl.split("|")[0])
    if not impl.startswith("in "):
        return "crash"
    if a["rc"] != "0":
        return t[1] + ":rc=" + a["rc"]
    text = nc.ascii_of_hex(a["text"])
    return "%s:%s:%s" % (t[1], "sci" if "e" in text else "dec", "su" if "(" in text else "exact")


def finding_class(rq, impl, model, why):
    return None
