"""family `valheap` (C19 / C16): the request stream of family `val`, observed through the allocation tracker — per operation
the change in the number of live heap blocks, at the end the number still live after everything has been released.
After every operation the executor also walks the real structures from the slots (dump hook `heap_summary` in x_valheap.c):
every live block must be reached exactly once (`!own` otherwise) and the contents of the string blocks are summarised as
<count>:<sum of FNV-1a hashes>; the model prints the same summary of its `str` cells.
The model side is the HEAP model (Model/Heap.lean) run on the same sequence.

Oracle (implementation only): no `!own`; every block allocated during the request has been released at the end (`end=0`), and an
operation that only queries (kind, text, cnt, lget, tget, pget, tkeys, pnames) leaves the number of live blocks unchanged."""
import os, sys
sys.path.insert(0, os.path.dirname(os.path.abspath(__file__)))
import val

FAMILY = "valheap"
HARNESS = {"source": "x_valheap.c", "exclude_objs": ["value"], "extra_sources": ["x_val_ops.h", "x_gg.h", "cifio.h", "alloc.h"],
           "leak_clean": True}
RULE = ("the operation sequences of family val (same generator, own seed stream); per operation the change in the number of live "
        "blocks reported by the allocation tracker of harness/alloc.h against the change the heap model predicts (model cells + 2 "
        "per non-empty uthash map), and the contents of all string blocks (count + hash sum) against the model's str cells; ownership walk "
        "(every live block reached exactly once from the slots); plus 3 (quick) / 25 (thorough) sequences on tables of 330-900 entries "
        "(past uthash's bucket expansions); non-trivial = a sequence with at least 3 operations that change the number of live blocks")
QUERY_OPS = ("kind", "text", "cnt", "lget", "tget", "pget", "tkeys", "pnames")


def generate(seed, tier):
    for r in val.generate("%s-heap" % seed, tier):
        yield "valheap" + r[3:]
    # tables beyond uthash's bucket expansions (the bucket array is replaced by a larger one: one block for one block)
    from common import rng
    rr = rng(seed, FAMILY + "-big")
    for _ in range(3 if tier == "quick" else 25):
        yield "valheap" + val.request(val.big_table(rr, tier == "quick"))[3:]


def _parts(impl):
    body = impl[3:] if impl.startswith("vh ") else ""
    if " # " not in body:
        return [], None
    ds, end = body.rsplit(" # ", 1)
    return ds.split(" "), end.split(" b=")[0]


def _buckets(impl):
    return int(impl.rsplit(" b=", 1)[1]) if " b=" in impl else 0


def oracle(req, impl):
    if not impl.startswith("vh"):
        return None
    ds, end = _parts(impl)
    if end is None:
        return "unexpected observation: " + impl[:200]
    if "overflow" in ds:
        return None
    if any("!own" in d for d in ds):
        i = [k for k, d in enumerate(ds) if "!own" in d][0]
        return ("after operation %d the live blocks are not exactly the blocks owned, once each, by the objects in the slots "
                "(a block nobody owns, a block reached twice, or a pointer that is not a live block)" % i)
    ds = [d.split(":")[0] for d in ds]
    if end != "end=0":
        return "blocks allocated during the sequence are still live after every object has been released: %s" % end
    ops = req[8:].split(" | ")
    for i, (o, d) in enumerate(zip(ops, ds)):
        if o.split(" ")[0] in QUERY_OPS and d not in ("0", "?"):
            return "operation %d (%s) only queries, yet the number of live blocks changed by %s" % (i, o[:60], d)
    return None


def agree(impl, model, req=None):
    if impl.split(" b=")[0] == model:     # b= (largest uthash bucket array met) is an observation about coverage, not compared
        return True
    ds, _ = _parts(impl)
    return "overflow" in ds           # more live blocks than the tracker can follow: nothing to compare


def nontrivial(req, impl):
    ds, _ = _parts(impl)
    ds = [d.split(":")[0] for d in ds]
    return sum(1 for d in ds if d not in ("0", "?")) >= 3


def classify(req, impl):
    return val.classify("val" + req[7:], impl) + (" uthash-expanded" if _buckets(impl) > 32 else "")


def shrink(req):
    for c in val.shrink("val" + req[7:]):
        yield "valheap" + c[3:]


def finding_class(req, impl, model, why):
    return None
