"""family `fills` (C08): the real get_first_char / get_more_chars / HANDLE_EOL / whole parser under CHOSEN chunkings of the
character stream and all three line-terminator conventions (see harness/x_fills.c for the request language)."""
import itertools, os, re, sys
sys.path.insert(0, os.path.dirname(os.path.abspath(__file__)))
from common import hexs, unhexs, rng

FAMILY = "fills"
HARNESS = {"source": "x_fills.c", "exclude_objs": ["parser"], "leak_clean": True}
RULE = ("modes d/k (direct get_first_char/get_more_chars): EVERY string over {a,CR,LF} up to length 6 (quick) / 8 (thorough) x EVERY "
        "chunking; mode p/q (cif_parse_internal, syntax only): every string over {a|space,CR,LF} up to length 5/6 x every chunking; "
        "mode e (real scan_ws/HANDLE_EOL on raw units): every string over {LF,CR,space} up to length 7/9; mode P: random CIF "
        "documents (text fields, triple quotes, surrogate pairs, comments, defects) re-spelled with LF/CRLF/CR mixtures under random "
        "chunkings incl. sizes 1,2,3,4095,4096,4097; long streams (>131200 units) for the buffer paths. non-trivial = the document "
        "contains a CR, or is cut into more than one chunk. oracle (implementation only): the units handed to the scanner are "
        "EOL-equivalent to the document (normalizeEOL equal); a parse (content, (code,line) log, final line) equals the parse of the "
        "LF form delivered in one piece")

CR, LF = 13, 10


def normalize_eol(u):
    out, i, n = [], 0, len(u)
    while i < n:
        if u[i] == CR:
            out.append(LF)
            if i + 1 < n and u[i + 1] == LF:
                i += 1
        else:
            out.append(u[i])
        i += 1
    return out


def compositions(n):
    """all ways to cut a string of length n into non-empty chunks, as lists of chunk lengths"""
    if n == 0:
        yield []
        return
    for mask in range(1 << (n - 1)):
        sizes, cur = [], 1
        for b in range(n - 1):
            if mask >> b & 1:
                sizes.append(cur)
                cur = 1
            else:
                cur += 1
        sizes.append(cur)
        yield sizes


def cuts_arg(sizes):
    return "-" if len(sizes) <= 1 else ",".join(map(str, sizes[:-1]))


def req(mode, units, cuts):
    return "fills %s %s %s" % (mode, hexs(units), cuts)


# ---------------------------------------------------------------------------------------------------------
# random CIF documents in LF form, then re-spelled

SUPP = [0xD83D, 0xDE00]          # U+1F600 as a surrogate pair
WORDS = ["abc", "x1", "1.5(3)", "?", ".", "a;b", "it's", "O'Neil", "#no", "_u", "data_", "[q]", "{r}", "q:w"]


def rand_word(r, v2):
    w = r.choice(WORDS)
    if not v2:
        return w
    if r.random() < 0.15:
        w += "".join(chr(c) for c in SUPP)
    if r.random() < 0.1:
        w += "é中"
    return w


def rand_value(r, v2, depth=0):
    k = r.random()
    if k < 0.30:
        w = rand_word(r, v2)
        if w[0] in "_#$'\"[]{};" or w in ("data_",) or w.lower().startswith(("data_", "save_", "loop_", "stop_", "global_")) \
                or (v2 and any(c in "[]{}" for c in w)):
            return "'" + w.replace("'", "") + "'"
        return w
    if k < 0.45:
        q = r.choice("'\"")
        w = rand_word(r, v2).replace(q, "")
        return q + w + (" " + rand_word(r, v2).replace(q, "") if r.random() < 0.5 else "") + q
    if k < 0.70:
        lines = []
        for _ in range(r.randint(0, 4)):
            t = r.choice(["", "text " + rand_word(r, v2), " ;not end", "x" * r.randint(0, 30), "\\", "a\\", "   ", ";" if False else "."])
            lines.append(t)
        first = r.choice(["", "first", "\\", "p>\\"])
        return "\n;" + first + "\n" + "".join(l + "\n" for l in lines) + ";"
    if v2 and k < 0.80:
        q = r.choice(["'''", '"""'])
        body = "\n".join(rand_word(r, v2).replace("'", "").replace('"', "") for _ in range(r.randint(1, 3)))
        return q + body + q
    if v2 and k < 0.90 and depth < 2:
        return "[" + " ".join(rand_value(r, v2, depth + 1) for _ in range(r.randint(0, 3))) + "]"
    if v2 and depth < 2:
        return "{" + " ".join("'k%d':%s" % (i, rand_value(r, v2, depth + 1)) for i in range(r.randint(0, 2))) + "}"
    return str(r.randint(-50, 5000))


def rand_sep(r):
    k = r.random()
    if k < 0.55:
        return " " * r.randint(1, 3)
    if k < 0.8:
        return "\n" * r.randint(1, 3)
    if k < 0.9:
        return " # a comment " + ("" if r.random() < 0.5 else "with ; and ' ") + "\n"
    return "\t\n  "


def rand_doc(r):
    v2 = r.random() < 0.6
    parts = []
    if v2:
        parts.append("#\\#CIF_2.0\n")
    elif r.random() < 0.3:
        parts.append("#\\#CIF_1.1\n")
    if r.random() < 0.3:
        parts.append("\n" * r.randint(1, 3))
    names = 0
    for b in range(r.randint(1, 3)):
        parts.append("data_b%d" % b + rand_sep(r))
        for _ in range(r.randint(0, 5)):
            k = r.random()
            if k < 0.6:
                names += 1
                parts.append("_n%d" % names + rand_sep(r) + rand_value(r, v2) + rand_sep(r))
            elif k < 0.85:
                n = r.randint(1, 3)
                parts.append("loop_" + rand_sep(r))
                for i in range(n):
                    names += 1
                    parts.append("_n%d" % names + rand_sep(r))
                for _ in range(r.randint(1, 3) * n):
                    parts.append(rand_value(r, v2) + rand_sep(r))
            elif k < 0.92:
                parts.append("save_f%d" % names + rand_sep(r) + "_s%d" % names + " " + rand_value(r, v2) + rand_sep(r) + "save_" + rand_sep(r))
            else:   # a defect, so that the error log is not empty
                parts.append(r.choice(["_lonely\n_next 1\n", "'unterminated\n", "loop_\n_e1\n", "stray ", "\x07bell ", "_d 1 2 ", "data_\n"]))
    doc = "".join(parts)
    if r.random() < 0.2:
        doc = doc.rstrip("\n")
    return doc


def respell(r, lf_doc):
    """every LF written as LF, CR LF or CR (pure styles and mixtures); never a bare CR directly before a bare LF"""
    style = r.choice(["lf", "crlf", "cr", "mix", "mix", "mix"])
    out, prev_bare_cr = [], False
    for u in lf_doc:
        if u != LF:
            out.append(u)
            prev_bare_cr = False
            continue
        s = style if style != "mix" else r.choice(["lf", "crlf", "cr"])
        if s == "lf" and prev_bare_cr:
            s = "crlf"
        out += {"lf": [LF], "crlf": [CR, LF], "cr": [CR]}[s]
        prev_bare_cr = (s == "cr")
    return out


def rand_cuts(r, units):
    n = len(units)
    k = r.random()
    if k < 0.12:
        return "*1"
    if k < 0.2:
        return "*2"
    if k < 0.26:
        return "*3"
    if k < 0.3:
        return "*%d" % r.choice([7, 64, 4095, 4096, 4097])
    if k < 0.6:
        # cuts right after interesting units
        sizes, last = [], 0
        for i, u in enumerate(units):
            if (u in (CR, 0xD83D, 59, 39, 34, 92) and r.random() < 0.5) or r.random() < 0.03:
                if i + 1 - last > 0 and i + 1 < n:
                    sizes.append(i + 1 - last)
                    last = i + 1
        return ",".join(map(str, sizes)) if sizes else "-"
    sizes, tot = [], 0
    while tot < n:
        s = r.choice([1, 1, 2, 3, 5, 8, 13, 40, 200])
        sizes.append(s)
        tot += s
    return ",".join(map(str, sizes[:-1])) if len(sizes) > 1 else "-"


def to_units(s):
    return unhexs(hexs(s)) if s else []


# ---------------------------------------------------------------------------------------------------------

def generate(seed, tier):
    r = rng(seed, FAMILY)
    thorough = tier != "quick"
    nmax = 8 if thorough else 6
    # 1. exhaustive: direct modes
    for n in range(0, nmax + 1):
        for s in itertools.product((97, CR, LF), repeat=n):
            for sizes in compositions(n):
                c = cuts_arg(sizes)
                yield req("d", s, c)
                if n <= nmax - 1:
                    yield req("k", s, c)
    # 2. exhaustive: through the whole parser; `a` is a letter (tokens between the terminators) or a blank (one whitespace run)
    pmax = 6 if thorough else 5
    for n in range(1, pmax + 1):
        for s in itertools.product((97, CR, LF), repeat=n):
            for sizes in compositions(n):
                c = cuts_arg(sizes)
                yield req("p", s, c)
                if n <= pmax - 1:
                    yield req("q", [32 if u == 97 else u for u in s], c)
    # 3. exhaustive: HANDLE_EOL on raw units
    for n in range(0, (9 if thorough else 7) + 1):
        for s in itertools.product((LF, CR, 32), repeat=n):
            yield req("e", s, "-")
    # 4. longer streams over the small alphabet, random chunkings, all direct modes
    for _ in range(3000 if thorough else 300):
        n = r.choice([9, 12, 20, 50, 300])
        s = [r.choice((97, 97, CR, CR, LF)) for _ in range(n)]
        yield req(r.choice("dkh"), s, rand_cuts(r, s))
    # 5. random CIF documents, re-spelled, random chunkings, managed parse
    for _ in range(6000 if thorough else 500):
        d = respell(r, to_units(rand_doc(r)))
        if r.random() < 0.1:
            d = [CR] * r.choice([1, 2]) + d
        yield req("P", d, rand_cuts(r, d))
    # 6. chunk sizes around the byte-buffer size and streams longer than the scan buffer (count binds; expansion / compaction)
    big = [(70000, "*4096"), (140000, "*4095"), (140000, "-"), (300000, "*4097"), (300000, "-")] if thorough else [(140000, "-"), (140000, "*4097")]
    for n, c in big:
        for mode in "dkh":
            s = [r.choice((97, 97, 97, 97, CR, LF)) for _ in range(n)]
            yield req(mode, s, c)
    for n, c in ([(9000, "*4095"), (9000, "*4096"), (9000, "*4097")]):
        s = []
        while len(s) < n:
            s += [97] * r.randint(0, 5) + r.choice(([CR, LF], [CR], [LF]))
        # make a CR LF pair straddle the first cut
        k = int(c[1:])
        s[k - 1:k + 1] = [CR, LF]
        yield req("d", s, c)
        yield req("p", s, c)


def _kv(obs):
    return dict(t.split("=", 1) for t in obs.split(" ")[1:] if "=" in t)


def model_request(req_, impl):
    m = re.search(r" counts=(\S+)", impl)
    return req_ + (" counts=" + m.group(1) if m else "")


def agree(impl, model, req_=None):
    t = (req_ or "").split(" ")
    mode = t[1] if len(t) > 1 else "?"
    if not impl.startswith("fl "):
        return impl == model
    if mode in "dkh":
        return " ".join(impl.split(" ")[:3]) == model
    a, b = _kv(impl), _kv(model)
    if mode == "e":
        return a.get("lines") == b.get("lines")
    if mode in "pq":
        return a.get("lines") == b.get("lines") and (b.get("ws") == "?" or a.get("ws") == b.get("ws"))
    if mode == "P":
        return a.get("rc") != "0" or a.get("lines") == b.get("lines")
    return impl == model


def oracle(req_, impl):
    t = req_.split(" ")
    if len(t) < 4 or not impl.startswith("fl "):
        return None
    mode, doc = t[1], unhexs(t[2])
    if mode in "dkh":
        f = impl.split(" ")
        seen = unhexs(f[1])
        if "eof=1" not in f:
            return "the fill functions did not reach the end of the input: " + impl[-60:]
        if normalize_eol(seen) != normalize_eol(doc):
            return "the units handed to the scanner are not EOL-equivalent to the document"
        return None
    if mode == "e":
        a = _kv(impl)
        want = 1 + sum(1 for u in normalize_eol(doc) if u == LF)
        if a.get("lines") != str(want):
            return "HANDLE_EOL counted %s lines, the stream has %d" % (a.get("lines"), want)
        return None
    m = re.search(r" ref=(.*)$", impl)
    if m and m.group(1) != "=":
        return "the parse differs from the parse of the LF form delivered in one piece"
    return None


def finding_class(req_, impl, model, why):
    # no open finding.  Repaired: G1 (three leading CRs; /repo a8669bf), G2 (stale `top` in scan_delim_string; /repo e9c24e1)
    return None


def nontrivial(req_, impl):
    t = req_.split(" ")
    return len(t) >= 4 and ("000d" in re.findall("....", t[2]) or t[3] != "-")


def classify(req_, impl):
    t = req_.split(" ")
    mode = t[1] if len(t) > 1 else "?"
    units = re.findall("....", t[2]) if len(t) > 2 and t[2] != "-" else []
    has_cr = "000d" in units
    crlf = any(units[i] == "000d" and units[i + 1] == "000a" for i in range(len(units) - 1))
    size = "long" if len(units) > 131200 else ("mid" if len(units) > 8 else "short")
    return "%s/%s/%s/%s" % (mode, size, "crlf" if crlf else ("cr" if has_cr else "lf-only"), "1chunk" if t[3] == "-" else "chunked")


def shrink(req_):
    t = req_.split(" ")
    if len(t) < 4:
        return
    mode, doc, cuts = t[1], unhexs(t[2]), t[3]
    for c in ("-", "*1", "*2"):
        if c != cuts and len(c) < len(cuts):
            yield req(mode, doc, c)
    n = len(doc)
    step = n // 2
    while step >= 1:
        for s in range(0, n, step):
            d = doc[:s] + doc[s + step:]
            yield req(mode, d, cuts)
        step //= 2
