"""family `writeval11` (C13): family `writeval` with CIF 1.1 output (`cif_version = 1`); same executor, same model family,
same oracle — see tools/gen/writeval.py"""
import os, sys
sys.path.insert(0, os.path.dirname(os.path.abspath(__file__)))
import writeval as _base
from writeval import *          # noqa: F401,F403  (oracle, agree, classify, nontrivial, finding_class, shrink, model_request …)

FAMILY = "writeval11"
HARNESS = dict(_base.HARNESS)
RULE = "CIF 1.1 output mode; " + _base.RULE


def generate(seed, tier):
    return _base.generate_for(1, FAMILY, seed, tier)
