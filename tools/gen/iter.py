"""family `iter` (C06): for a set of loop shapes, ALL sequences of iterator calls up to a length bound.

Request language / observation format: harness/x_store.c (the `store` language).  One request: build one block with the
subject loop (and a second loop owning the foreign item `_zz`), open an iterator on the subject loop, make the calls of
one word over {n: next, u: update(own items), f: update(packet containing a foreign item), r: remove} followed by close or
abort, then call cif_container_set_value (a non-iterator call that needs its own transaction).
The oracle is C06 stated on the observation: it replays the documented life cycle on the packets that the dump showed
before the iterator was opened — it never looks at the model.
"""
import itertools, os, sys
sys.path.insert(0, os.path.dirname(os.path.abspath(__file__)))
from common import hexs, rng
import store as S
import storecontract

FAMILY = "iter"
HARNESS = {"source": "x_iter.c", "leak_clean": True, "extra_sources": ["x_store_body.h", "cifio.h"]}
RULE = ("exhaustive: every word over {next, update(own), update(foreign item), remove} of length <= 4 (quick) / <= 6 (thorough) "
        "followed by close or abort; a refused second get_packets at every position of every short word; savepoint sessions = every "
        "combination of {nested-savepoint call on the iterated CIF: names, loops, getval, failing addpkt / mkloop / additem} x {1..3 successful "
        "updates} x {failing iterator call: foreign item first / middle / last, update / remove without current packet} x {close, abort}; "
        "for each loop shape (1-4 items x 0-6 packets, scalar loop, packets with unset items, "
        "destroyed loop); non-trivial = the iterator was opened; oracle = C06 replayed on the packets shown by the dump")

FINISHED, INVALID_HANDLE, MISUSE, WRONG_LOOP, EMPTY_LOOP = 1, 4, 7, 35, 36
CIF_ERROR = 2
ITEMS = ["_a", "_B", "_é", "_d.x"]


def nm(s):
    return S.name_tok(s, True)


def val(i, j, gen=0):
    kinds = ["C1:" + hexs("v%d.%d.%d" % (i, j, gen)), "M0:" + hexs("%d.%d" % (i + 1, j)), "N", "C0:" + hexs("w%d%d%d" % (i, j, gen)), "U"]
    return kinds[(i * 3 + j + gen) % len(kinds)]


def alt(n):
    """another spelling of the same item name"""
    return {"_a": "_A", "_B": "_b", "_é": "_É", "_d.x": "_D.X"}.get(n, n)


def shapes(tier):
    """(tag, items, packets, scalar, omit) — omit: packets leave out the last item (reads back as the unknown value)"""
    q = [("s1", 1, 1, True, False), ("s2", 2, 1, True, False), ("l1x2", 1, 2, False, False), ("l2x3", 2, 3, False, False),
         ("l3x1", 3, 1, False, False), ("l2x2o", 2, 2, False, True), ("l1x0", 1, 0, False, False), ("gone", 1, 1, False, False)]
    if tier == "quick":
        return q
    return q + [("l4x6", 4, 6, False, False), ("l1x6", 1, 6, False, False), ("l4x1", 4, 1, False, False), ("l2x4", 2, 4, False, False),
                ("l3x3o", 3, 3, False, True), ("s4", 4, 1, True, False)]


def setup(tag, nitems, npk, scalar, omit):
    t = ["cif+", "mkblock", "0", S.name_tok("blk", False)]
    names = ITEMS[:nitems]
    if scalar:
        for j, n in enumerate(names):
            t += ["setval", "0", nm(n), val(0, j)]
        t += ["itemloop", "0", nm(names[0].upper() if names[0] != "_é" else names[0])]
    else:
        t += ["mkloop", "0", hexs("cat"), str(nitems)] + [nm(n) for n in names]
        for i in range(npk):
            use = names[:-1] if (omit and nitems > 1) else names
            t += ["addpkt", "0", str(len(use))]
            for j, n in enumerate(use):
                t += [nm(n), val(i, j)]
    t += ["mkloop", "0", "~", "1", nm("_zz"), "addpkt", "1", "1", nm("_zz"), "C1:" + hexs("z")]
    nlh = 2
    if tag == "gone":
        t += ["itemloop", "0", nm(names[0]), "ldestroy", "2"]
        nlh = 3
    # a second block of the same CIF holding the SAME item names in loops with OTHER loop numbers (its loop 0 holds `_zz`,
    # which the first block keeps in loop 1; the subject's names come second), with values at the same row numbers: a
    # statement that forgets `container_id` next to a name or loop_num predicate shows in the whole-CIF dump
    t += ["mkblock", "0", S.name_tok("blk2", False), "mkloop", "1", hexs("cat"), "1", nm("_ZZ"), "addpkt", str(nlh), "1", nm("_zz"), "C1:" + hexs("y")]
    t += ["mkloop", "1", "~", str(nitems)] + [nm(n) for n in names]
    for i in range(max(1, min(npk, 2))):
        t += ["addpkt", str(nlh + 1), str(nitems)]
        for j, n in enumerate(names):
            t += [nm(n), val(i, j, 3)]
    return t, names


def calls(word, names, end):
    t = []
    for k, ch in enumerate(word):
        if ch == "n":
            # every second `next` hands over a packet of the caller's: empty / a subset of the loop's names / foreign names too /
            # all names in another spelling; the delivered packet is then asked for every name of the loop and a foreign one
            flavour = (k + len(word)) % 6
            probes = [alt(n) for n in names] + ["_zz"]
            if flavour in (0, 3):
                t += ["itnext", "0"]
                continue
            if flavour == 1:
                mine = []
            elif flavour == 2:
                mine = [alt(n) for n in names[: 1 + (k % len(names))]]
            elif flavour == 4:
                mine = ["_zz"] + [n for n in names[k % len(names):]] + ["_yy"]
            else:
                mine = [alt(n) for n in reversed(names)]
            t += ["itnextp", "0", str(len(mine))]
            for j, n in enumerate(mine):
                t += [nm(n), val(k, j, 5)]
            t += [str(len(probes))] + [nm(n) for n in probes]
        elif ch == "u":
            use = names[: 1 + (k % len(names))]
            t += ["itupd", "0", str(len(use))]
            for j, n in enumerate(use):
                t += [nm(n), val(k, j, 7)]
        elif ch == "f":
            # the foreign item at the first / middle / last position, depending on the step
            use = [(n, val(k, j, 9)) for j, n in enumerate(names)]
            use.insert(k % (len(use) + 1), ("_zz", "C1:" + hexs("bad")))
            t += ["itupd", "0", str(len(use))]
            for n, v in use:
                t += [nm(n), v]
        elif ch == "r":
            t += ["itrem", "0"]
        elif ch == "o":
            # a second cif_loop_get_packets while the iterator is open, on the same loop: refused (one iterator at a time per
            # CIF), and the open iterator must not notice
            t += ["itopen", "0"]
        elif ch == "O":
            # … and on another loop of the same block
            t += ["itopen", "1"]
    t += ["itclose" if end == "c" else "itabort", "0"]
    return t


def generate(seed, tier):
    maxw = 4 if tier == "quick" else 6
    for shp in shapes(tier):
        pre, names = setup(*shp)
        words = [""]
        if shp[0] not in ("l1x0", "gone"):
            words = ["".join(w) for n in range(maxw + 1) for w in itertools.product("nufr", repeat=n)]
        for w in words:
            for end in "ca":
                yield "iter " + " ".join(pre + ["itopen", "0"] + calls(w, names, end) + ["setval", "0", nm("_free"), "C1:" + hexs("ok")])
        # sessions around left-over savepoints (seeded change of C05: a failing iterator call whose `rollback to s` reaches a
        # savepoint an EARLIER nested call left on the stack undoes the successful updates made in between)
        if shp[0] in (("l2x3", "s2", "l1x2") if tier == "quick" else ("l2x3", "s2", "l1x2", "l3x1", "l2x2o", "l4x6", "l2x4", "s4")):
            for r in savepoint_sessions(pre, names):
                yield r
        # a refused second get_packets at every position of every short call sequence (seeded change C06_6: the clean-up ROLLBACK
        # of the refused call ended the open iterator's transaction)
        if shp[0] not in ("l1x0", "gone"):
            maxo = 2 if tier == "quick" else 3
            for w in ["".join(x) for n in range(maxo + 1) for x in itertools.product("nur", repeat=n)]:
                for pos in range(len(w) + 1):
                    for kind in "oO":
                        for end in "ca":
                            w2 = w[:pos] + kind + w[pos:]
                            yield "iter " + " ".join(pre + ["itopen", "0"] + calls(w2, names, end) + ["setval", "0", nm("_free"), "C1:" + hexs("ok")])


NESTED = ["names", "loops", "getval", "addpkt-fail", "mkloop-fail", "additem-fail"]
FAILS = ["wrong-first", "wrong-middle", "wrong-last", "misuse-update", "misuse-remove"]


def nested_call(kind, names):
    """a non-iterator call on the iterated CIF inside the iterator's transaction that works through a nested savepoint
    (BEGIN_NESTTX = `savepoint s`; ROLLBACK_NESTTX = `rollback to s`, which keeps the savepoint on SQLite's stack) and either
    only reads or fails softly: nothing the dumps show may change"""
    if kind == "names":
        return ["names", "0"]
    if kind == "loops":
        return ["loops", "0"]
    if kind == "getval":
        return ["getval", "0", nm(alt(names[0]))]
    if kind == "addpkt-fail":        # an item of another loop: CIF_WRONG_LOOP after the row counter was bumped
        return ["addpkt", "0", "2", nm(names[0]), "C1:" + hexs("p"), nm("_zz"), "C1:" + hexs("q")]
    if kind == "mkloop-fail":        # the second name is the subject's: CIF_DUP_ITEMNAME after the loop row was inserted
        return ["mkloop", "0", hexs("c9"), "2", nm("_new"), nm(alt(names[0]))]
    if kind == "additem-fail":       # the container has the item already: CIF_DUP_ITEMNAME
        return ["additem", "1", nm(alt(names[0])), "C1:" + hexs("r")]
    raise ValueError(kind)


def savepoint_sessions(pre, names):
    """inside ONE open iterator: next; a nested-savepoint call (reads / soft failure); 1..3 SUCCESSFUL updates; a FAILING iterator
    call (update naming an item of another loop at the first / middle / last position: CIF_WRONG_LOOP; update or remove without a
    current packet: CIF_MISUSE, reached through a successful remove); then next, update, close or abort.  The oracle replays the
    life cycle: the failed call must change nothing — the successful updates made before it stay visible inside the transaction
    and are permanent after close."""
    def upd(gen, use=None):
        use = names if use is None else use
        t = ["itupd", "0", str(len(use))]
        for j, n in enumerate(use):
            t += [nm(n), val(gen, j, 11)]
        return t
    for nk in NESTED:
        for nsucc in (1, 2, 3):
            for fk in FAILS:
                for end in "ca":
                    t = ["itnext", "0"] + nested_call(nk, names)
                    for g in range(nsucc):
                        t += upd(g, names[: 1 + (g % len(names))])
                    if fk.startswith("wrong"):
                        use = [(n, val(7, j, 9)) for j, n in enumerate(names)]
                        pos = {"wrong-first": 0, "wrong-middle": (len(use) + 1) // 2, "wrong-last": len(use)}[fk]
                        use.insert(pos, ("_zz", "C1:" + hexs("bad")))
                        t += ["itupd", "0", str(len(use))]
                        for n, v in use:
                            t += [nm(n), v]
                    elif fk == "misuse-update":
                        t += ["itrem", "0"] + upd(8)
                    else:
                        t += ["itrem", "0", "itrem", "0"]
                    t += ["itnext", "0"] + upd(9) + ["itclose" if end == "c" else "itabort", "0"]
                    yield "iter " + " ".join(pre + ["itopen", "0"] + t + ["setval", "0", nm("_free"), "C1:" + hexs("ok")])


def violations(req, impl):
    ops = S.parse_request(req)
    steps = S.parse_answer(impl)
    if steps is None:
        return []
    if len(steps) != len(ops):
        return ["observation has %d steps for %d ops" % (len(steps), len(ops))]
    out = []
    io = next(i for i, o in enumerate(ops) if o["op"] == "itopen")
    try:
        before = S.parse_dump(steps[io - 1]["dumps"][0].split(" "))
    except S.Bad as e:
        return ["dump before the iterator: %s" % e]
    bi = next((i for i, b in enumerate(before) if b["code"] == "blk"), 0)
    blk = before[bi]
    subject = [l for l in blk["loops"] if "_zz" not in l["names"]]
    loop = subject[0] if subject else None
    rc = steps[io]["rc"]
    if loop is None:
        if rc != INVALID_HANDLE:
            out.append("itopen on a destroyed loop returned %s, not CIF_INVALID_HANDLE" % rc)
        if steps[io]["ac"] != "1":
            out.append("a failed itopen left a transaction open")
        return out
    if not loop["packets"]:
        if rc != EMPTY_LOOP:
            out.append("itopen on a loop without packets returned %s, not CIF_EMPTY_LOOP" % rc)
        if steps[io]["ac"] != "1":
            out.append("a failed itopen left a transaction open")
        return out
    if rc != 0 or steps[io]["ac"] != "0":
        return ["itopen returned %s (autocommit %s)" % (rc, steps[io]["ac"])]
    names = loop["names"]
    keys = [S.norm(n) for n in names]
    orig = [list(p) for p in loop["packets"]]
    work = [list(p) for p in orig]          # None = removed
    idx, cur = 0, None

    def expected_dump(packets):
        import copy
        b = copy.deepcopy(before)
        for l in b[bi]["loops"]:
            if l["names"] == names:
                l["packets"] = [p for p in packets if p is not None]
        return b

    for k in range(io + 1, len(ops)):
        o, st = ops[k], steps[k]
        where = "call %d (%s) rc=%s" % (k - io, o["op"], st["rc"])
        if o["op"] in ("itnext", "itnextp"):
            if o["op"] == "itnextp" and st["rc"] == 0 and idx < len(orig):
                # the caller's packet after delivery: exactly the loop's items, retrievable under any spelling, with the packet's
                # values; nothing of what the caller had put in survives
                gotnames = sorted(S.norm(S.ustr(x[2:])) for x in st["out"] if x.startswith("N:"))
                if gotnames != sorted(keys):
                    out.append("%s: the caller's packet holds the names %r after delivery, the loop's items are %r" % (where, gotnames, sorted(keys)))
                cells = dict(tuple(x.split("=", 1)) for x in join_values([x for x in st["out"] if not x.startswith("N:")]))
                for pn in o["probes"]:
                    have = cells.get(hexs(pn[0]))
                    want = orig[idx][keys.index(pn[1])] if pn[1] in keys else "!43"
                    if have != want:
                        out.append("%s: cif_packet_get_item(%r) on the delivered packet gives %s, expected %s" % (where, pn[0], have, want))
                        break
                st = dict(st, out=["%s=%s" % (hexs(kk), vv) for kk, vv in zip(keys, orig[idx])])
            if idx < len(orig):
                want = dict((hexs(a), b) for a, b in zip(keys, orig[idx]))
                got = dict(tuple(x.split("=", 1)) for x in join_values(st["out"]))
                if st["rc"] != 0:
                    out.append("%s: packet %d was due" % (where, idx + 1))
                elif got != want:
                    out.append("%s: delivered %r, expected packet %d = %r" % (where, got, idx + 1, want))
                cur = idx
                idx += 1
            elif st["rc"] != FINISHED:
                out.append("%s: every packet was delivered, CIF_FINISHED was due" % where)
        elif o["op"] == "itupd":
            foreign = any(n[1] not in keys for n, v in o["pkt"])
            if cur is None:
                if st["rc"] != MISUSE:
                    out.append("%s: no current packet, CIF_MISUSE was due" % where)
            elif foreign:
                if st["rc"] != WRONG_LOOP:
                    out.append("%s: the packet names an item of another loop, CIF_WRONG_LOOP was due" % where)
            else:
                if st["rc"] != 0:
                    out.append("%s: the update should succeed" % where)
                for n, v in o["pkt"]:
                    work[cur][keys.index(n[1])] = v
        elif o["op"] == "itrem":
            if cur is None:
                if st["rc"] != MISUSE:
                    out.append("%s: no current packet, CIF_MISUSE was due" % where)
            else:
                if st["rc"] != 0:
                    out.append("%s: the removal should succeed" % where)
                work[cur] = None
                cur = None
        elif o["op"] == "itopen":
            # one iterator at a time per CIF: the second get_packets is refused and changes nothing
            if st["rc"] != CIF_ERROR:
                out.append("%s: a second cif_loop_get_packets while an iterator is open must be refused with CIF_ERROR" % where)
            if st["ac"] != "0":
                out.append("%s: the refused cif_loop_get_packets ended the open iterator's transaction" % where)
        elif o["op"] in ("itclose", "itabort"):
            if st["rc"] != 0:
                out.append("%s: should succeed" % where)
            if st["ac"] != "1":
                out.append("%s: the transaction is still open" % where)
            if o["op"] == "itabort":
                work = [list(p) for p in orig]
        elif o["op"] == "setval":
            if st["rc"] != 0:
                out.append("%s: the CIF is not free for ordinary operations after the iterator ended" % where)
            continue
        elif o["op"] in ("names", "loops", "getval"):
            # reads on the iterated CIF inside the iterator's transaction (cif_write does this): they succeed and change nothing
            if st["rc"] not in (0, 44):
                out.append("%s: a read inside the iterator's transaction should succeed" % where)
            if st["ac"] != "0":
                out.append("%s: the call ended the open iterator's transaction" % where)
        elif o["op"] in ("addpkt", "mkloop", "additem"):
            # constructed to fail softly inside the iterator's transaction: an error code, nothing changed (the dump comparison below)
            if st["rc"] in (0, None):
                out.append("%s: constructed to fail (item of another loop / duplicate item name)" % where)
            if st["ac"] != "0":
                out.append("%s: the failed call ended the open iterator's transaction" % where)
        try:
            got = S.parse_dump(st["dumps"][0].split(" ")) if st["dumps"].get(0) else []
        except S.Bad as e:
            out.append("%s: %s" % (where, e))
            continue
        exp = expected_dump(work)
        if got != exp and len(got) > bi and [l for l in got[bi]["loops"] if l["names"] == names] == [l for l in exp[bi]["loops"] if l["names"] == names]:
            out.append("%s: the subject loop is as expected but another loop or container of the CIF changed: %s" % (where, (st["dumps"].get(0) or "")[:500]))
        elif got != exp:
            out.append("%s: loop content is %r, expected %r" % (where, [l["packets"] for l in got[bi]["loops"] if l["names"] == names] if len(got) > bi else got,
                                                                [p for p in work if p is not None]))
    return out


def join_values(toks):
    """re-join `key=[ a b ]` style values split on spaces"""
    out = []
    for t in toks:
        if "=" in t and not (out and out[-1].count("[") + out[-1].count("{") > out[-1].count("]") + out[-1].count("}")):
            out.append(t)
        elif out:
            out[-1] += " " + t
    return out


def oracle(req, impl):
    v = violations(req, impl)
    return v[0] if v else None


def nontrivial(req, impl):
    return " | rc=0 ; ac=0" in impl


def classify(req, impl):
    ops = req.split(" ")
    n = sum(1 for t in ops if t in ("itnext", "itupd", "itrem"))
    return "calls=%d %s %s" % (n, "abort" if "itabort" in ops else "close", storecontract.label(req))


def model_request(req, impl):
    return storecontract.record(req)


def finding_class(req, impl, model, why):
    return None
