"""family `storeval` (C07): a value stored through each of the five routes, the caller's object changed and released, read
back through cif_container_get_value, packet iteration and cif_walk.

Oracle (implementation only): the storing call succeeds and each of the three read-backs dumps (through the public API:
kind, text, quoted, cif_value_get_number / cif_value_get_su as integers, element order, key spelling) exactly as the
original did before it was stored."""
import os, re, sys
sys.path.insert(0, os.path.dirname(os.path.abspath(__file__)))
from common import rng, hexs
import ggvals as G
import cifdesc

FAMILY = "storeval"
HARNESS = {"source": "x_storeval.c", "exclude_objs": ["value"], "extra_sources": ["x_gg.h", "cifio.h"],
           "cflags": ["-DVERIF_CASE_SECONDS=2"], "leak_clean": True}
RULE = ("random values (all kinds; nested lists/tables to depth 4 quick / 8 thorough; strings 0-600 units of well-formed text incl. "
        "supplementary characters; numbers in every accepted spelling incl. huge and tiny exponents; serialised sizes around "
        "512 * 1.5^k) x 5 storing routes x 3 ways of changing the caller's object afterwards; non-trivial = a list, table or number")
ROUTES = ["set", "additem", "addpkt", "update", "parse"]
EXTREME_NUMBERS = ["1e400", "1e-400", "0e99999", "1e99999999", "-1e-99999999", "0.0e-5000", "-0", "+0.000", "00012.50(07)",
                   "9007199254740993", "123456789012345678901234567890123456789012345678901234567890(12345678901234567890)",
                   "4.9e-324", "2.4703282292062327e-324", "1.7976931348623157e308", "1.7976931348623159e308", "-.5e-0"]


def well_formed(units):
    """text SQLite and the CIF 2.0 grammar can both carry: no NUL, no unpaired surrogates, no disallowed characters"""
    out = []
    i = 0
    while i < len(units):
        u = units[i]
        if 0xD800 <= u <= 0xDBFF and i + 1 < len(units) and 0xDC00 <= units[i + 1] <= 0xDFFF:
            out += [u, units[i + 1]]
            i += 2
            continue
        if 0xD800 <= u <= 0xDFFF or u == 0 or (u < 0x20 and u not in (9, 10, 13)) or 0x7F <= u < 0xA0 or 0xFDD0 <= u <= 0xFDEF or u >= 0xFFFE:
            u = 0x78
        out.append(u)
        i += 1
    return out


def leaf(r, maxlen=600):
    t = G.rand_leaf(r, maxlen)
    if t[0] == "M" and r.random() < 0.3:
        return ("M", t[1], G.units_of(r.choice(EXTREME_NUMBERS)))
    if t[0] == "C":
        s = well_formed(t[2])
        q = t[1]
        if q == 0 and not cifdesc.unquotable(G.str_of_safe(s)):
            q = 1
        return ("C", q, s)
    return t


def for_parse(tree):
    """the parse route stores what the parser makes of the document: every whitespace-delimited value, number-like or not,
    arrives as an unquoted character value (numbers are recognised lazily by cif_value_get_number), so the value written is
    given in that form; keys must be text the CIF grammar can carry"""
    k = tree[0]
    if k == "M":
        return ("C", 0, tree[2])
    if k == "L":
        return ("L", [for_parse(v) for v in tree[1]])
    if k == "T":
        return ("T", [(well_formed(key), for_parse(v)) for key, v in tree[1]])
    return tree


def generate(seed, tier):
    r = rng(seed, FAMILY)
    quick = tier == "quick"
    for i in range(1500 if quick else 25000):
        mode = r.random()
        if mode < 0.3:
            t = leaf(r)
        elif mode < 0.7:
            t = G.rand_tree(r, r.randint(1, 4 if quick else 8), widths=(0, 1, 2, 3, 4, 5, 8), maxlen=r.choice([8, 40, 600]), leaf=leaf, unstable_keys=True)
        else:
            inner = G.rand_tree(r, r.randint(0, 2), widths=(0, 1, 2, 3), maxlen=40, leaf=leaf)
            t = G.pad_to(r, inner, r.choice([512, 768, 1152, 1728, 2592, 3888]) + r.choice([-2, 0, 0, 2, 4]))
        route = ROUTES[i % 5]
        if route == "parse":
            t = for_parse(t)
        yield "storeval %s %d %s" % (route, r.randint(0, 2), " ".join(G.value_tokens(t)))


FIELDS = re.compile(r"^sv rc=(-?\d+) o=(.*?) g=(.*?) i=(.*?) w=(.*?) m=(.*)$")


def oracle(req, impl):
    if not impl.startswith("sv "):
        return None
    m = FIELDS.match(impl)
    if not m:
        rc = re.match(r"^sv rc=(-?\d+)", impl)
        if rc and rc.group(1) != "0":
            return "storing the value failed with code %s" % rc.group(1)
        return "unexpected observation: " + impl[:200]
    rc, o, g, i, w, _ = m.groups()
    if rc != "0":
        return "storing the value failed with code %s" % rc
    route = req.split(" ")[1]
    n = 2 if route == "additem" else 1
    if g != o:
        return "cif_container_get_value returns a value that differs from the one stored: stored %s, read %s" % (o[:200], g[:200])
    if i != ",".join([o] * n):
        return "packet iteration yields a value that differs from the one stored: stored %s, read %s" % (o[:200], i[:200])
    if w != ",".join([o] * n):
        return "cif_walk presents a value that differs from the one stored: stored %s, read %s" % (o[:200], w[:200])
    return None


def agree(impl, model, req=None):
    """the model predicts the result code and the field-level dump of the value read back"""
    if impl == model:
        return True
    m = FIELDS.match(impl)
    if m:
        return model == "sv rc=%s m=%s" % (m.group(1), m.group(6))
    rc = re.match(r"^sv rc=(-?\d+)", impl)
    return bool(rc) and rc.group(1) != "0" and model == "sv rc=%s" % rc.group(1)


def _first(req):
    return [x for x in req.split(" ")[3:] if not x.startswith("@")][0]


def nontrivial(req, impl):
    k = _first(req)
    return k in ("[", "{") or k.startswith("M")


def classify(req, impl):
    t = req.split(" ")
    k = _first(req)
    kind = "list" if k == "[" else ("table" if k == "{" else {"U": "unk", "N": "na", "C": "char", "M": "numb"}[k[0]])
    return "%s %s" % (t[1], kind)


def shrink(req):
    t = req.split(" ")
    import ser
    for cand in ser.shrink("ser v " + " ".join(x for x in t[3:] if not x.startswith("@"))):
        yield " ".join(t[:3]) + " " + cand[6:]


def finding_class(req, impl, model, why):
    return None
