"""family `storeval` (C07): a value stored through each of the five routes, the caller's object changed and released, read
back through cif_container_get_value, packet iteration and cif_walk.

Oracle (implementation only): the storing call succeeds and each of the three read-backs dumps (through the public API:
kind, text, quoted, cif_value_get_number / cif_value_get_su as integers, element order, key spelling) exactly as the
original did before it was stored.

Two more routes (quick tier too):
  bigparse  — a character value of 70 000 / 140 000 / 204 000 units (and lengths around the 131 200-unit scan buffer), as a
              text field and as a quoted string, preceded by short items, parsed from a document the executor renders; the
              value read back (get_value, iteration, walk) must have the text written (long texts are compared as length +
              hash, and the executor reports the first differing index);
  parseloop — composite and scalar values alternating in ONE column of a loop with >= 3 packets that is written and parsed
              back: lists of different lengths (incl. empty) and tables with different key sets (incl. a key dropped, the
              empty table) in consecutive packets; every packet is read back (get_value: the first; iteration and walk:
              all) and must be the value written for THAT packet (the parser re-uses one value object per column);
  itsession — one packet iterator: update of packet 1 (must succeed), an update at packet 2 with a packet carrying an item
              of another loop (must be rejected), update of packet 3 (must succeed), close; read back by iteration: packets
              1 and 3 hold the value, packet 2 still holds the unknown value it had."""
import os, re, sys
sys.path.insert(0, os.path.dirname(os.path.abspath(__file__)))
from common import rng, hexs
import ggvals as G
import cifdesc

FAMILY = "storeval"
HARNESS = {"source": "x_storeval.c", "exclude_objs": ["value"], "extra_sources": ["x_gg.h", "cifio.h"],
           "cflags": ["-DVERIF_CASE_SECONDS=2"], "leak_clean": True}
RULE = ("random values (all kinds; nested lists/tables to depth 4 quick / 8 thorough; strings 0-600 units of well-formed text incl. "
        "supplementary characters; numbers in every accepted spelling incl. huge and tiny exponents; serialised sizes around "
        "512 * 1.5^k) x 5 storing routes x 3 ways of changing the caller's object afterwards; plus route bigparse: character values of "
        "70 000 / 140 000 / 204 000 units and random lengths around the 131 200-unit scan buffer, as text field and as quoted string, "
        "after three short items, parsed from a document rendered by the executor; plus route itsession: one packet iterator, update "
        "packet 1, rejected update (item of another loop) at packet 2, update packet 3, close, read back; plus route parseloop: one column of "
        "a loop with 3-40 packets written and parsed back, lists of changing length (incl. empty) and tables of changing key sets "
        "(incl. a dropped key, the empty table) in consecutive packets, alternating with scalars, every packet compared; "
        "non-trivial = a list, table or number, every bigparse and itsession case")
BIG_LENGTHS = [70000, 140000, 204000]
ROUTES = ["set", "additem", "addpkt", "update", "parse"]
EXTREME_NUMBERS = ["1e400", "1e-400", "0e99999", "1e99999999", "-1e-99999999", "0.0e-5000", "-0", "+0.000", "00012.50(07)",
                   "9007199254740993", "123456789012345678901234567890123456789012345678901234567890(12345678901234567890)",
                   "4.9e-324", "2.4703282292062327e-324", "1.7976931348623157e308", "1.7976931348623159e308", "-.5e-0"]


def well_formed(units):
    """text SQLite and the CIF 2.0 grammar can both carry: no NUL, no unpaired surrogates, no disallowed characters"""
    out = []
    i = 0
    while i < len(units):
        u = units[i]
        if 0xD800 <= u <= 0xDBFF and i + 1 < len(units) and 0xDC00 <= units[i + 1] <= 0xDFFF:
            out += [u, units[i + 1]]
            i += 2
            continue
        if 0xD800 <= u <= 0xDFFF or u == 0 or (u < 0x20 and u not in (9, 10, 13)) or 0x7F <= u < 0xA0 or 0xFDD0 <= u <= 0xFDEF or u >= 0xFFFE:
            u = 0x78
        out.append(u)
        i += 1
    return out


def protocol_string(r):
    """a string that cif_write can only carry in a text field with the prefix and / or line-folding protocol, or that sits on their
    boundaries: lines beginning with ';', both quote kinds and both triple delimiters, a line longer than the limit (with / without a
    blank to fold at), a trailing backslash, and — the case that once went wrong — a final newline, which makes the last physical line
    of the field the bare prefix"""
    BS = chr(92)
    lines = []
    for _ in range(r.choice([1, 2, 2, 3, 5])):
        k = r.random()
        if k < 0.3:
            ln = ";" + r.choice(["", "x", " not a terminator", ";"])
        elif k < 0.45:
            ln = r.choice(["'''", '"""', "a'b" + '"c', "''' and " + '"""']) + r.choice(["", " z"])
        elif k < 0.55:
            ln = ("w" * r.choice([2040, 2047, 2048, 2049, 2100])) + r.choice(["", " tail", BS])
        elif k < 0.65:
            ln = " ".join("word%d" % i for i in range(r.choice([300, 420])))
        elif k < 0.8:
            ln = r.choice(["line" + BS, BS, "a " + BS + " b", "> ", ">", BS + BS])
        else:
            ln = r.choice(["", " ", "plain text", "x"])
        lines.append(ln)
    s = "\n".join(lines) + r.choice(["", "", "\n", "\n\n"])
    if "\n;" not in s and not s.startswith(";"):
        s = s + "\n;forced" + r.choice(["", "\n"])
    # cif_write prefers a triple-quoted string for multi-line text: only a value holding BOTH triple delimiters (or ending in the
    # quote character that would delimit it) must go into a text field — two in three get them
    if r.random() < 0.67 and not ("'''" in s and '"""' in s):
        s = "'''" + '"""' + "\n" + s
    return [ord(c) for c in s]


def leaf(r, maxlen=600):
    if r.random() < 0.12:
        return ("C", 1, protocol_string(r))
    t = G.rand_leaf(r, maxlen)
    if t[0] == "M" and r.random() < 0.3:
        return ("M", t[1], G.units_of(r.choice(EXTREME_NUMBERS)))
    if t[0] == "C":
        s = well_formed(t[2])
        q = t[1]
        if q == 0 and not cifdesc.unquotable(G.str_of_safe(s)):
            q = 1
        return ("C", q, s)
    return t


def for_parse(tree):
    """the parse route stores what the parser makes of the document: every whitespace-delimited value, number-like or not,
    arrives as an unquoted character value (numbers are recognised lazily by cif_value_get_number), so the value written is
    given in that form; keys must be text the CIF grammar can carry"""
    k = tree[0]
    if k == "M":
        return ("C", 0, tree[2])
    if k == "L":
        return ("L", [for_parse(v) for v in tree[1]])
    if k == "T":
        return ("T", [(well_formed(key), for_parse(v)) for key, v in tree[1]])
    return tree


def loop_column(r, quick):
    """values of one loop column, packet by packet: runs of lists / tables of changing shape, separated by scalars"""
    def lst(n):
        return ("L", [leaf(r, 12) if r.random() < 0.8 else G.rand_tree(r, 1, widths=(0, 1, 2), maxlen=8, leaf=leaf) for _ in range(n)])
    keys = [G.units_of(k) for k in ("a", "b", "c", "key 4", "\u00e9", "k6")]
    def tbl(ks):
        return ("T", [(k, leaf(r, 12)) for k in ks])
    out = []
    for _ in range(r.randint(1, 3)):
        kind = r.random()
        if kind < 0.45:
            lens = r.choice([[3, 1, 0], [0, 2, 2], [2, 5, 1, 0, 1], [1, 1], [4, 0, 3]])
            out += [lst(n) for n in lens]
        elif kind < 0.9:
            ks = r.sample(keys, r.randint(2, 4))
            seq = [ks, ks[:-1], [], ks[1:] + [r.choice(keys)], [ks[0]]]
            seen = []
            for q in seq[:r.randint(2, 5)]:
                uniq = []
                for k in q:
                    if k not in uniq:
                        uniq.append(k)
                seen.append(tbl(uniq))
            out += seen
        else:
            out += [lst(2), tbl(keys[:2]), lst(1), tbl(keys[1:3])]
        out.append(leaf(r, 20))
    while len(out) < 3:
        out.append(lst(r.randint(0, 3)))
    return [for_parse(t) for t in out[:40]]


def generate(seed, tier):
    r = rng(seed, FAMILY)
    quick = tier == "quick"
    for _ in range(150 if quick else 3000):
        col = loop_column(r, quick)
        pairs = []
        for t in col:
            for p in G.norm_tokens(t):
                if p not in pairs:
                    pairs.append(p)
        yield "storeval parseloop 0 " + " ".join(pairs + [" | ".join(" ".join(G.tokens_of(t)) for t in col)])
    for n in BIG_LENGTHS:
        for style in "tq":
            yield "storeval bigparse %d %s %d" % (n, style, r.randint(0, 10 ** 6))
    for _ in range(6 if quick else 60):
        n = r.choice([r.randint(60000, 70000), r.randint(129000, 134000), r.randint(65000, 300000), 131200 + r.randint(-70, 70)])
        yield "storeval bigparse %d %s %d" % (n, r.choice("tq"), r.randint(0, 10 ** 6))
    for i in range(300 if quick else 5000):
        mode = r.random()
        if mode < 0.4:
            t = leaf(r)
        else:
            t = G.rand_tree(r, r.randint(1, 3 if quick else 6), widths=(0, 1, 2, 3, 4), maxlen=r.choice([8, 40, 600]), leaf=leaf, unstable_keys=True)
        yield "storeval itsession 0 %s" % " ".join(G.value_tokens(t))
    for i in range(120 if quick else 2000):
        # the item in a save frame nested in a save frame (the walker gets there through all_frames twice)
        t = leaf(r) if r.random() < 0.4 else G.rand_tree(r, r.randint(1, 3), widths=(0, 1, 2, 3), maxlen=r.choice([8, 40]), leaf=leaf, unstable_keys=True)
        yield "storeval frameset %d %s" % (r.randint(0, 2), " ".join(G.value_tokens(t)))
    for i in range(1500 if quick else 25000):
        mode = r.random()
        if mode < 0.3:
            t = leaf(r)
        elif mode < 0.7:
            t = G.rand_tree(r, r.randint(1, 4 if quick else 8), widths=(0, 1, 2, 3, 4, 5, 8), maxlen=r.choice([8, 40, 600]), leaf=leaf, unstable_keys=True)
        else:
            inner = G.rand_tree(r, r.randint(0, 2), widths=(0, 1, 2, 3), maxlen=40, leaf=leaf)
            t = G.pad_to(r, inner, r.choice([512, 768, 1152, 1728, 2592, 3888]) + r.choice([-2, 0, 0, 2, 4]))
        route = ROUTES[i % 5]
        if route == "parse":
            t = for_parse(t)
        yield "storeval %s %d %s" % (route, r.randint(0, 2), " ".join(G.value_tokens(t)))


SESSION = re.compile(r"^sv rc=(-?\d+) u=(.*?) o=(.*?) i=(.*?) m=(.*)$")
FIELDS = re.compile(r"^sv rc=(-?\d+) o=(.*?) g=(.*?) i=(.*?) w=(.*?) m=(.*)$")


def oracle(req, impl):
    if not impl.startswith("sv "):
        return None
    route = req.split(" ")[1]
    if route == "itsession":
        return session_oracle(impl)
    m = FIELDS.match(impl)
    if not m:
        rc = re.match(r"^sv rc=(-?\d+)", impl)
        if rc and rc.group(1) != "0":
            return "storing the value failed with code %s" % rc.group(1)
        return "unexpected observation: " + impl[:200]
    rc, o, g, i, w, verdict = m.groups()
    if rc != "0":
        return "storing the value failed with code %s" % rc
    if route == "parseloop":
        want = o.split(",")
        for name, got in (("packet iteration", i.split(",")), ("cif_walk", w.split(","))):
            if len(got) != len(want):
                return "%s delivers %d packets, %d were written" % (name, len(got), len(want))
            for k, (a, b) in enumerate(zip(want, got)):
                if a != b:
                    return ("packet %d of the parsed loop reads back (%s) different from the value written for it: written %s, read %s"
                            % (k + 1, name, a[:200], b[:200]))
        if g != want[0]:
            return "cif_container_get_value returns %s, the first packet was written as %s" % (g[:200], want[0][:200])
        return None
    if route == "bigparse" and verdict != "same":
        return "the %s-unit value read back after parsing differs from the text written (%s): written %s, read %s" % (
            req.split(" ")[2], verdict, o[:80], g[:80])
    n = 2 if route == "additem" else 1
    if g != o:
        return "cif_container_get_value returns a value that differs from the one stored: stored %s, read %s" % (o[:200], g[:200])
    if i != ",".join([o] * n):
        return "packet iteration yields a value that differs from the one stored: stored %s, read %s" % (o[:200], i[:200])
    if w != ",".join([o] * n):
        return "cif_walk presents a value that differs from the one stored: stored %s, read %s" % (o[:200], w[:200])
    return None


def session_oracle(impl):
    m = SESSION.match(impl)
    if not m:
        return "unexpected observation: " + impl[:200]
    rc, u, o, i, _ = m.groups()
    us = u.split(",")
    rows = split_top(i)
    if us[0] == "0" and len(rows) == 3 and rows[0] != o:
        return ("the first successful update is not there after the iterator is closed (update codes %s, close/iteration code %s): "
                "stored %s, read %s" % (u, rc, o[:200], rows[0][:200]))
    if rc != "0":
        return "the iterator session failed with code %s (update codes %s)" % (rc, u)
    if us[1] != "rej":
        return "an update with an item of another loop was not rejected (%s)" % us[1]
    if us[0] != "0" or us[2] != "0":
        if us[0] == us[2] == "2":
            return None if i == "U,U,U" else "refused updates left something behind: " + i[:200]
        return "update_packet failed with codes %s / %s" % (us[0], us[2])
    if len(rows) != 3:
        return "expected three packets, read " + i[:200]
    if rows[0] != o:
        return "the first successful update is not there after the iterator is closed: stored %s, read %s" % (o[:200], rows[0][:200])
    if rows[2] != o:
        return "the last successful update is not there after the iterator is closed: stored %s, read %s" % (o[:200], rows[2][:200])
    if rows[1] != "U":
        return "the rejected update left something behind: " + rows[1][:200]
    return None


def split_top(s):
    """split a comma-separated sequence of value dumps (dumps contain no commas outside of what fdump_pub writes: none)"""
    return s.split(",")


def agree(impl, model, req=None):
    """the model predicts the result code and everything from ` m=` on: the field-level dump of the value get_value read back, get_value's
    code (f=: 0 or CIF_AMBIGUOUS_ITEM), the field-level dumps of every packet the iterator delivered (mi=) and of every value the walker
    presented (mw=), and the two doubles of a top-level number (d=) — computed by lean/Driver/Fam/Storeval.lean through the model's
    get_value, packet iterator (Model/PktItr) and walk (Model/Walk) on its store model (Model/StoreRead)"""
    if impl == model:
        return True
    m = SESSION.match(impl)
    if m:
        return model == "sv rc=%s u=%s m=%s" % (m.group(1), m.group(2), m.group(5))
    m = FIELDS.match(impl)
    if m:
        return model == "sv rc=%s m=%s" % (m.group(1), m.group(6))
    rc = re.match(r"^sv rc=(-?\d+)", impl)
    return bool(rc) and rc.group(1) != "0" and model == "sv rc=%s" % rc.group(1)


def _first(req):
    if req.split(" ")[1] == "bigparse":
        return "C"
    return [x for x in req.split(" ")[3:] if not x.startswith("@")][0]


def nontrivial(req, impl):
    k = _first(req)
    if req.split(" ")[1] in ("bigparse", "itsession", "parseloop"):
        return True
    return k in ("[", "{") or k.startswith("M")


def classify(req, impl):
    t = req.split(" ")
    if t[1] == "parseloop":
        return "parseloop %s packets" % ("<=5" if req.count(" | ") < 5 else ">5")
    k = _first(req)
    kind = "list" if k == "[" else ("table" if k == "{" else {"U": "unk", "N": "na", "C": "char", "M": "numb"}[k[0]])
    return "%s %s" % (t[1], kind)


def shrink(req):
    t = req.split(" ")
    if t[1] == "bigparse":
        n = int(t[2])
        for c in (n // 2, n - 10000, n - 1000, n - 100):
            if c > 0:
                yield "storeval bigparse %d %s %s" % (c, t[3], t[4])
        return
    if t[1] == "parseloop":
        vals = " ".join(x for x in t[3:] if not x.startswith("@")).split(" | ")
        pre = " ".join(t[:3] + [x for x in t[3:] if x.startswith("@")])
        for k in range(len(vals)):
            if len(vals) > 1:
                yield pre + " " + " | ".join(vals[:k] + vals[k + 1:])
        return
    import ser
    if t[1] == "itsession":
        # the unknown value is what the packets hold before the session: a session storing it shows nothing
        for cand in ser.shrink("ser v " + " ".join(x for x in t[3:] if not x.startswith("@"))):
            if cand[6:].strip() != "U":
                yield " ".join(t[:3]) + " " + cand[6:]
        return
    for cand in ser.shrink("ser v " + " ".join(x for x in t[3:] if not x.startswith("@"))):
        yield " ".join(t[:3]) + " " + cand[6:]


def finding_class(req, impl, model, why):
    return None
