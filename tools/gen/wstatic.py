"""family `wstatic` (C02, C13): the FILE-STATIC functions of the writer (src/ciffile.c) called directly — fold_line, write_text,
write_char, write_item, write_literal, write_uliteral — on a write context set up as cif_write() sets it up, with `last_column`
OBSERVED after the call.

Why: (a) cif_write() never takes some branches the Lean writer model has (fold_line's downward scan, its last-resort upward scan
and its `return 0`; write_text's CIF_INTERNAL_ERROR; write_literal / write_uliteral refusing at the end of a line without
wrapping; write_item on a data name the API would refuse): write_char derives `prefix` whenever it folds a text holding a
semicolon (C02_flags_semis), so fold_line always finds a fold point in its window (C02_fold_line_progress) — through cif_write
those lines are dead code, here they are compared with the model; (b) the oracle restates C02_last_column_exact on the
implementation: after a successful step `last_column` is not smaller than the number of UTF-16 units written since the last
line feed (equality is the model's: compared)."""
import os, sys
sys.path.insert(0, os.path.dirname(os.path.abspath(__file__)))
from common import rng, hexs, unhexs
import write as W
import writeval as WV

FAMILY = "wstatic"
HARNESS = {"source": "x_wstatic.c", "extra_sources": ["cifio.h"], "exclude_objs": ["ciffile"], "leak_clean": True}
RULE = ("direct calls of the static writer functions: fold_line (small targets/windows over {a ; blank lead trail}: every branch "
        "incl. downward / upward scan and 0; the real parameters 2040/2038 + 6 on long lines of semicolons and surrogate pairs), "
        "write_text under all four (fold, prefix) settings incl. those write_char never derives, write_char / write_item at "
        "chosen columns (boundary keys, names of 1 .. 2050 units), write_literal / write_uliteral at the end of a line with and "
        "without wrapping; non-trivial = the call succeeded; compared: result, last_column, flags, bytes; oracle (implementation "
        "only): last_column >= units since the last LF of what was written (equality: model); fold_line's result is a legal fold point")

LINE = 2048
LEAD, TRAIL = 0xD83D, 0xDE00
OVERLENGTH = W.CODES["CIF_OVERLENGTH_LINE"]


def hx(units):
    return "".join("%04x" % u for u in units) if units else "-"


# ---------------------------------------------------------------------------------------------------------------------
# generators

def small_line(r):
    n = r.choice([0, 1, 2, 3, 5, 8, 10, 12, 14, 16, 20, 24, 30])
    k = r.random()
    if k < 0.3:
        al = [59]                                   # only semicolons: no fold point unless prefixing
    elif k < 0.5:
        al = [59, 59, 59, 97]
    elif k < 0.65:
        al = [LEAD, TRAIL]                          # pairs and broken pairs
    elif k < 0.8:
        al = [59, 59, LEAD, TRAIL, 97]
    else:
        al = [97, 98, 59, 32, 9, LEAD, TRAIL]
    out = []
    while len(out) < n:
        u = r.choice(al)
        if u == LEAD and r.random() < 0.8:
            out += [LEAD, TRAIL]
        else:
            out.append(u)
    return out[:n] if r.random() < 0.8 else out


def long_line(r, target):
    """a line longer than target + window whose folding window holds no blank: semicolons / surrogate pairs around the target"""
    n = target + r.choice([7, 8, 9, 20, 60, 2100])
    k = r.random()
    fill = r.choice([97, 97, 59])
    s = [fill] * n
    if k < 0.35:
        for p in range(max(0, target - r.choice([6, 7, 8, 30])), min(n, target + r.choice([6, 7, 8, 30]) + 1)):
            s[p] = 59
    elif k < 0.6:
        p = target - r.choice([7, 6, 5, 1, 0])
        while p + 1 < min(n, target + 8):
            s[p], s[p + 1] = LEAD, TRAIL
            p += 2
    elif k < 0.75:
        s = [59] * n
    elif k < 0.85:
        s = [59] * n
        s[min(n - 1, r.choice([1, 2, 3, target - 8, target - 7, target + 7, target + 8, n - 1]))] = 97
    if r.random() < 0.15:
        s[min(n - 1, r.choice([target - 7, target - 6, target, target + 6, target + 7]))] = 32
    return s


def gen_fold(r):
    if r.random() < 0.7:
        window = r.choice([1, 2, 3])
        target = window + r.choice([1, 2, 3, 5, 8])
        return "wstatic fold %d %d %d %d %s" % (0 if r.random() < 0.05 else 1, target, window, r.choice([0, 0, 1]), hx(small_line(r)))
    pre = r.choice([0, 0, 1])
    target = 2038 if pre else 2040
    return "wstatic fold 1 %d 6 %d %s" % (target, pre, hx(long_line(r, target)))


def text_lines(r):
    parts = []
    for _ in range(r.randint(1, 4)):
        k = r.random()
        if k < 0.5:
            parts.append(r.choice(["", "a", ";", ";a", "a;b", "\\", "a\\", "a\\ ", "> ", "x y", "'''", ";;;"]))
        elif k < 0.75:
            n = r.choice([2046, 2047, 2048, 2049, 2050, 4100])
            parts.append("".join(r.choice("aa;") for _ in range(n)) if k > 0.62 else "a" * n)
        elif k < 0.88:
            # exactly the limit / limit + 1, ending in a backslash
            n = r.choice([2040, 2046, 2047, 2048, 2049])
            parts.append("a" * (n - 1) + "\\" + r.choice(["", "", " "]))
        else:
            n = r.choice([2047, 2048, 2049, 4090])
            parts.append(";" * n)
    return "\n".join(parts)


def gen_text(r):
    t = text_lines(r) or "a"
    col = r.choice([0, 0, 1, 5, 2040, 2048])
    return "wstatic text %d %d %d %d %s" % (r.choice([2, 2, 1]), col, r.choice([0, 1]), r.choice([0, 1]), hexs(t))


COLS = [0, 0, 1, 2, 10, 1000, 2030, 2036, 2038, 2039, 2040, 2041, 2042, 2043, 2044, 2045, 2046, 2047, 2048]


def gen_char(r):
    ver = r.choice([2, 2, 2, 1])
    k = r.random()
    if k < 0.3 and ver != 1:
        s, q, allow = WV.boundary_key(r), 1, 0                 # a table key
    else:
        s = WV.rand_string(r, ver)
        q = 1 if r.random() < 0.6 else 0
        allow = 0 if r.random() < 0.15 else 1
    if q == 0 and not WV.cifdesc.unquotable(s):
        q = 1
    return "wstatic char %d %d %d %d %s" % (ver, r.choice(COLS), q, allow, hexs(s))


def gen_item(r):
    ver = r.choice([2, 2, 2, 1])
    names = 1 if r.random() < 0.6 else 0
    sep = 0 if r.random() < 0.2 else 1
    k = r.random()
    if names:
        n = r.choice([1, 2, 2, 3, 10, 2040, 2046, 2047, 2048, 2049, 2050])
        name = "_" + "n" * (n - 1)
        if k < 0.1 and ver != 1:
            name = "_" + "\U0001f600" * r.choice([1, 1023, 1024, 2047, 2048])          # characters vs units
        nm = hexs(name)
    else:
        nm = "~"
    if ver != 1 and r.random() < 0.3:
        _, toks = WV.key_boundary_table(r)
    else:
        toks = WV.rand_value_tokens(r, ver)
    return "wstatic item %d %d %d %d %s %s" % (ver, r.choice(COLS), names, sep, nm, " ".join(toks))


def gen_lit(r):
    if r.random() < 0.5:
        t = r.choice(["", " ", ":", "[", " ]", "{", " }", "?", ".", "abc", "x" * 2048, "x" * 2049])
        return "wstatic lit %d %d %s" % (r.choice(COLS), r.choice([0, 1]), hexs(t))
    k = r.random()
    t = r.choice(["", "a", "_name", "\U0001f600", "a\U0001f600b", "n" * r.choice([2, 5, 2047, 2048, 2049]), "\U0001f600" * r.choice([3, 1024, 1025])])
    units = len(t.encode("utf-16-le")) // 2
    length = -1 if k < 0.6 else r.choice([0, units, max(0, units - 1), units // 2])
    u16 = unhexs(hexs(t)) or []
    if 0 < length < units and 0xD800 <= u16[length - 1] < 0xDC00:
        length -= 1          # never cut a surrogate pair (cif_write never does: an explicit length is a whole string's; what
                             # ICU prints for half a pair is not modelled)
    return "wstatic ulit %d %d %d %s" % (r.choice(COLS), r.choice([0, 1]), length, hexs(t))


def generate(seed, tier):
    r = rng(seed, FAMILY)
    n = 1500 if tier == "quick" else 60000
    for _ in range(n):
        k = r.random()
        if k < 0.35:
            yield gen_fold(r)
        elif k < 0.5:
            yield gen_text(r)
        elif k < 0.7:
            yield gen_char(r)
        elif k < 0.9:
            yield gen_item(r)
        elif k < 0.97:
            yield gen_lit(r)
        else:
            n = r.choice([0, 1, 2, 5, 9])
            yield "wstatic valid11 %s" % hx([r.choice([9, 10, 13, 32, 65, 97, 126, 127, 128, 233, 255, 256, 511, 512, 0x4e2d, 1, 11]) for _ in range(n)])


# ---------------------------------------------------------------------------------------------------------------------
# observations

def parse(line):
    t = line.split(" ")
    if not t or t[0] != "ws":
        return None
    d = {}
    for tok in t[1:]:
        k, eq, v = tok.partition("=")
        if eq:
            d[k] = v
    return d


def out_units(d):
    """the UTF-16 units of the bytes written (None if they are not valid UTF-8)"""
    try:
        text = W.out_bytes(d.get("out")).decode("utf-8")
    except UnicodeDecodeError:
        return None
    b = text.encode("utf-16-le")
    return [int.from_bytes(b[i:i + 2], "little") for i in range(0, len(b), 2)]


def expected_column(col, units):
    if 10 in units:
        return units[::-1].index(10)
    return col + len(units)


def clean_tokens(toks):
    """no CR in strings / keys, no LF in number texts (the hypotheses of C02_last_column_exact)"""
    for t in toks:
        if t[:1] in "CM" and t[2:3] == ":":
            s = unhexs(t[3:]) or []
            if 13 in s or (t[0] == "M" and 10 in s):
                return False
        elif t.startswith("K:"):
            if 13 in (unhexs(t[2:]) or []):
                return False
    return True


def oracle(req, impl):
    t = req.split(" ")
    d = parse(impl)
    if d is None:
        return None
    op = t[1]
    if op == "fold":
        do_fold, target, window, pre = int(t[2]), int(t[3]), int(t[4]), int(t[5])
        line = unhexs(t[6]) or []
        try:
            n = int(d.get("len"))
        except (TypeError, ValueError):
            return "fold_line: no result"
        if n < 0 or n > len(line):
            return "fold_line returned %d for a line of %d units" % (n, len(line))
        if not do_fold:
            return None if n == len(line) else "fold_line without folding returned %d, not the length %d" % (n, len(line))
        if n == 0:
            if line and (pre or 59 not in line):
                return "fold_line found no fold point although prefixing / no semicolon (C02_fold_line_progress)"
            return None
        if n < len(line) and line[n] not in (32, 9):
            if 0xD800 <= line[n - 1] < 0xDC00 and 0xDC00 <= line[n] <= 0xDFFF:
                return "fold_line splits a surrogate pair at %d" % n
            if line[n] == 59 and not pre:
                return "fold_line folds before a semicolon at %d without prefixing" % n
        return None
    if op in ("text", "char", "item"):
        if d.get("rc") != "0":
            if op == "char" and t[2] != "1" and t[5] == "1":
                text = unhexs(t[6]) or []
                if 13 in text or W.cif2_disallowed(text):
                    return None                       # outside C02's totality clause (may be refused once F-cr-altered /
                                                      # F-disallowed-char-written are repaired)
                return "write_char (CIF 2.0, text fields allowed) failed with code %s" % d.get("rc")
            return None
        col = int(t[3])
        units = out_units(d) if t[2] != "1" else list(W.out_bytes(d.get("out")))
        if units is None:
            return "output is not valid UTF-8"
        if op == "text" and 13 in (unhexs(t[6]) or []):
            return None
        if op == "char" and 13 in (unhexs(t[6]) or []):
            return None
        if op == "item":
            nm = unhexs(t[6]) if t[6] != "~" else []
            if 10 in (nm or []) or not clean_tokens(t[7:]):
                return None
        exp = expected_column(col, units)
        # the property-relevant half of C02_last_column_exact: last_column never UNDERestimates the column (an underestimate lets a
        # later wrap test pass on a full line); an overestimate only wraps early — it is a model disagreement, not a violation
        try:
            if int(d.get("col")) < exp:
                return ("last_column = %s after the step, but %d units were written since the last line feed "
                        "(C02_last_column_exact)" % (d.get("col"), exp))
        except (TypeError, ValueError):
            return "no last_column in the observation"
        return None
    if op == "valid11":
        s = unhexs(t[2]) or []
        bad = [i for i, u in enumerate(s) if u not in W.CIF11]
        want = ("0", "-") if not bad else (str(W.CIF_DISALLOWED_CHAR), str(bad[0]))
        if (d.get("rc"), d.get("at")) != want:
            return "cif_validate_cif11_characters: rc=%s at=%s, expected rc=%s at=%s" % (d.get("rc"), d.get("at"), want[0], want[1])
        return None
    if op in ("lit", "ulit"):
        try:
            n = int(d.get("n"))
        except (TypeError, ValueError):
            return None
        if n <= 0:
            return None
        units = out_units(d)
        text = unhexs(t[-1]) or []
        if units is None or 10 in text:
            return None
        exp = expected_column(int(t[2]), units)
        try:
            if int(d.get("col")) < exp:
                return "last_column = %s after the literal, but the line holds %d units" % (d.get("col"), exp)
        except (TypeError, ValueError):
            return "no last_column in the observation"
        return None
    return None


def agree(impl, model, req=None):
    a, b = parse(impl), parse(model)
    if a is None or b is None:
        return impl == model
    if "len" in a or "len" in b:
        return a.get("len") == b.get("len")
    if "at" in a or "at" in b:
        return (a.get("rc"), a.get("at")) == (b.get("rc"), b.get("at"))
    if "n" in a or "n" in b:
        if a.get("n") != b.get("n"):
            return False
        try:
            if int(a["n"]) < 0:
                return True
        except ValueError:
            return False
    else:
        if a.get("rc") != b.get("rc"):
            return False
        if a.get("rc") != "0":
            return True
        if a.get("names") != b.get("names") or a.get("sep") != b.get("sep"):
            return False
    if a.get("col") != b.get("col"):
        return False
    try:
        return W.units_to_bytes(unhexs(b.get("out")) or []) == W.out_bytes(a.get("out"))
    except Exception:
        return False


def nontrivial(req, impl):
    d = parse(impl)
    if not d:
        return False
    if "len" in d:
        return d["len"] not in ("0",)
    if "n" in d:
        return not d["n"].startswith("-") and d["n"] != "0"
    return d.get("rc") == "0"


def classify(req, impl):
    t = req.split(" ")
    d = parse(impl) or {}
    if t[1] == "fold":
        line = unhexs(t[6]) or []
        try:
            n = int(d.get("len"))
        except (TypeError, ValueError):
            return "fold:?"
        target, window = int(t[3]), int(t[4])
        if n == 0:
            return "fold:none"
        if n == len(line):
            return "fold:whole"
        if n < target - window:
            return "fold:below-window"
        if n > target + window:
            return "fold:above-window"
        return "fold:in-window"
    if "n" in d:
        return "%s:%s" % (t[1], "refused" if d["n"].startswith("-") else "written")
    if t[1] == "valid11":
        return "valid11:rc=%s" % d.get("rc")
    return "%s:v%s:rc=%s" % (t[1], t[2], d.get("rc"))


def finding_class(req, impl, model, why):
    return None
