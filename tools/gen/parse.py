"""family `parse` (C03): the REAL integrated parser (cif_parse_internal) on MALFORMED input x option records x error-callback
policies, against the integrated parser model (lean/CifModel/Model/Parser.lean).

Stream: well-formed documents of tools/gen/parsedoc.py, mutated (delete / duplicate / swap / retype a token, truncate at an
arbitrary offset, insert control characters, unpaired surrogates, U+FEFF, NUL, U+FFFE/U+FFFF, brackets, colons, quotes,
semicolons at line starts, reserved words; token soup over every token type) x options (dialect, max_frame_depth,
line-folding / text-prefixing modifiers, extra whitespace / end-of-line characters, not_utf8, target absent / new /
pre-filled with colliding content) x policies (accept-all, die, answer v at the k-th call, answer v for one code — v positive,
negative or an unrelated number).

Oracle = C03 restated on the implementation's observation alone:
  * every report carries a line number >= 1; every text pointer handed to the callback lay inside the scan buffer;
  * the parse stops at the first non-zero answer of the callback and returns it (a negative answer: CIF_OK or that value);
  * when the callback never answered non-zero: the return value is CIF_OK or the parse reported at least one error
    (resource errors aside) — it never fails silently;
  * die policy: the return value is the first code an accept-all parse of the same input reports (0 when it reports none);
  * afterwards the target can be walked, modified and destroyed (and written, whatever cif_write answers) under ASan/UBSan."""
import os, sys
sys.path.insert(0, os.path.dirname(os.path.abspath(__file__)))
from common import rng
import parsedoc as pd
from parsedoc import make_request, split_request, split_impl, post_ok, hx   # noqa: F401
from parsedoc import agree as _agree_content, extra_in_key

FAMILY = "parse"
HARNESS = {"source": "x_parse.c", "exclude_objs": ["parser"], "leak_clean": True}
RULE = ("mutated well-formed documents and token soup x (dialect, max_frame_depth in {-1,0,1}, fold / prefix modifiers in "
        "{-1,0,1}, extra ws / eol in {none, VT, FF}, not_utf8, target in {none, new, pre-filled}) x policies (accept-all, die, "
        "k-th call answers v, code c answers v; v in {code, 7777, -1, -3}); non-trivial = the error callback was invoked at "
        "least once; oracle (implementation only) = C03: line >= 1, text pointer inside the buffer, stop at and return the "
        "first non-zero answer, never fail without a report, die result = first accept-all code, target usable afterwards")

RESOURCE = (3,)          # CIF_MEMORY_ERROR

INSERTS = ["\x00", "\x01", "\x0b", "\x0c", "\x1f", "\x7f", "\x80", "\x9f", "﻿", "￾", "￿", "﷐", "\ud800", "\udc00",
           "\udbff", "\udfff", "🿾", "[", "]", "{", "}", ":", "'", '"', "'''", '"""', ";", "\n;", "\n;\n", "#", "$", "_", "?", ".",
           " ", "\n", "\t", "\r", "\r\n", "\\", "\\\n", "data_", "data_x", "DATA_", "save_", "save_x", "loop_", "stop_", "global_", "_n",
           "'k':", "\n;k\n;:", "\n;k\x01y\n;:", "\n;\x01\n;:1", "'k\x01':", "a:b", ":v", "1", "é", "\U0001f600", "a" * 2050]

SOUP = ["data_a", "data_B", "data_a", "data_", "save_f", "save_F", "save_", "loop_", "_a", "_A", "_b", "_c", "_", "1", "x", "?", ".", "'q'", '"q"',
        "'''t'''", "\n;text\n;", "\n;k\n;:", "\n;k\x01\n;:", "'k\x01':", "'k':", '"k":', "[", "]", "{", "}", "a:b", ":", ":v", "$x", "stop_", "global_", "#c\n", "\n", " ",
        "'unterminated", "'''open", "\n;open", "[1 2]", "{'k':1}", "{'k':[1 {'j':2}]}", "_d.e", "﻿", "\x01", "\ud800"]


def units_of(text):
    return pd.units(text)


def mutate(r, text, spans):
    """one random mutation; returns new text"""
    k = r.random()
    if spans and k < 0.45:
        i = r.randrange(len(spans))
        a, b = spans[i][1], spans[i][2]
        m = r.random()
        if m < 0.35:            # delete the token
            return text[:a] + text[b:]
        if m < 0.55:            # duplicate it
            return text[:b] + " " + text[a:b] + text[b:]
        if m < 0.7 and len(spans) > 1:   # swap with another token
            j = r.randrange(len(spans))
            c, d = spans[j][1], spans[j][2]
            if b <= c:
                return text[:a] + text[c:d] + text[b:c] + text[a:b] + text[d:]
            if d <= a:
                return text[:c] + text[a:b] + text[d:a] + text[c:d] + text[b:]
            return text[:a] + text[b:]
        if m < 0.85:            # replace it by something of another type
            return text[:a] + r.choice(SOUP) + text[b:]
        # cut the token in two / drop its last character
        if b - a > 1:
            c = r.randrange(a + 1, b)
            return text[:c] + r.choice(["", " ", "\n"]) + text[c + (1 if r.random() < 0.5 else 0):]
        return text[:a] + text[b:]
    if k < 0.6:                 # truncate
        return text[:r.randrange(len(text) + 1)]
    if k < 0.9:                 # insert
        p = r.randrange(len(text) + 1)
        return text[:p] + r.choice(INSERTS) + text[p:]
    if text:                    # overwrite one character
        p = r.randrange(len(text))
        return text[:p] + r.choice(INSERTS) + text[p + 1:]
    return r.choice(INSERTS)


def rand_options(r, dia):
    o = {"dia": dia, "mfd": r.choice([-1, 0, 1, 1]), "fold": r.choice([-1, 0, 0, 1]), "prefix": r.choice([-1, 0, 0, 1]),
         # extra whitespace / end-of-line characters: the C0 controls VT, FF and — cif.h allows them explicitly — C1 controls such as NEL
         # (bytes >= 0x80 in the option string), singly and two at a time
         "ews": r.choice(["", "", "", "\x0b", "\x0c", "\x85", "\x0b\x90", "\x9f"]), "eeol": r.choice(["", "", "", "\x0b", "\x0c", "\x85", "\x9c", "\x0c\x85"]),
         "nutf8": 1 if r.random() < 0.05 else 0, "target": r.choice(["e", "e", "n", "p"])}
    if o["ews"] and o["ews"] == o["eeol"]:
        o["ews"] = ""
    if dia == 1:
        # CIF 1.1 mode: a C1 control is outside the CIF 1.1 character set whatever class the option gives it (the scanner reports it
        # before looking at its class); the model does not follow that corner — C1 extras are generated for CIF 2.0 only
        o["ews"] = "".join(c for c in o["ews"] if ord(c) < 0x80)
        o["eeol"] = "".join(c for c in o["eeol"] if ord(c) < 0x80)
    return o


CODES_SEEN = [11, 12, 21, 22, 36, 37, 41, 42, 53, 74, 102, 104, 105, 106, 107, 108, 109, 110, 113, 122, 123, 124, 126, 132, 133, 134, 135,
              136, 137, 138, 139, 140]


def rand_policy(r):
    k = r.random()
    if k < 0.4:
        return "a"
    if k < 0.6:
        return "d"
    if k < 0.85:
        return "r%d:%d" % (r.choice([0, 0, 1, 1, 2, 3, 5]), r.choice([7777, 7777, -1, -3, 1, 5, 133]))
    return "c%d:%d" % (r.choice(CODES_SEEN), r.choice([7777, -1, -2, 3]))


PRE_COLLIDE = [("a", [("fr", [], []), ("f", [], [("", ["_x"], [[("str", "old", True)]])])],
                [("", ["_a", "_x"], [[("str", "1", False), ("unk",)]]), (None, ["_l1", "_b"], [[("str", "1", False), ("na",)]])]),
               ("pre2", [], [])]


def request_for(text, o, policy):
    pre = PRE_COLLIDE if o["target"] == "p" else None
    return make_request("parse", text, dia=o["dia"], mfd=o["mfd"], fold=o["fold"], prefix=o["prefix"], ews=o["ews"], eeol=o["eeol"],
                        nutf8=o["nutf8"], policy=policy, target=o["target"], pre=pre)


def answers(policy, log):
    """the callback's answers to the reports of `log` under `policy`"""
    out = []
    for i, (code, _line) in enumerate(log):
        if policy == "a":
            out.append(0)
        elif policy == "d":
            out.append(code)
        elif policy[0] == "r":
            k, v = policy[1:].split(":")
            out.append(int(v) if i == int(k) else 0)
        else:
            c, v = policy[1:].split(":")
            out.append(int(v) if code == int(c) else 0)
    return out


def ops_of(obs):
    """the `ops=` and `seq=` fields: numbers and ORDER of the successful store calls (blocks, frames, set_value, create_loop, add_packet, prune) — on the
    implementation side counted by x_parse.c around the calls of parser.c, on the model side the trace of Model/ParserTrace.lean"""
    if not obs.startswith("ps rc=") or " ops=" not in obs:
        return None
    ops = obs.split(" ops=", 1)[1].split(" ", 1)[0]
    seq = obs.split(" seq=", 1)[1].split(" ", 1)[0] if " seq=" in obs else None
    return (ops, seq)


def agree(impl, model, req=None):
    """return value, log and content as for `parsedoc`; in addition the store calls the productions made must be the ones the
    instrumented parser model predicts (C03_parser_store_refines is about exactly that sequence of calls)"""
    if not _agree_content(impl, model, req):
        return False
    if model.startswith("ps rc=") and " sto=" in model:
        # the composition parser model -> store model, executed by the driver on this input (Model/ParserStoreOps.lean)
        if model.split(" sto=", 1)[1].split(" ", 1)[0] not in ("ok", "skip"):
            return False
    oi, om = ops_of(impl), ops_of(model)
    if oi is None or om is None:
        return oi is None and om is None or not impl.startswith("ps rc=")
    if req is not None and extra_in_key(impl, req):
        return True
    return oi == om


def oracle(req, impl):
    o = split_impl(impl)
    if o is None:
        return None if impl.startswith(("SAN:", "CRASH:", "TIMEOUT")) else "unreadable observation: " + impl[:80]
    d = split_request(req)
    if o["n"] != len(o["log"]):
        return "observation inconsistent"
    for code, line in o["log"]:
        if line < 1:
            return "error callback invoked with line number %d (code %d)" % (line, code)
    if o["ptr"] != "ok":
        return "error callback given a text pointer outside the scan buffer with a non-zero length (invocation %s)" % o["ptr"][3:]
    ans = answers(d["policy"], o["log"])
    nz = [i for i, a in enumerate(ans) if a != 0]
    if nz:
        i = nz[0]
        if len(o["log"]) != i + 1:
            return "the parse went on after the callback answered %d to its invocation %d (%d invocations in all)" % (ans[i], i, len(o["log"]))
        if ans[i] > 0 and o["rc"] != ans[i]:
            return "the callback answered %d (first non-zero answer) but cif_parse returned %d" % (ans[i], o["rc"])
        if ans[i] < 0 and o["rc"] not in (0, ans[i]):
            return "the callback answered %d but cif_parse returned %d" % (ans[i], o["rc"])
    else:
        if o["rc"] != 0 and o["rc"] not in RESOURCE and not o["log"]:
            return "cif_parse failed with %d without reporting any error to the callback" % o["rc"]
        if o["rc"] < 0:
            return "cif_parse returned the negative value %d" % o["rc"]
    if d["policy"] == "d":
        if o["aa"] is None or o["aa"] == "?":
            return "no accept-all reference run in the observation"
        if o["rc"] != int(o["aa"]):
            return "die policy returned %d, the first code of the accept-all parse is %s" % (o["rc"], o["aa"])
    return post_ok(o, aborted=bool(nz))


def nontrivial(req, impl):
    o = split_impl(impl)
    return bool(o and o["log"])


def classify(req, impl):
    o = split_impl(impl)
    if o is None:
        return "abnormal"
    return "first=%s" % (o["log"][0][0] if o["log"] else ("ok" if o["rc"] == 0 else "rc%d" % o["rc"]))


def finding_class(req, impl, model, why):
    return None


def shrink(req):
    """delta debugging on the document text only"""
    t = req.split(" ")
    us = t[10]
    if us in ("-", "~"):
        return
    u = [us[i:i + 4] for i in range(0, len(us), 4)]
    n = len(u)
    step = n // 2
    cands = []
    while step >= 1 and len(cands) < 300:
        for s in range(0, n, step):
            cands.append(u[:s] + u[s + step:])
        step //= 2
    for c in cands:
        yield " ".join(t[:10] + ["".join(c) if c else "-"] + t[11:])


# units that make the SCANNER report: unpaired lead / trail surrogate (CIF_INVALID_CHAR 102), disallowed BMP characters and
# non-characters (CIF_DISALLOWED_CHAR 104); in CIF 1.1 also any non-ASCII character
DEFECT_UNITS = ["\ud800", "\udbff", "\udc00", "\x01", "\x7f", "\x9f", "\ufeff", "\ufffe", "\ufdd0", "\U0001fffe"]
DEFECT_UNITS_V1 = ["\ud800", "\udc00", "\x01", "\xe9", "\u4e2d"]
# every token context: bare value, quoted, triple-quoted, text field, data name, block code, frame code, comment, between tokens,
# list element, table key, table value, end of input
DEFECT_CONTEXTS = ["data_a _x ab%scd\n", "data_a _x 'ab%scd'\n", "data_a _x \"\"\"ab%scd\"\"\"\n", "data_a _x\n;ab%scd\n;\n",
                   "data_a _n%sm 1\n", "data_b%sc _x 1\n", "data_a save_f%sg _x 1 save_\n", "data_a #c%sd\n_x 1\n",
                   "data_a %s _x 1\n", "data_a _x [ p%sq ]\n", "data_a _x {'k%sl':1}\n", "data_a _x {'k':v%sw}\n", "data_a _x ab%s"]
DEFECT_CONTEXTS_V1 = ["data_a _x ab%scd\n", "data_a _x 'ab%scd'\n", "data_a _x\n;ab%scd\n;\n", "data_a _n%sm 1\n", "data_a #c%sd\n_x 1\n",
                      "data_a %s _x 1\n", "data_a _x ab%s"]
ADJ_POLICIES = ["c102:7777", "c104:7777", "r0:7777", "r1:7777", "r2:-1"]


def adjacent_defects():
    """systematic ADJACENT pairs of units that each raise a scanner report, in every token context, under policies that reject
    exactly one of the two codes or the k-th report: the first non-zero answer must end the parse (a later report must not
    overwrite it); also a defect unit as the 2048th / 2049th character of a line (CIF_OVERLENGTH_LINE next to it)"""
    base = {"mfd": 1, "fold": 0, "prefix": 0, "ews": "", "eeol": "", "nutf8": 0, "target": "e"}
    for dia, units_, ctxs in ((2, DEFECT_UNITS, DEFECT_CONTEXTS), (1, DEFECT_UNITS_V1, DEFECT_CONTEXTS_V1)):
        o = dict(base, dia=dia)
        for ci, ctx in enumerate(ctxs):
            for i, u1 in enumerate(units_):
                for j, u2 in enumerate(units_):
                    # all policies for the pairs with a surrogate in front, a rotating one for the others (keeps the tier quick)
                    pols = ADJ_POLICIES if i < 3 else [ADJ_POLICIES[(ci + i + j) % len(ADJ_POLICIES)]]
                    for pol in pols:
                        yield request_for(ctx % (u1 + u2), o, pol)
        # a defect unit next to the end of an over-long line
        for ctx in ("data_a _x %s\n", "data_a _x '%s'\n", "data_a #%s\n_x 1\n"):
            for u in units_[:6]:
                for n in (2047, 2048):
                    fill = "a" * (n - len(ctx.split("%s")[0]) - (1 if "'" in ctx else 0))
                    for pol in ("c102:7777", "c104:7777", "c108:7777", "r0:7777", "r1:7777"):
                        yield request_for(ctx % (fill + u), o, pol)


# ---------------------------------------------------------------------------------------------------------------------
# systematic PAIRS of structural fragments (well-formed and of every defect class) inside one construct: the recovery of the
# first defect leaves the state in which the second is met (e.g. a text field in key position whose text is then refused as a
# table index: /repo 3c6f46e).  Oracle as everywhere in this family; memory safety observed by ASan on every request.

TABLE_FRAGS = ["'k':1", "'k':", ":1", ":", "k:1", "k:", "k", "'v'", "\n;k\n;:1", "\n;k\n;:", "\n;k\n;", "'k\x01':1", "\n;k\x01y\n;:1",
               "\n;\ud800\n;:1", "'k' :1", "'k':[1]", "'k':{'j':2}", "[", "]", "{", "'':1", "'k':'v'x", "'k", "\"\"\"k\"\"\":1", "data_x",
               "save_", "loop_", "_n", "'k':'k':1", "\n;k\n;:\n;v\n;", "'K':2", "k\x01:1", ":\x01", "$k:1", "'k':$v", "#c\n"]
LIST_FRAGS = ["1", "'q'", "[", "]", "{", "}", "[1]", "{'k':1}", "'k':", "k:1", ":", "\n;t\n;", "\n;t\x01\n;", "_n", "data_x", "save_", "loop_",
              "stop_", "$x", "'q'x", "'q", "?", ".", "\x01", "a[b", "#c\n"]
HEADER_FRAGS = ["_a", "_A", "_b", "_", "_a\x01", "_b.c", "1", "'q'", "loop_", "[", "{", "data_x", "save_", "\n;t\n;", "_" + "n" * 2050, "$x", "#c\n"]
PACKET_FRAGS = ["1", "2 3", "1 2 3", "'q'", "[1]", "{'k':1}", "{'k':", "[", "]", "}", "?", ".", "_c 1", "loop_", "data_x", "save_", "k:1", ":1",
                "\n;t\n;", "'q", "stop_", "$x", ""]
PAIR_POLICIES = ["a", "d", "r0:7777", "r1:7777", "r2:7777", "r1:-1"]


def structural_pairs(tier):
    base = {"mfd": 1, "fold": 0, "prefix": 0, "ews": "", "eeol": "", "nutf8": 0}
    thorough = tier != "quick"
    n = 0

    def emit(text, dia, i, j):
        nonlocal n
        n += 1
        pols = PAIR_POLICIES if thorough else [PAIR_POLICIES[(i + 3 * j + n) % len(PAIR_POLICIES)], "a"][: 1 + (n % 2)]
        for pol in pols:
            yield request_for(text, dict(base, dia=dia, target="e" if (n % 5) else "n"), pol)
    ctx_table = ["data_a\n_t { %s %s }\n_z 1\n", "data_a\n_t { 'a':0 %s %s", "data_a _l [ { %s %s } 2 ]\n_z 1\n",
                 "data_a loop_ _a _b { %s %s } 2 3 4\n", "data_a _t {'o':{ %s %s } 'p':3}\n"]
    ctx_list = ["data_a\n_l [ %s %s ]\n_z 1\n", "data_a _l [ 0 %s %s", "data_a _t {'k':[ %s %s ] 'j':2}\n", "data_a loop_ _a _b [ %s %s ] 2\n"]
    ctx_head = ["data_a\nloop_ %s %s 1 2 3 4\n_z 1\n", "data_a save_f loop_ _q %s %s 1 2 3\nsave_\n", "data_a _a 0 loop_ %s %s 1 2"]
    ctx_pack = ["data_a\nloop_ _a _b %s %s\n_z 1\n", "data_a loop_ _a _b _c 1 2 3 %s %s", "data_a save_f loop_ _a _b %s %s save_ _z 1\n"]
    for frags, ctxs, dias in ((TABLE_FRAGS, ctx_table, (2,)), (LIST_FRAGS, ctx_list, (2,)), (HEADER_FRAGS, ctx_head, (2, 1)),
                              (PACKET_FRAGS, ctx_pack, (2, 1))):
        for i, f1 in enumerate(frags):
            for j, f2 in enumerate(frags):
                cs = ctxs if thorough else [ctxs[(i + j) % len(ctxs)]]
                for ctx in cs:
                    for dia in (dias if thorough else dias[: 1 + ((i + j) % len(dias) == 1)]):
                        yield from emit(ctx % (f1, f2), dia, i, j)


def generate(seed, tier):
    for req in adjacent_defects():
        yield req
    for req in structural_pairs(tier):
        yield req
    r = rng(seed, FAMILY)
    n_docs = 700 if tier == "quick" else 30000
    per = 5
    for dia, doc in pd.gen_docs(r, n_docs):
        style = r.choice(["rand", "rand", "min", "lines"])
        text, spans = pd.render(doc, r, dia, style)
        if len(text) > 6000:
            continue
        for _ in range(per):
            t = text
            for _m in range(r.choice([1, 1, 1, 2, 3])):
                t = mutate(r, t, spans if t is text else [])
            yield request_for(t, rand_options(r, dia), rand_policy(r))
    # token soup: every token type at container level, in loop headers, loop bodies, lists, tables
    n_soup = 1500 if tier == "quick" else 60000
    for _ in range(n_soup):
        n = r.choice([1, 2, 3, 4, 6, 8, 12])
        parts = []
        for _i in range(n):
            parts.append(r.choice(SOUP))
            parts.append(r.choice([" ", " ", " ", "\n", "", "  ", "\t"]))
        ctx = r.choice(["", "data_a ", "data_a _x ", "data_a loop_ _x _y ", "data_a loop_ _x _y 1 ", "data_a _x [ ", "data_a _x { ",
                        "data_a _x {'k': ", "data_a save_f ", "data_a save_f loop_ _x ", "data_a _x [{'k':[ "])
        dia = 2 if r.random() < 0.75 else 1
        yield request_for(ctx + "".join(parts), rand_options(r, dia), rand_policy(r))
    # truncation of one document at EVERY offset, accept-all and die
    for dia in (2, 1):
        doc = pd.rand_doc(r, dia, size=4, depth=2)
        text, _ = pd.render(doc, r, dia, "rand")
        text = text[:400 if tier == "quick" else 3000]
        for cut in range(len(text) + 1):
            o = rand_options(r, dia)
            yield request_for(text[:cut], o, r.choice(["a", "d"]))
