"""family `val` (C19): random sequences of value / list / table / packet operations, one request per sequence.

The generator drives a small reference implementation of the DOCUMENTED contracts (class Sim: lists are Python lists,
tables and packets are insertion-ordered association lists keyed by the normalised key, values are copied in and handed
out by reference) to pick meaningful references and indices; the oracle replays the request on a fresh Sim and compares
every per-operation observation of the implementation with what the contracts predict — it never looks at the model."""
import os, sys, unicodedata
sys.path.insert(0, os.path.dirname(os.path.abspath(__file__)))
from common import rng, hexs, unhexs
import ggvals as G

FAMILY = "val"
HARNESS = {"source": "x_val.c", "exclude_objs": ["value"], "extra_sources": ["x_val_ops.h", "x_gg.h", "cifio.h"], "leak_clean": True}
RULE = ("random op sequences (<= 30 ops quick / <= 300 thorough) over 8 value slots and 4 packet slots: create, build, clone "
        "(fresh and onto existing objects), init*, copy_char, list insert/set/remove/get with indices around 0 and size and "
        "sizes straddling the capacity steps 4/8/12/18, table and packet set/get/remove/keys with spelling variants, members "
        "used by reference, the documented aliasing case, wrong-kind calls, invalid keys; non-trivial = a sequence with at "
        "least 3 successful mutating container operations")

OK, ARG, DUPNAME, BADNAME, NOSUCH, BADIDX = 0, 6, 41, 42, 43, 73

TABLE_KEYS = ["a", "b", "A", "", "k 1", " x", "\u00e9", "e\u0301", "\u4e2d", "'q'", "ke;y", "\u00c5", "\u212b", "A\u030a"]
BAD_TABLE_KEYS = ["\x01", "a\ufffe", "\ud800x"]
NAMES = ["_a", "_A", "_b", "_B", "_item.x", "_Item.X", "_\u00e9", "_\u00c9", "_e\u0301", "_c", "_d"]
BAD_NAMES = ["a", "_", "", "_a b", "_x\x01"]


def disallowed(s):
    i = 0
    while i < len(s):
        c = ord(s[i])
        if 0xD800 <= c <= 0xDBFF:
            if i + 1 < len(s) and 0xDC00 <= ord(s[i + 1]) <= 0xDFFF:
                i += 2
                continue
            return True
        if 0xDC00 <= c <= 0xDFFF:
            return True
        if (c < 0x20 and c not in (9, 10, 13)) or 0x7F <= c < 0xA0 or 0xFDCF < c < 0xFDF0 or c > 0xFFFD:
            return True
        i += 1
    return False


def norm_table_key(s):
    """cif_normalize_table_index as documented: NFC; keys with disallowed characters are rejected"""
    if disallowed(s):
        return None
    return unicodedata.normalize("NFC", s)


def norm_name(s):
    """cif_normalize_item_name as documented: a data name starts with '_', has at least one more character, no
    whitespace, no disallowed characters; matching is by NFD, case folding, NFC"""
    if len(s) < 2 or s[0] != "_" or any(ord(c) <= 0x20 for c in s) or disallowed(s):
        return None
    return unicodedata.normalize("NFC", unicodedata.normalize("NFD", s).casefold())


def keytok(s, norm):
    n = norm(s)
    return "%s=%s" % (hexs(G.units_of(s)) if s else "-", "!" if n is None else (hexs(G.units_of(n)) if n else "-"))


# ---- reference implementation of the documented contracts -------------------------------------------------------------
# trees as in ggvals; tables ('T', [(key units, tree)…]); packets ('P', [(name units, tree)…]) at slot level only

class Hazard(Exception):
    """the operation passes an object that lies inside the object it replaces — outside what the contracts define; the
    expectation is nevertheless: no crash, the target ends up a copy of the source as it was before the call"""


def nk_of(container_tag, key_units):
    s = G.str_of(key_units)
    return (norm_name if container_tag == "P" else norm_table_key)(s)


def child(tree, step):
    if step[0] == "i":
        if tree[0] != "L" or step[1] >= len(tree[1]):
            return None
        return tree[1][step[1]]
    if tree[0] not in "TP":
        return None
    for ko, v in tree[1]:
        if nk_of(tree[0], ko) == step[1]:
            return v
    return None


def resolve(tree, path):
    for st in path:
        if tree is None:
            return None
        tree = child(tree, st)
    return tree


def update(tree, path, new):
    if not path:
        return new
    st = path[0]
    if st[0] == "i":
        items = list(tree[1])
        items[st[1]] = update(items[st[1]], path[1:], new)
        return ("L", items)
    ents = []
    for ko, v in tree[1]:
        if nk_of(tree[0], ko) == st[1]:
            v = update(v, path[1:], new)
        ents.append((ko, v))
    return (tree[0], ents)


DEFAULTS = {0: ("C", 1, []), 1: ("M", 0, [0x30]), 2: ("L", []), 3: ("T", []), 4: ("N",), 5: ("U",)}


class Sim:
    def __init__(self):
        self.vals = [None] * 8
        self.pkts = [None] * 4

    # -- references: (kind 's'|'p', slot, path)
    def root(self, ref):
        return (self.vals if ref[0] == "s" else self.pkts)[ref[1]]

    def set_root(self, ref, tree):
        (self.vals if ref[0] == "s" else self.pkts)[ref[1]] = tree

    def get(self, ref):
        r = self.root(ref)
        v = None if r is None else resolve(r, ref[2])
        if v is None:
            raise KeyError(ref)          # the reference does not resolve
        return v

    def put(self, ref, new):
        self.set_root(ref, update(self.root(ref), ref[2], new))

    def show_root(self, ref):
        r = self.root(ref)
        if r is None:
            return "_"
        return G.show(("T", r[1]) if r[0] == "P" else r)

    def final(self):
        return " ; ".join(self.show_root(("s", k, [])) for k in range(8)) + " ; " + " ; ".join(self.show_root(("p", k, [])) for k in range(4))

    def copy_onto(self, src, dst):
        """copy what is put in: the target ends up a copy of the source as it was before the call (wherever the source lies
        relative to the target); passing the very object is the documented no-op"""
        val = self.get(src)
        self.get(dst)
        if src == dst:
            return
        self.put(dst, val)

    # -- operations: return the expected observation text (without root dumps) and the list of refs whose root is dumped
    def precheck(self, o):
        """every reference the operation needs must resolve before anything is changed (otherwise the executor and the
        model skip the operation: `bad`); raises KeyError"""
        name = o[0]
        if name in ("new", "bld", "pnew"):
            if self.root(o[1]) is not None or o[1][2]:
                raise KeyError(o[1])
            if (name == "pnew") != (o[1][0] == "p"):
                raise KeyError(o[1])
            return
        if name in ("free", "pfree"):
            if self.root(o[1]) is None or o[1][2] or (name == "pfree") != (o[1][0] == "p"):
                raise KeyError(o[1])
            return
        if name == "cln":
            self.get(o[1])
            if not (self.root(o[2]) is None and not o[2][2] and o[2][0] == "s"):
                self.get(o[2])
            return
        if name[0] == "p":                       # packet operations address a packet slot
            if o[1][0] != "p" or o[1][2] or self.root(o[1]) is None:
                raise KeyError(o[1])
        else:
            if o[1][0] == "p" and not o[1][2]:
                raise KeyError(o[1])             # a packet is not a value object
            self.get(o[1])
        if name in ("lset", "lins", "tset", "pset") and o[3] is not None:
            self.get(o[3])
        if name in ("lrem", "trem", "prem") and o[3] is not None:
            if o[3][0] != "s" or o[3][2] or self.root(o[3]) is not None:
                raise KeyError(o[3])

    def op(self, o):
        self.precheck(o)
        name = o[0]
        if name == "new":
            ref, kind = o[1], o[2]
            if kind in DEFAULTS:
                self.set_root(ref, DEFAULTS[kind])
                return "0", [ref]
            return str(ARG), [ref]
        if name == "bld":
            self.set_root(o[1], o[2])
            return "0", [o[1]]
        if name in ("free", "pfree"):
            self.set_root(o[1], None)
            return "0", [o[1]]
        if name == "cln":
            src, dst = o[1], o[2]
            if self.root(dst) is None:
                self.set_root(dst, self.get(src))
            else:
                self.copy_onto(src, dst)
            return "0", [dst]
        if name == "init":
            ref, kind = o[1], o[2]
            if kind in DEFAULTS:
                self.put(ref, DEFAULTS[kind])
                return "0", [ref]
            self.put(ref, ("U",))        # "on failure the value is left in a valid but otherwise unspecified state": see oracle
            return str(ARG), [ref]
        if name in ("ichr", "cchr"):
            ref, text = o[1], o[2]
            if text is None:
                return str(ARG), [ref]
            self.put(ref, ("C", 1, list(text)))
            return "0", [ref]
        if name == "kind":
            v = self.get(o[1])
            code = {"C": 0, "M": 1, "L": 2, "T": 3, "N": 4, "U": 5}[v[0]]
            return "k%d q%d" % (code, v[1] if v[0] in "CM" else 0), []
        if name == "text":
            v = self.get(o[1])
            return "0 " + (hexs(v[2]) if v[0] in "CM" else "~"), []
        if name == "cnt":
            v = self.get(o[1])
            if v[0] in "LT":
                return "0 %d" % len(v[1]), []
            return str(ARG), []
        if name == "lget":
            v = self.get(o[1])
            if v[0] != "L":
                return "%d ~" % ARG, []
            if o[2] >= len(v[1]):
                return "%d ~" % BADIDX, []
            return "0 " + G.show(v[1][o[2]]), []
        if name == "lset":
            ref, i, src = o[1], o[2], o[3]
            v = self.get(ref)
            if v[0] != "L":
                return str(ARG), [ref]
            if i >= len(v[1]):
                return str(BADIDX), [ref]
            target = (ref[0], ref[1], ref[2] + [("i", i)])
            if src is None:
                self.put(target, ("U",))
            elif src != target:
                self.copy_onto(src, target)
            return "0", [ref]
        if name == "lins":
            ref, i, src = o[1], o[2], o[3]
            v = self.get(ref)
            if v[0] != "L":
                return str(ARG), [ref]
            if i > len(v[1]):
                return str(BADIDX), [ref]
            x = ("U",) if src is None else self.get(src)
            self.put(ref, ("L", v[1][:i] + [x] + v[1][i:]))
            return "0", [ref]
        if name == "lrem":
            ref, i, dst = o[1], o[2], o[3]
            v = self.get(ref)
            if v[0] != "L":
                return str(ARG), [ref]
            if i >= len(v[1]):
                return str(BADIDX), [ref]
            x = v[1][i]
            self.put(ref, ("L", v[1][:i] + v[1][i + 1:]))
            if dst is None:
                return "0", [ref]
            self.set_root(dst, x)
            return "0 => " + G.show(x), [ref]
        if name in ("tget", "pget", "tset", "pset", "trem", "prem"):
            ref, key = o[1], o[2]
            v = self.get(ref)
            want = "P" if name[0] == "p" else "T"
            if v[0] != want:
                return (str(ARG) + (" ~" if name[1:] == "get" else "")), ([] if name[1:] == "get" else [ref])
            nk = nk_of(want, G.units_of(key))
            found = None
            for idx, (ko, x) in enumerate(v[1]):
                if nk is not None and nk_of(want, ko) == nk:
                    found = idx
                    break
            if name[1:] == "get":
                if found is None:
                    return "%d ~" % NOSUCH, []
                return "0 " + G.show(v[1][found][1]), []
            if name[1:] == "rem":
                if found is None:
                    return str(NOSUCH), [ref]
                x = v[1][found][1]
                self.put(ref, (want, v[1][:found] + v[1][found + 1:]))
                if o[3] is None:
                    return "0", [ref]
                self.set_root(o[3], x)
                return "0 => " + G.show(x), [ref]
            # set
            src = o[3]
            if nk is None:
                return str(BADNAME if want == "P" else BADIDX), [ref]
            if found is None:
                x = ("U",) if src is None else self.get(src)
                self.put(ref, (want, v[1] + [(G.units_of(key), x)]))
                return "0", [ref]
            ents = list(v[1])
            ents[found] = (G.units_of(key), ents[found][1])          # the spelling most recently used is the one reported
            self.put(ref, (want, ents))
            target = (ref[0], ref[1], ref[2] + [("k", nk)])
            if src is None:
                self.put(target, ("U",))
            elif src != target:
                self.copy_onto(src, target)
            return "0", [ref]
        if name in ("tkeys", "pnames"):
            v = self.get(o[1])
            if v[0] != ("P" if name == "pnames" else "T"):
                return str(ARG), []
            return "0" + "".join(" " + hexs(ko) for ko, _ in v[1]), []
        if name == "pnew":
            ref, names = o[1], o[2]
            if any(norm_name(n) is None for n in names):
                return str(BADNAME), [ref]
            ents, seen = [], set()
            for n in names:
                if norm_name(n) in seen:
                    return str(DUPNAME), [ref]       # two names for one item: refused (CIF_DUP_ITEMNAME)
                seen.add(norm_name(n))
                ents.append((G.units_of(n), ("U",)))
            self.set_root(ref, ("P", ents))
            return "0", [ref]
        raise ValueError(name)


# ---- wire format ----------------------------------------------------------------------------------------------------

def ref_tok(sim_or_none, ref):
    out = "%s%d" % (ref[0], ref[1])
    tag = "P" if ref[0] == "p" else None
    for depth, st in enumerate(ref[2]):
        if st[0] == "i":
            out += "/%d" % st[1]
        else:
            # a key step travels as <orig>=<norm>; the original spelling used is the normalised one itself
            out += "/k%s=%s" % (hexs(G.units_of(st[1])) if st[1] else "-", hexs(G.units_of(st[1])) if st[1] else "-")
    return out


def op_tokens(o):
    n = o[0]
    R = lambda r: ref_tok(None, r)
    S = lambda r: "~" if r is None else R(r)
    if n == "new":
        return ["new", R(o[1]), str(o[2])]
    if n == "bld":
        return ["bld", R(o[1])] + G.tokens_of(o[2])
    if n in ("free", "pfree", "kind", "text", "cnt", "tkeys", "pnames"):
        return [n, R(o[1])]
    if n == "cln":
        return ["cln", R(o[1]), R(o[2])]
    if n == "init":
        return ["init", R(o[1]), str(o[2])]
    if n in ("ichr", "cchr"):
        return [n, R(o[1]), "~" if o[2] is None else hexs(o[2])]
    if n == "lget":
        return [n, R(o[1]), str(o[2])]
    if n in ("lset", "lins", "lrem"):
        return [n, R(o[1]), str(o[2]), S(o[3])]
    if n in ("tget", "pget"):
        return [n, R(o[1]), keytok(o[2], norm_name if n[0] == "p" else norm_table_key)]
    if n in ("tset", "pset", "trem", "prem"):
        return [n, R(o[1]), keytok(o[2], norm_name if n[0] == "p" else norm_table_key), S(o[3])]
    if n == "pnew":
        return ["pnew", R(o[1]), str(len(o[2]))] + [keytok(x, norm_name) for x in o[2]]
    raise ValueError(n)


def parse_ref(t):
    parts = t.split("/")
    ref = (parts[0][0], int(parts[0][1:]), [])
    for p in parts[1:]:
        if p[0] == "k":
            o, nk = p[1:].split("=")
            ref[2].append(("k", G.str_of(unhexs(nk))))
        else:
            ref[2].append(("i", int(p)))
    return ref


def parse_key_tok(t):
    return G.str_of(unhexs(t.split("=")[0]))


def parse_ops(req):
    toks = req.split(" ")[1:]
    ops, cur = [], []
    for t in toks + ["|"]:
        if t == "|":
            if cur:
                ops.append(cur)
            cur = []
        else:
            cur.append(t)
    out = []
    S = lambda t: None if t == "~" else parse_ref(t)
    for a in ops:
        n = a[0]
        if n == "new" or n == "init":
            out.append((n, parse_ref(a[1]), int(a[2])))
        elif n == "bld":
            tree, _ = G.parse_tokens(a[2:], 0)
            out.append((n, parse_ref(a[1]), tree))
        elif n in ("free", "pfree", "kind", "text", "cnt", "tkeys", "pnames"):
            out.append((n, parse_ref(a[1])))
        elif n == "cln":
            out.append((n, parse_ref(a[1]), parse_ref(a[2])))
        elif n in ("ichr", "cchr"):
            out.append((n, parse_ref(a[1]), unhexs(a[2])))
        elif n == "lget":
            out.append((n, parse_ref(a[1]), int(a[2])))
        elif n in ("lset", "lins", "lrem"):
            out.append((n, parse_ref(a[1]), int(a[2]), S(a[3])))
        elif n in ("tget", "pget"):
            out.append((n, parse_ref(a[1]), parse_key_tok(a[2])))
        elif n in ("tset", "pset", "trem", "prem"):
            out.append((n, parse_ref(a[1]), parse_key_tok(a[2]), S(a[3])))
        elif n == "pnew":
            out.append((n, parse_ref(a[1]), [parse_key_tok(x) for x in a[3:]]))
        else:
            raise ValueError(n)
    return out


# ---- generation ------------------------------------------------------------------------------------------------------

def all_refs(sim, maxdepth=3, kinds="s"):
    """references to every object reachable within maxdepth steps"""
    out = []

    def walk(ref, tree, d):
        out.append((ref, tree))
        if d >= maxdepth:
            return
        if tree[0] == "L":
            for i, v in enumerate(tree[1][:12]):
                walk((ref[0], ref[1], ref[2] + [("i", i)]), v, d + 1)
        elif tree[0] in "TP":
            for ko, v in tree[1][:12]:
                walk((ref[0], ref[1], ref[2] + [("k", nk_of(tree[0], ko))]), v, d + 1)
    if "s" in kinds:
        for k, t in enumerate(sim.vals):
            if t is not None:
                walk(("s", k, []), t, 0)
    if "p" in kinds:
        for k, t in enumerate(sim.pkts):
            if t is not None:
                for ko, v in t[1]:
                    walk(("p", k, [("k", nk_of("P", ko))]), v, 1)
    return out


def small_leaf(r):
    return G.rand_leaf(r, 8)


def small_tree(r):
    return G.rand_tree(r, r.randint(0, 2), widths=(0, 1, 2, 3, 4, 5), maxlen=8, leaf=lambda rr, m: G.rand_leaf(rr, 8))


def inside(src, dst):
    return src[:2] == dst[:2] and src[2][:len(dst[2])] == dst[2] and len(src[2]) > len(dst[2])


def gen_sequence(r, nops, flavour):
    sim = Sim()
    ops = []

    def emit(o):
        sim.op(o)
        ops.append(o)

    def empty_val():
        e = [k for k in range(8) if sim.vals[k] is None]
        return ("s", r.choice(e), []) if e else None

    def pick(pred=lambda ref, t: True, kinds="s"):
        c = [(ref, t) for ref, t in all_refs(sim, kinds=kinds) if pred(ref, t)]
        return r.choice(c) if c else (None, None)

    def pick_src(target=None, allow_null=True):
        if allow_null and r.random() < 0.1:
            return None
        c = [ref for ref, t in all_refs(sim, kinds="sp") if target is None or not (inside(ref, target) or ref == target or inside(target, ref))]
        return r.choice(c) if c else None

    # a few starting objects
    for _ in range(r.randint(1, 3)):
        e = empty_val()
        if e:
            emit(("bld", e, small_tree(r)) if r.random() < 0.6 else ("new", e, r.choice([0, 1, 2, 2, 3, 3, 4, 5])))
    tries = 0
    while len(ops) < nops and tries < nops * 6:
        tries += 1
        k = r.random()
        try:
            if k < 0.06:
                e = empty_val()
                if e:
                    emit(("new", e, r.choice([0, 1, 2, 2, 3, 3, 4, 5, 6, 17])) if r.random() < 0.5 else ("bld", e, small_tree(r)))
            elif k < 0.09:
                c = [i for i in range(8) if sim.vals[i] is not None]
                if len(c) > 2:
                    emit(("free", ("s", r.choice(c), [])))
            elif k < 0.17:
                src, _ = pick(kinds="sp")
                if src is None:
                    continue
                if r.random() < 0.5:
                    e = empty_val()
                    if e:
                        emit(("cln", src, e))
                else:
                    dst, _ = pick(lambda ref, t: not inside(src, ref) and not inside(ref, src) and ref != src, kinds="sp")
                    if dst:
                        emit(("cln", src, dst))
            elif k < 0.22:
                ref, _ = pick(kinds="sp")
                if ref:
                    emit(("init", ref, r.choice([0, 1, 2, 2, 3, 3, 4, 5, 5, 9])))
            elif k < 0.27:
                ref, _ = pick(kinds="sp")
                if ref:
                    emit((r.choice(["ichr", "cchr"]), ref, G.rand_string(r, 8)) if r.random() < 0.9 else ("cchr", ref, None))
            elif k < 0.31:
                ref, _ = pick(kinds="sp")
                if ref:
                    emit((r.choice(["kind", "text", "cnt"]), ref))
            elif k < 0.62:
                # list operations, mostly on lists, sometimes on the wrong kind
                wrong = r.random() < 0.07
                ref, t = pick((lambda ref, t: t[0] != "L") if wrong else (lambda ref, t: t[0] == "L"), kinds="sp")
                if ref is None:
                    continue
                n = len(t[1]) if t[0] == "L" else 0
                i = r.choice([0, 0, 1, max(0, n - 1), n, n, n + 1, r.randint(0, n + 1)])
                which = r.random()
                if which < 0.45:
                    emit(("lins", ref, i, pick_src()))
                elif which < 0.65:
                    target = (ref[0], ref[1], ref[2] + [("i", i)])
                    src = target if (r.random() < 0.15 and i < n) else pick_src(target)
                    emit(("lset", ref, i, src))
                elif which < 0.85:
                    dst = empty_val() if r.random() < 0.5 else None
                    emit(("lrem", ref, i, dst))
                else:
                    emit(("lget", ref, i))
            elif k < 0.84:
                wrong = r.random() < 0.07
                ref, t = pick((lambda ref, t: t[0] != "T") if wrong else (lambda ref, t: t[0] == "T"), kinds="sp")
                if ref is None:
                    continue
                present = [G.str_of(ko) for ko, _ in t[1]] if t[0] == "T" else []
                key = r.choice(TABLE_KEYS + present + present) if r.random() < 0.93 else r.choice(BAD_TABLE_KEYS)
                which = r.random()
                if which < 0.5:
                    nk = norm_table_key(key)
                    target = (ref[0], ref[1], ref[2] + [("k", nk)])
                    exists = t[0] == "T" and nk is not None and any(norm_table_key(G.str_of(ko)) == nk for ko, _ in t[1])
                    src = target if (exists and r.random() < 0.15) else pick_src(target if exists else None)
                    emit(("tset", ref, key, src))
                elif which < 0.7:
                    emit(("trem", ref, key, empty_val() if r.random() < 0.5 else None))
                elif which < 0.9:
                    emit(("tget", ref, key))
                else:
                    emit(("tkeys", ref))
            else:
                # packets
                live = [i for i in range(4) if sim.pkts[i] is not None]
                if not live or r.random() < 0.15:
                    e = [i for i in range(4) if sim.pkts[i] is None]
                    if e:
                        names, seen = [], set()
                        for _ in range(r.choice([0, 1, 2, 3, 5])):
                            nm = r.choice(NAMES) if r.random() < 0.95 else r.choice(BAD_NAMES)
                            if norm_name(nm) in seen:
                                continue
                            seen.add(norm_name(nm))
                            names.append(nm)
                        emit(("pnew", ("p", r.choice(e), []), names))
                    continue
                p = ("p", r.choice(live), [])
                t = sim.pkts[p[1]]
                present = [G.str_of(ko) for ko, _ in t[1]]
                name = r.choice(NAMES + present) if r.random() < 0.93 else r.choice(BAD_NAMES)
                which = r.random()
                if which < 0.5:
                    nk = norm_name(name)
                    target = ("p", p[1], [("k", nk)])
                    exists = nk is not None and any(norm_name(G.str_of(ko)) == nk for ko, _ in t[1])
                    src = target if (exists and r.random() < 0.15) else pick_src(target if exists else None)
                    emit(("pset", p, name, src))
                elif which < 0.65:
                    emit(("prem", p, name, empty_val() if r.random() < 0.5 else None))
                elif which < 0.8:
                    emit(("pget", p, name))
                elif which < 0.95:
                    emit(("pnames", p))
                elif len(live) > 1:
                    emit(("pfree", p))
        except Hazard:
            continue
    # special endings
    if flavour == "alias-inside":
        # the object passed in lies inside the object it replaces (set / clone), or is that very object (clone)
        c = [(ref, t) for ref, t in all_refs(sim, kinds="sp") if ref[2] and t is not None]
        r.shuffle(c)
        for src, _ in c:
            cut = r.randint(0, len(src[2]) - 1)
            dst = (src[0], src[1], src[2][:cut])
            if dst[0] == "p" and not dst[2]:
                continue
            if cut > 0 and r.random() < 0.6:
                parent = (dst[0], dst[1], dst[2][:-1])
                last = dst[2][-1]
                pt = sim.get(parent)
                if last[0] == "i":
                    ops.append(("lset", parent, last[1], src))
                elif pt[0] == "T":
                    ops.append(("tset", parent, [G.str_of(ko) for ko, _ in pt[1] if norm_table_key(G.str_of(ko)) == last[1]][0], src))
                elif pt[0] == "P":
                    ops.append(("pset", parent, [G.str_of(ko) for ko, _ in pt[1] if norm_name(G.str_of(ko)) == last[1]][0], src))
                else:
                    continue
            else:
                ops.append(("cln", src, dst))
            break
    elif flavour == "alias-ancestor":
        # the object being replaced lies inside the object passed in (e.g. a list set as its own element's member)
        c = [(ref, t) for ref, t in all_refs(sim, kinds="sp") if len(ref[2]) >= (2 if ref[0] == "p" else 1)]
        r.shuffle(c)
        for dst, _ in c:
            lo = 1 if dst[0] == "p" else 0
            src = (dst[0], dst[1], dst[2][:r.randint(lo, len(dst[2]) - 1)])
            if r.random() < 0.5:
                ops.append(("cln", src, dst))
            else:
                parent = (dst[0], dst[1], dst[2][:-1])
                last = dst[2][-1]
                pt = sim.get(parent) if (parent[2] or parent[0] == "s") else sim.root(parent)
                if last[0] == "i":
                    ops.append(("lset", parent, last[1], src))
                elif pt[0] == "T":
                    ops.append(("tset", parent, [G.str_of(ko) for ko, _ in pt[1] if norm_table_key(G.str_of(ko)) == last[1]][0], src))
                else:
                    ops.append(("cln", src, dst))
            ops.append(("cnt", (dst[0], dst[1], dst[2][:lo]) if lo == 0 else dst))
            break
    elif flavour == "self-clone":
        ref, _ = pick(lambda ref, t: t[0] in "CMLT", kinds="sp")
        if ref:
            ops.append(("cln", ref, ref))
    elif flavour == "pkt-dup":
        e = [i for i in range(4) if sim.pkts[i] is None]
        if e:
            a, b = r.choice([("_a", "_A"), ("_\u00e9", "_e\u0301"), ("_b", "_b"), ("_Item.X", "_item.x")])
            p = ("p", e[0], [])
            ops.append(("pnew", p, r.choice([[a, b], ["_c", a, b], [a, "_d", b]])))
            ops.append(("pnames", p))
            ops.append(("prem", p, a, None))
            ops.append(("pget", p, b))
    return ops


def f10_history(r):
    """packet created from an already-normalised name, then set under another spelling (F10)"""
    a, b = r.choice([("_a", "_A"), ("_\u00e9", "_\u00c9"), ("_item.x", "_Item.X"), ("_\u00e9", "_e\u0301")])
    p = ("p", 0, [])
    ops = [("bld", ("s", 0, []), small_tree(r)), ("pnew", p, [a, "_c"] if r.random() < 0.5 else [a]), ("pset", p, b, ("s", 0, [])),
           ("pget", p, a), ("pnames", p), ("pset", p, a, None), ("pnames", p), ("prem", p, b, ("s", 1, [])), ("pnames", p)]
    if r.random() < 0.5:
        ops += [("pset", p, b, ("s", 1, [])), ("pget", p, a), ("pfree", p)]
    return ops


def respell_alias(r):
    """set on an EXISTING key under another spelling with a source that contains the entry (the new spelling is recorded
    before the value is copied, so the copy shows it), lies inside it, is the entry's own value, or NULL; then the entry is
    removed into a slot (group gM: the order of the two halves of cif_map_set_item on an existing key)"""
    a, b = r.choice([("\u00e9", "e\u0301"), ("\u00c5", "A\u030a"), ("x\u00e9", "xe\u0301")])   # table keys: NFC only
    r.random()
    s0 = ("s", 0, [])      # `a` is the NFC form: the value description given to bld carries the key as stored
    tbl = ("T", [(G.units_of(a), ("T", [(G.units_of("q"), small_tree(r))]))])
    wrap = r.random() < 0.5
    ops = [("bld", s0, ("L", [tbl]) if wrap else tbl)]
    t = ("s", 0, [("i", 0)]) if wrap else s0
    ent = (t[0], t[1], t[2] + [("k", norm_table_key(a))])
    src = r.choice([s0, t, ent, (ent[0], ent[1], ent[2] + [("k", "q")]), None])
    ops += [("tset", t, b, src), ("tkeys", t), ("tget", t, a), ("trem", t, a, ("s", 1, [])), ("cnt", ("s", 1, []))]
    return ops


def capacity_walk(r):
    """a list grown through the capacity steps 0→4→8→12→18→27 with inserts at the front / middle / end and removals"""
    ops = [("new", ("s", 0, []), 2), ("bld", ("s", 1, []), small_leaf(r))]
    n = 0
    for _ in range(r.choice([5, 9, 13, 19, 28])):
        i = r.choice([0, n // 2, n])
        ops.append(("lins", ("s", 0, []), i, ("s", 1, []) if r.random() < 0.7 else None))
        n += 1
        if n in (4, 5, 8, 9, 12, 13, 18, 19) and r.random() < 0.5:
            ops.append(("lrem", ("s", 0, []), r.choice([0, n - 1]), None))
            n -= 1
            ops.append(("lins", ("s", 0, []), n, ("s", 0, [("i", 0)]) if n > 0 else None))
            n += 1
    ops.append(("cln", ("s", 0, []), ("s", 2, [])))
    ops.append(("lins", ("s", 2, []), n, ("s", 0, [])))
    ops.append(("free", ("s", 0, [])))
    ops.append(("cnt", ("s", 2, [])))
    return ops


def big_table(r, quick):
    """a table grown past uthash's bucket expansions (32 -> 64 -> 128 … buckets; an expansion happens when a chain exceeds 10
    entries per bucket on average, i.e. past 320, 640 … entries), by a build and by single sets; then cloned, thinned out,
    partly re-spelled, and released.  Used by family valheap (the dumps of family val would be several MB per case)."""
    n = r.randint(330, 420) if quick else r.randint(330, 900)
    keys = ["k%d%s" % (i, r.choice(["", "", "\u00e9", " x", "\u212b"])) for i in range(n)]
    r.shuffle(keys)
    half = n // 2
    t0, s1, t2 = ("s", 0, []), ("s", 1, []), ("s", 2, [])
    ops = [("bld", t0, ("T", [(G.units_of(k.replace("\u212b", "\u00c5")), small_leaf(r) if r.random() < 0.3 else ("U",)) for k in keys[:half]])),
           ("bld", s1, small_leaf(r))]
    for k in keys[half:]:
        ops.append(("tset", t0, k, s1 if r.random() < 0.5 else None))
    ops += [("cnt", t0), ("cln", t0, t2)]
    for k in r.sample(keys, n // 3):
        ops.append(("trem", t0, k, None))
    for k in r.sample(keys, 10):
        ops.append(("tset", t0, k.replace("\u00e9", "e\u0301").replace("\u212b", "A\u030a"), s1))
    ops += [("free", t0), ("tget", t2, keys[0]), ("trem", t2, keys[1], ("s", 3, [])), ("cnt", t2)]
    return ops


def request(ops):
    return "val " + " | ".join(" ".join(op_tokens(o)) for o in ops)


def generate(seed, tier):
    r = rng(seed, FAMILY)
    quick = tier == "quick"
    for _ in range(25 if quick else 200):
        yield request(f10_history(r))
    for _ in range(25 if quick else 200):
        yield request(capacity_walk(r))
    n = 3000 if quick else 20000
    for i in range(n):
        nops = r.choice([3, 8, 15, 30]) if quick else r.choice([10, 30, 100, 300])
        x = r.random()
        flavour = "plain" if x < 0.86 else ("alias-inside" if x < 0.91 else ("alias-ancestor" if x < 0.95 else ("self-clone" if x < 0.975 else "pkt-dup")))
        yield request(gen_sequence(r, nops, flavour))
    for _ in range(20 if quick else 200):
        yield request(respell_alias(r))


# ---- oracle --------------------------------------------------------------------------------------------------------

def replay(req):
    """expected observation according to the contracts; returns (text, hazard_op_index or None, hazard kind)"""
    sim = Sim()
    outs = []
    for idx, o in enumerate(parse_ops(req)):
        try:
            res, roots = sim.op(o)
        except (TypeError, IndexError, KeyError, AttributeError):
            outs.append("bad")          # a reference that does not resolve (only in shrunk requests): the op is skipped
            continue
        except Hazard as h:
            return outs, idx, str(h), sim
        outs.append(res + "".join(" : " + sim.show_root(rf) for rf in roots))
    return outs, None, None, sim


def split_impl(impl):
    body = impl[3:] if impl.startswith("vl ") else impl
    if " # " in body:
        ops, final = body.rsplit(" # ", 1)
    else:
        ops, final = body, None
    return (ops.split(" | ") if ops else []), final


def oracle(req, impl):
    if not impl.startswith("vl"):
        return None            # crashes / time-outs are judged generically
    want, _, _, sim = replay(req)
    got, final = split_impl(impl)
    for i, w in enumerate(want):
        if i >= len(got):
            return "no observation for operation %d" % i
        g = got[i]
        if g != w:
            o = parse_ops(req)[i]
            if o[0] == "init" and w.startswith(str(ARG)) and g.startswith(str(ARG)):
                continue               # state after a failed init is unspecified by the documentation
            return "operation %d (%s): contract predicts '%s', implementation observed '%s'" % (i, " ".join(op_tokens(o))[:80], w[:200], g[:200])
    if final is not None and final != sim.final():
        return "final state differs from the contract's: expected '%s', observed '%s'" % (sim.final()[:300], final[:300])
    return None


def alias_kind(req):
    """which special relation between source and target a sequence contains (for the histogram)"""
    try:
        ops = parse_ops(req)
    except Exception:
        return None
    for o in ops:
        src = dst = None
        if o[0] == "cln":
            src, dst = o[1], o[2]
        elif o[0] == "lset" and o[3] is not None:
            src, dst = o[3], (o[1][0], o[1][1], o[1][2] + [("i", o[2])])
        elif o[0] in ("tset", "pset") and o[3] is not None:
            nk = (norm_name if o[0] == "pset" else norm_table_key)(o[2])
            src, dst = o[3], (o[1][0], o[1][1], o[1][2] + [("k", nk)])
        elif o[0] == "pnew":
            ns = [norm_name(n) for n in o[2]]
            if None not in ns and len(set(ns)) < len(ns):
                return "pkt-dup"
        if src is not None:
            if src == dst:
                return "same-object"
            if inside(src, dst):
                return "source-inside-target"
            if inside(dst, src):
                return "target-inside-source"
    return None


def nontrivial(req, impl):
    n = 0
    got, _ = split_impl(impl) if impl.startswith("vl") else ([], None)
    for a, g in zip(req[4:].split(" | "), got):
        if a.split(" ")[0] in ("lins", "lset", "lrem", "tset", "trem", "pset", "prem", "cln") and g.startswith("0"):
            n += 1
    return n >= 3


def classify(req, impl):
    k = alias_kind(req)
    if k:
        return k
    n = req.count(" | ") + 1
    return "plain <=8 ops" if n <= 8 else ("plain <=30 ops" if n <= 30 else "plain >30 ops")


def shrink(req):
    ops = req[4:].split(" | ")
    n = len(ops)
    step = n // 2
    while step >= 1:
        for s in range(0, n, step):
            cand = ops[:s] + ops[s + step:]
            if cand:
                yield "val " + " | ".join(cand)
        step //= 2


def finding_class(req, impl, model, why):
    return None
