"""family `dialect` (C11): every cell of the version / encoding table through the real cif_parse (harness/x_dialect.c).

The oracle is the DOCUMENTED table (cif.h: struct cif_parse_opts_s, cif_parse; property C11), written here independently
of ciffile.c / parser.c:

  version : prefer_cif2 < 0 -> 1.1 | prefer_cif2 >= 20 -> 2.0 | leading `#\\#CIF_2.0` comment -> 2.0 | a leading comment for
            another version -> 1.1 | no version comment -> 2.0 if prefer_cif2 > 0 else 1.1
  encoding: force_default_encoding -> the default (named, else the system's) | a Unicode signature -> that encoding |
            CIF 2.0 -> UTF-8 | otherwise the default (named, else the system's)
  errors  : CIF 2.0 read through a converter other than UTF-8 -> CIF_WRONG_ENCODING; an initial U+FEFF is consumed, and is a
            CIF_DISALLOWED_CHAR under CIF 1.1; apart from these the content and the (code,line) errors are those of the same text
            read under the selected version.
Interpretations fixed here (stated in tools/props/C11.py ASSUMPTIONS): a version comment is the first token of the text iff it
has exactly ten characters and is followed by whitespace or the end of the input; without a signature and without
force_default_encoding the comment has to be readable in the raw bytes (ASCII-compatible), so a UTF-16/32 file without
signature carries "no version comment" for the purpose of version selection.
"""
import os, re, sys
sys.path.insert(0, os.path.dirname(os.path.abspath(__file__)))
from common import hexs, unhexs, rng

FAMILY = "dialect"
HARNESS = {"source": "x_dialect.c", "exclude_objs": ["ciffile"], "leak_clean": True}
RULE = ("EXHAUSTIVE over {no magic, magic after a blank line, #\\#CIF_2.0 followed by a non-space, {#\\#CIF_1.0, #\\#CIF_1.1, "
        "#\\#CIF_2.0} x terminator {LF, CR, CR LF, blank, tab, blank+CR, tab+CR LF, end of input}} x {signature, none} x prefer_cif2 in {-1,0,1,19,20} x {UTF-8, UTF-16LE/BE, UTF-32LE/BE, ISO-8859-1} x "
        "force_default_encoding x default_encoding_name {NULL, the file's encoding} x 5 probe documents whose reading differs by "
        "dialect; plus short / empty / BOM-only / second-BOM / non-ASCII inputs and random prefer_cif2 values. non-trivial = every "
        "cell (each is a distinct configuration). oracle: the documented table (this file), applied to the encoding cif_parse "
        "opened, the version it used, the error log and the content compared with the same text read as CIF 1.1 / CIF 2.0")

ICU = {"utf8": "UTF-8", "utf16le": "UTF-16LE", "utf16be": "UTF-16BE", "utf32le": "UTF-32LE", "utf32be": "UTF-32BE",
       "latin1": "ISO-8859-1"}
WIDE = ("utf16le", "utf16be", "utf32le", "utf32be")
MAGIC2 = "#\\#CIF_2.0"
WRONG_ENCODING, DISALLOWED_CHAR = 110, 104

# what may follow the ten characters of a version comment: each line-terminator convention, a blank, a tab (the rest of that
# line is then part of the comment, so the probe starts on the next line) — and the end of the input (TERMINATED_ONLY below)
TERMINATORS = {"lf": "\n", "cr": "\r", "crlf": "\r\n", "sp": " \n", "tab": "\t\n", "spcr": " \r", "tabcrlf": "\t\r\n"}
CODES = {"v10": "#\\#CIF_1.0", "v11": "#\\#CIF_1.1", "v20": MAGIC2}
MAGICS = {"none": "", "blank20": "\n" + MAGIC2 + "\n", "v20x": MAGIC2 + "x\n"}
for _c, _code in CODES.items():
    for _t, _term in TERMINATORS.items():
        MAGICS[_c if _t == "lf" else _c + "-" + _t] = _code + _term
TERMINATED_ONLY = list(CODES.values())        # the version comment is the whole input
PROBES = {"list": "data_p _x [a b]\n", "its": "data_p _x 'it's'\n", "table": "data_p _x {'k':v}\n", "triple": "data_p _x '''x'''\n",
          "folded": "data_p _x\n;\\\nab\\\ncd\n;\n"}
EXTRA_TEXTS = ["", "#", "#x", "d", MAGIC2, MAGIC2 + " ", MAGIC2 + "\tdata_p _x [a b]\n", MAGIC2[:9], MAGIC2[:9] + "\n",
               "#\\#CIF_2.1\ndata_p _x [a b]\n", "#\\#CIF_1.10\ndata_p _x [a b]\n", "#\\#CIF_2.01\ndata_p _x [a b]\n",
               " " + MAGIC2 + "\ndata_p _x [a b]\n", "data_p _x 'é'\n", MAGIC2 + "\ndata_p _x 'é'\n",
               "data_p _x a\ufeffb\n", MAGIC2 + "\ndata_p _x a\ufeffb\n", "\ufeffdata_p _x [a b]\n", "\r\n" + MAGIC2 + "\n"]


def req(prefer, force, enc, sig, dflt, text):
    return "dialect %d %d %s %d %s %s" % (prefer, force, enc, sig, dflt, hexs(text))


def generate(seed, tier):
    r = rng(seed, FAMILY)
    for mk, magic in MAGICS.items():
        for pk, probe in PROBES.items():
            text = magic + probe
            for enc in ICU:
                for sig in (0, 1):
                    for prefer in (-1, 0, 1, 19, 20):
                        for force in (0, 1):
                            for dflt in ("~", "="):
                                yield req(prefer, force, enc, sig, dflt, text)
    # named defaults whose canonical ICU name sorts after / before "UTF-8", and an alias of UTF-8
    for dflt in ("windows-1252", "ISO-8859-1", "utf8", "UTF-16LE"):
        for prefer in (-1, 0, 5, 20):
            for magic in ("none", "v11", "v20", "v20-cr"):
                for force in (0, 1):
                    yield req(prefer, force, "utf8", 0, dflt, MAGICS[magic] + PROBES["list"])
    for text in TERMINATED_ONLY:
        for enc in ICU:
            for sig in (0, 1):
                for prefer in (-1, 0, 1, 19, 20):
                    for force in (0, 1):
                        for dflt in ("~", "="):
                            yield req(prefer, force, enc, sig, dflt, text)
    for text in EXTRA_TEXTS:
        for enc in ICU:
            for sig in (0, 1):
                for prefer in (-1, 0, 5, 20):
                    for force, dflt in ((0, "~"), (0, "="), (1, "=")):
                        yield req(prefer, force, enc, sig, dflt, text)
    # prefer_cif2 is an int: probe the range boundaries and random values; a named default that differs from the file's encoding
    texts = [m + p for m in MAGICS.values() for p in PROBES.values()]
    for _ in range(2000 if tier != "quick" else 300):
        prefer = r.choice([-2147483648, -2, -1, 0, 1, 2, 18, 19, 20, 21, 2147483647, r.randint(-100, 100)])
        enc = r.choice(list(ICU))
        dflt = r.choice(["~", "=", "ISO-8859-1", "UTF-8", "UTF-16LE", "US-ASCII", "windows-1252", "utf8"])
        yield req(prefer, r.randint(0, 1), enc, r.randint(0, 1), dflt, r.choice(texts))


def _kv(obs):
    out = {}
    for t in obs.split(" ")[1:]:
        if "=" in t:
            k, v = t.split("=", 1)
            if k not in out:
                out[k] = v
    return out


def parse_req(req_):
    t = req_.split(" ")
    text = "".join(chr(u) for u in (unhexs(t[6]) or []))
    return int(t[1]), int(t[2]), t[3], int(t[4]), t[5], text


def first_token(text):
    m = re.match(r"[^ \t\r\n]*", text)
    return m.group(0)


def magic_kind(text):
    """the leading version comment, as documented: exactly ten characters, followed by whitespace or the end of the input"""
    if text.startswith("\ufeff"):
        text = text[1:]
    tok = first_token(text)
    if len(tok) == 10 and tok == MAGIC2:
        return "v2"
    if len(tok) == 10 and tok.startswith("#\\#CIF_"):
        return "other"
    return "none"


def magic_like(text):
    """first token looks like a version comment but is not one (wrong length): the documentation does not say whether that is
    'a comment for another version' or 'no version comment'"""
    if text.startswith("\ufeff"):
        text = text[1:]
    tok = first_token(text)
    return tok.startswith("#\\#CIF_") and len(tok) != 10


def has_signature(enc, sig, text):
    """the file starts with a Unicode signature: asked for, or the text itself starts with U+FEFF (which the Unicode encodings
    write as their signature)"""
    return bool(sig) or (text.startswith("\ufeff") and enc != "latin1")


def spec(prefer, force, enc, sig, dflt, text):
    """-> (set of acceptable versions, expected encoding name as passed to the converter ('~' = system default) per version)"""
    sig_enc = None
    if has_signature(enc, sig, text):
        sig_enc = "UTF-8" if enc == "latin1" else ICU[enc]
    default = "~" if dflt == "~" else (ICU[enc] if dflt == "=" else dflt)
    readable = bool(force) or sig_enc is not None or enc not in WIDE
    kind = magic_kind(text) if readable else "none"
    ambiguous = magic_like(text) if readable else False
    if prefer < 0:
        versions = {1}
    elif prefer >= 20:
        versions = {2}
    elif kind == "v2":
        versions = {2}
    elif kind == "other":
        versions = {1}
    elif ambiguous and prefer > 0:
        versions = {1, 2}
    else:
        versions = {2} if prefer > 0 else {1}

    def encoding(v):
        if force:
            return default
        if sig_enc:
            return sig_enc
        return "UTF-8" if v == 2 else default
    return versions, encoding


def decodes_correctly(chosen_conv, enc, sig, text):
    """does the converter cif_parse opened turn the file's bytes back into the text (plus the signature character)?"""
    actual = ICU[enc]
    ascii_only = all(ord(c) < 128 for c in text)
    if enc == "latin1" and any(ord(c) > 255 for c in text):
        return False                                            # the text cannot be written in the file's encoding at all
    if sig and enc == "latin1":
        return chosen_conv == "UTF-8" and ascii_only           # the lying signature is a UTF-8 one
    if chosen_conv == actual:
        return True
    return ascii_only and not sig and chosen_conv in ("UTF-8", "ISO-8859-1", "US-ASCII") and actual in ("UTF-8", "ISO-8859-1")


def oracle(req_, impl):
    if not impl.startswith("dl "):
        return None
    prefer, force, enc, sig, dflt, text = parse_req(req_)
    a = _kv(impl)
    if text == "" and not sig:
        return None if a.get("rc") == "0" and a.get("cif", "-") in ("-", "") else "an empty input must give an empty CIF and CIF_OK"
    if a.get("rc") != "0":
        return "cif_parse returned %s although every error was suppressed by the callback" % a.get("rc")
    versions, encoding = spec(prefer, force, enc, sig, dflt, text)
    body = text[1:] if text.startswith("\ufeff") else text
    dec_ok = decodes_correctly(a.get("conv", ""), enc, sig, text)
    if not dec_ok and 0 <= prefer < 20 and (force or has_signature(enc, sig, text)):
        # the version comment is looked for in the decoded text, and the decoder (forced on the input, or announced by a lying
        # signature) garbles it: the documentation promises nothing about what is then found
        versions = {1, 2}
    try:
        ver = int(a["ver"])
    except Exception:
        return "no version observed"
    has_text = body != "" or False
    if has_text and a["enc"] != "-":
        if ver not in versions:
            return "parsed as CIF %s, documented: CIF %s (prefer_cif2=%d, version comment %s, signature=%d, forced=%d)" % (
                ver, "/".join(map(str, sorted(versions))), prefer, magic_kind(text), sig, force)
    else:
        ver = ver if ver in (1, 2) else sorted(versions)[0]
    want_enc = encoding(ver if ver in versions else sorted(versions)[0])
    # compare what the names resolve to (a named default that is the system default anyway is not an observable difference)
    want_conv = a.get("sys") if want_enc == "~" else (a.get("dconv") if (not has_signature(enc, sig, text) or force) and want_enc == (
        ICU[enc] if dflt == "=" else dflt) and want_enc != "UTF-8" else want_enc)
    if a["conv"] != want_conv:
        return "input read through %s, documented: %s (version %s, signature=%d, forced=%d, default_encoding_name=%s)" % (
            a["conv"], want_conv, ver, sig, force, dflt)
    errs = [] if a.get("err", "-") == "-" else a["err"].split(",")
    wrong = "%d:1" % WRONG_ENCODING
    if has_text:
        if (ver == 2 and a["conv"] != "UTF-8") != (wrong in errs):
            return "CIF_WRONG_ENCODING %s although version %d was read through %s" % (
                "reported" if wrong in errs else "not reported", ver, a["conv"])
    if has_text and dec_ok and sig and text.startswith("\ufeff"):
        # two byte-order marks: only the very first character may be one; the second is a disallowed character wherever it stands
        need = 2 if ver == 1 else 1
        if errs.count("%d:1" % DISALLOWED_CHAR) < need:
            return "a second U+FEFF after the signature was accepted (CIF_DISALLOWED_CHAR reported %d times, expected >= %d)" % (
                errs.count("%d:1" % DISALLOWED_CHAR), need)
    elif has_text and dec_ok:
        if a.get("as%d" % ver) != "1":
            return "content differs from the same text read as CIF %d" % ver
        ref = [] if a.get("e%d" % ver, "-") == "-" else a["e%d" % ver].split(",")
        extra = []
        if wrong in errs:
            extra.append(wrong)
        if sig and (ver == 1 or text.startswith("\ufeff")):
            # the signature's byte-order mark is not a CIF 1.1 character; if the text starts with U+FEFF as well, that second
            # one is not the very first character and is disallowed under either version (the reference reading has only one)
            extra.append("%d:1" % DISALLOWED_CHAR)
        if sorted(errs) != sorted(ref + extra):
            return "errors %s differ from those of the same text read as CIF %d (%s) plus %s" % (
                a.get("err"), ver, a.get("e%d" % ver), extra or "nothing")
    return None


def agree(impl, model, req_=None):
    if not impl.startswith("dl "):
        return impl == model
    a, b = _kv(impl), _kv(model)
    if a.get("enc") != b.get("enc"):
        return False
    if b.get("enc") == "-":
        return True
    if a.get("nu8") != b.get("nu8"):
        return False
    if b.get("ver") != "?" and a.get("ver") != b.get("ver"):
        return False
    errs = [] if a.get("err", "-") == "-" else a["err"].split(",")
    if b.get("wrongenc") in ("0", "1") and (("%d:1" % WRONG_ENCODING) in errs) != (b["wrongenc"] == "1"):
        return False
    if b.get("bom104") == "1" and ("%d:1" % DISALLOWED_CHAR) not in errs:
        return False
    return True


def model_request(req_, impl):
    """the model is told what ICU does on this system (its converters and alias table are not modelled): whether the system
    default and the named default are UTF-8, and whether the converter that was opened decodes the file's bytes back to the text"""
    a = _kv(impl) if impl.startswith("dl ") else {}
    prefer, force, enc, sig, dflt, text = parse_req(req_)
    dec = 1 if decodes_correctly(a.get("conv", "UTF-8"), enc, sig, text) else 0
    return "%s sys8=%d named8=%d dec=%d" % (req_, 1 if a.get("sys", "UTF-8") == "UTF-8" else 0,
                                            1 if a.get("dconv") == "UTF-8" else 0, dec)


def finding_class(req_, impl, model, why):
    # no open finding.  Repaired: G3 (raw magic test ignored the byte after the magic code; /repo c96f901),
    # G4 (default_encoding_name ignored unless forced; /repo a4ae335)
    return None


def nontrivial(req_, impl):
    return True


def classify(req_, impl):
    prefer, force, enc, sig, dflt, text = parse_req(req_)
    pc = "neg" if prefer < 0 else ("zero" if prefer == 0 else ("low" if prefer < 20 else "high"))
    return "%s/%s/%s/sig%d/force%d" % (pc, magic_kind(text) if not magic_like(text) else "like", "wide" if enc in WIDE else enc, sig, force)


def shrink(req_):
    return iter(())
