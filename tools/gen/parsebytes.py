"""family `parsebytes` (C03, byte level): the REAL cif_parse() on byte sequences whose malformed parts surface as errors of
the CHARACTER SOURCE (ICU's to-Unicode callback -> CIF_INVALID_CHAR / CIF_UNMAPPED_CHAR) during a scanner buffer refill.

cif_parse decodes its input in 4096-byte blocks; each block is one refill of the scanner buffer.  The generator aligns a
LOOK-AHEAD point of the scanner (closing quote of a quoted string, closing delimiter of a text field or triple-quoted string
before a possible ':', the end of a whitespace-delimited value / data name / keyword, the inside of a comment, a whitespace
run) to the last byte of a block (+-2) and puts a malformed sequence (lone continuation byte, truncated multi-byte sequence,
0xFF, over-long form, encoded surrogate half; a surrogate half in UTF-16 input) at the start of the next block (+0..2), so
that the report arises INSIDE the look-ahead.  x policies (accept-all, die, k-th call answers v, code 102 answers v, negative).

No model (byte decoding is ICU's): the family is judged by its oracle alone, on the implementation's observation:
  * C03 callback contract as in family `parse`: line >= 1, the parse stops at the first non-zero answer and returns it, never
    fails without a report, die result = first code of the accept-all parse of the same bytes;
  * nothing already decoded is lost: the accept-all parse of the bytes reports, apart from the character-source reports,
    exactly what the accept-all parse of the same document with each malformed sequence replaced by the replacement
    character reports, and yields the same content."""
import os, re, sys
sys.path.insert(0, os.path.dirname(os.path.abspath(__file__)))
from common import rng
import parse as P

FAMILY = "parsebytes"
HARNESS = {"source": "x_parsebytes.c", "leak_clean": True}
RULE = ("documents with a scanner look-ahead point (9 kinds) aligned to a 4096-byte refill boundary -2..+2 and a malformed "
        "sequence (8 kinds, UTF-8 and UTF-16LE) 0..2 bytes behind it, CIF 2.0 and CIF 1.1, x policies; non-trivial = the "
        "character source reported an error; oracle (implementation only): callback contract (stop at / return the first "
        "non-zero answer, die = first accept-all code), accept-all parse equivalent to the parse of the repaired document")

BLOCK = 4096
BAD8 = [b"\x80", b"\xbf", b"\xc3", b"\xe4\xb8", b"\xff", b"\xc0\xaf", b"\xed\xa0\x80", b"\xf8\x88\x80\x80\x80", b"\xf4\x90\x80\x80"]
SOURCE_CODES = (102, 103)


def hb(b):
    return "".join("%04x" % x for x in b) if b else "-"


def filler(n, nl=b"\n"):
    """exactly n bytes of comment lines (n == 0 or n >= 2)"""
    out = b""
    while n > 0:
        k = min(n, 64)
        if n - k == 1:
            k -= 1
        out += b"#" + b"f" * (k - 2) + nl if k >= 2 else b""
        n -= k
    return out


TOKENS = {            # kind -> (text before the token, the token whose LAST byte is aligned, text after it)
    "sq": (b"_x ", b"'quoted value'", b" _y 1\n_z 2\n"),
    "dq": (b"_x ", b'"quoted value"', b" _y 1\n_z 2\n"),
    "tq": (b"_x ", b"'''triple\nquoted'''", b" _y 1\n_z 2\n"),
    "text": (b"_x", b"\n;text\nfield\n;", b" _y 1\n_z 2\n"),
    "bare": (b"_x ", b"barevalue", b" _y 1\n_z 2\n"),
    "name": (b"_x 0 ", b"_name.y", b" 1\n_z 2\n"),
    "comment": (b"_x 0 ", b"#comm", b"ent tail\n_y 1\n_z 2\n"),
    "ws": (b"_x 0", b"   ", b"  _y 1\n_z 2\n"),
    "key": (b"_x {", b"'key'", b":1 'k2':2} _y 1\n_z 2\n"),
    "loopval": (b"loop_ _l1 _l2 1 2 3 ", b"'four'", b" 5 6\n_y 1\n_z 2\n"),
}


def build(kind, dia, k, delta, bad, bad_off, utf16=False):
    """-> (bytes, repaired bytes) or None"""
    pre, tok, post = TOKENS[kind]
    if dia == 1 and kind in ("tq", "key"):
        return None
    head = (b"#\\#CIF_2.0\n" if dia == 2 else b"#\\#CIF_1.1\n") + b"data_blk\n"
    repl = "�" if dia == 2 else "*"
    if utf16:
        enc = lambda bs: bs.decode("ascii").encode("utf-16-le")          # noqa: E731
        unit = 2
        bom = b"\xff\xfe"
        badb = b"\x00\xd8" if bad % 2 == 0 else b"\x00\xdc"               # an unpaired surrogate half
        replb = repl.encode("utf-16-le")
    else:
        enc = lambda bs: bs                                                 # noqa: E731
        unit = 1
        bom = b""
        badb = BAD8[bad % len(BAD8)]
        replb = repl.encode("utf-8")
    target_end = BLOCK * k + delta * unit        # offset just behind the last byte of the token
    fixed = len(bom) + unit * (len(head) + len(pre) + len(tok))
    room = target_end - fixed
    if room < 0 or room % unit or (room // unit) == 1:
        return None
    body_head = bom + enc(head + filler(room // unit) + pre + tok)
    assert len(body_head) == target_end, (len(body_head), target_end)
    tail = enc(post)
    cut = bad_off * unit
    doc = body_head + tail[:cut] + badb + tail[cut:]
    alt = body_head + tail[:cut] + replb + tail[cut:]
    return doc, alt


def fields(impl):
    if not impl.startswith("pb rc="):
        return None
    m = re.match(r"pb rc=(-?\d+) n=(\d+) log=(\S+) cif=(.*?) aa=(\d+) arc=(-?\d+) alog=(\S+) acif=(.*?) xrc=(-?\d+) xlog=(\S+) xcif=(.*)$", impl)
    if not m:
        return None
    def lg(t):
        return [] if t in ("-", "~") else [tuple(int(y) for y in x.split(":")) for x in t.split(",")]
    return {"rc": int(m.group(1)), "n": int(m.group(2)), "log": lg(m.group(3)), "cif": m.group(4), "aa": int(m.group(5)),
            "arc": int(m.group(6)), "alog": lg(m.group(7)), "acif": m.group(8), "xrc": int(m.group(9)), "xlog": lg(m.group(10)),
            "xcif": re.sub(r" !LEAK\d*$", "", m.group(11))}


def collapse(dump):
    """ICU reports some malformed sequences byte by byte: runs of the replacement character count as one.  WHICH substitution
    character the character source writes is not fixed by the documentation (cif.h, CIF_INVALID_CHAR: "mapping the source
    character to a substitution character"); ciffile.c chooses U+FFFD or '*' by scanner->cif_version AT DECODING TIME, and the
    first 4096-byte block of an input whose version is still to be read from its magic code (e.g. UTF-16 with a signature and
    prefer_cif2 = 0) is decoded before the version is known — a malformed sequence there becomes '*' also in a CIF 2.0 document,
    later ones U+FFFD.  Both count as "the replacement character" here (the generated documents contain no other asterisk)."""
    return re.sub(r"(002a|fffd)+", "fffd", dump).rstrip()


def verdict(policy, log, rc, what):
    for code, line in log:
        if line < 1:
            return "%s: error callback invoked with line number %d (code %d)" % (what, line, code)
    ans = P.answers(policy, log)
    nz = [i for i, a in enumerate(ans) if a != 0]
    if nz:
        i = nz[0]
        if len(log) != i + 1:
            return "%s: the parse went on after the callback answered %d to its invocation %d (%d invocations in all)" % (what, ans[i], i, len(log))
        if ans[i] > 0 and rc != ans[i]:
            return "%s: the callback answered %d (first non-zero answer) but cif_parse returned %d" % (what, ans[i], rc)
        if ans[i] < 0 and rc not in (0, ans[i]):
            return "%s: the callback answered %d but cif_parse returned %d" % (what, ans[i], rc)
    else:
        if rc != 0 and rc not in P.RESOURCE and not log:
            return "%s: cif_parse failed with %d without reporting any error to the callback" % (what, rc)
        if rc < 0:
            return "%s: cif_parse returned the negative value %d" % (what, rc)
    return None


def oracle(req, impl):
    o = fields(impl)
    if o is None:
        return None if impl.startswith(("SAN:", "CRASH:", "TIMEOUT")) else "unreadable observation: " + impl[:80]
    t = req.split(" ")
    policy = t[2]
    why = verdict(policy, o["log"], o["rc"], "policy run") or verdict("a", o["alog"], o["arc"], "accept-all run")
    if why:
        return why
    if policy == "d" and o["rc"] != o["aa"]:
        return "die policy returned %d, the first code of the accept-all parse is %d" % (o["rc"], o["aa"])
    if t[4] != "~":
        rest = [x for x in o["alog"] if x[0] not in SOURCE_CODES]
        if rest != o["xlog"]:
            return ("accept-all parse of the malformed bytes reports %s besides the character-source errors, the repaired document "
                    "reports %s" % (rest[:6], o["xlog"][:6]))
        if o["arc"] != o["xrc"]:
            return "accept-all parse returned %d, the repaired document %d" % (o["arc"], o["xrc"])
        if collapse(o["acif"]) != collapse(o["xcif"]):
            return "content after accepting the character-source errors differs from the content of the repaired document"
    return None


def agree(impl, model, req=None):
    return True            # no model: byte decoding is ICU's


def nontrivial(req, impl):
    o = fields(impl)
    return bool(o and any(c in SOURCE_CODES for c, _ in o["alog"]))


def classify(req, impl):
    o = fields(impl)
    if o is None:
        return "abnormal"
    return "source-error" if any(c in SOURCE_CODES for c, _ in o["alog"]) else "no-source-error"


def finding_class(req, impl, model, why):
    """the one open finding: the callback answers -1 to a report of the CHARACTER SOURCE; the read function hands -1 to
    get_more_chars(), whose callers take it for CIF_EOF: the scanner sees an end of input and the parse goes on"""
    o = fields(impl)
    t = req.split(" ")
    if o and why and "went on after the callback answered -1" in why:
        ans = P.answers(t[2], o["log"])
        nz = [i for i, a in enumerate(ans) if a != 0]
        if nz and ans[nz[0]] == -1 and o["log"][nz[0]][0] in SOURCE_CODES:
            return "callback answer -1 to a character-source report is taken for CIF_EOF"
    return None


def shrink(req):
    return []


POLICIES = ["a", "d", "d", "r0:7777", "r0:-1", "r1:7777", "c102:7777", "c102:-2", "c102:3"]


def generate(seed, tier):
    r = rng(seed, FAMILY)
    kinds = list(TOKENS)
    combos = []
    for kind in kinds:
        for dia in (2, 1):
            for delta in (-2, -1, 0, 1, 2):
                for bad_off in (0, 1, 2):
                    combos.append((kind, dia, delta, bad_off))
    r.shuffle(combos)
    n = 260 if tier == "quick" else len(combos) * 6
    i = 0
    emitted = 0
    while emitted < n:
        kind, dia, delta, bad_off = combos[i % len(combos)]
        i += 1
        # the aligned point with delta = 0 is the one the look-ahead crosses a refill at: always include it densely
        if tier == "quick" and delta != 0 and r.random() < 0.5:
            continue
        k = r.choice([1, 1, 1, 2])
        bad = r.randrange(len(BAD8))
        utf16 = r.random() < 0.12
        built = build(kind, dia, k, delta, bad, bad_off, utf16)
        if built is None:
            continue
        doc, alt = built
        pol = r.choice(POLICIES)
        yield "parsebytes 0 %s %s %s" % (pol, hb(doc), hb(alt))
        emitted += 1
    # the malformed sequence elsewhere (not near a boundary), and a clean document across a boundary
    for kind in kinds:
        built = build(kind, 2, 1, 0, 0, 0)
        if built:
            doc, alt = built
            yield "parsebytes 0 a %s %s" % (hb(alt), hb(alt))
            yield "parsebytes 0 d %s %s" % (hb(alt), hb(alt))
