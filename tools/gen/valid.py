"""family `valid` (C09): validity of data names, block/frame codes and table keys — the file-static predicates of utils.c and the
result codes of creation through the public API — against the model and against the CIF rules restated here"""
import itertools, os, sys
sys.path.insert(0, os.path.dirname(os.path.abspath(__file__)))
from common import hexs, unhexs, rng

FAMILY = "valid"
HARNESS = {"source": "x_valid.c", "exclude_objs": ["utils"], "leak_clean": True}
RULE = ("exhaustive: every BMP unit (U+0001..U+FFFF) as the only / second character of a code / name; every class of disallowed "
        "unit (C0, SP, DEL, C1 edges, U+FDD0/FDEF, U+FFFE/FFFF, lone lead / trail surrogates, reversed pairs, pairs encoding "
        "U+xFFFE/U+xFFFF) and its allowed neighbours at first / middle / last position of names and codes; lengths 2042..2049 "
        "code points (BMP and supplementary) for names and codes; all strings of length <= 3 over a 12-unit alphabet; the same "
        "boundary set through the public API (create block / frame / scalar item / loop / packet / packet item / table key); "
        "non-trivial = non-empty; oracle: accepted iff the CIF rules hold, refused with the documented INVALID_* code")

BAD = [[1], [8], [9], [10], [13], [0x1f], [0x20], [0x7f], [0x80], [0x85], [0x9f], [0xfdd0], [0xfdef], [0xfffe], [0xffff],
       [0xd800], [0xdbff], [0xdc00], [0xdfff], [0xdc00, 0xd800], [0xd83f, 0xdffe], [0xd83f, 0xdfff], [0xdbff, 0xdfff], [0xdbff, 0xdffe],
       [0xd87f, 0xdffe], [0xd800, 0xd800, 0xdc00], [0xd800, 0x61]]
GOOD = [[0x21], [0x7e], [0xa0], [0xfdcf], [0xfdf0], [0xfffd], [0xd7ff], [0xe000], [0xd800, 0xdc00], [0xd83f, 0xdffd], [0xd83e, 0xdffe],
        [0xd83f, 0xdbfe + 0x400], [0xdbff, 0xdffd], [0x5f], [0xfeff], [0x3b1]]
SMALL = [0x5f, 0x61, 0x20, 0x7f, 0x9f, 0xa0, 0xd800, 0xdc00, 0xdffe, 0xd83f, 0xfffe, 0x9]

INVALID_BLOCKCODE, INVALID_FRAMECODE, INVALID_ITEMNAME, INVALID_INDEX = 12, 22, 42, 73


def boundary():
    out = []
    for x in BAD + GOOD:
        for pre in ([], [0x5f]):
            out.append(pre + x)                      # first (after the underscore for names)
            out.append(pre + [0x61] + x + [0x62])    # middle
            out.append(pre + [0x61, 0x62] + x)       # last
    for n in range(2042, 2050):                      # n code points in all
        out.append([0x61] * n)
        out.append([0x5f] + [0x61] * (n - 1))
        out.append([0x5f] + [0xd800, 0xdc00] * (n - 1))
        out.append([0xd835, 0xdc00] * n)
        out.append([0x5f] + [0x61] * (n - 2) + [0xd800])      # lone lead at the very end
    out += [[], [0x5f], [0x5f, 0x5f], [0x61], [0x5f, 0x61]]
    return out


def generate(seed, tier):
    r = rng(seed, FAMILY)
    for s in boundary():
        yield "valid fn " + hexs(s)
    for s in boundary():
        yield "valid api " + hexs(s)
    for n in range(0, 4):
        for s in itertools.product(SMALL, repeat=n):
            yield "valid fn " + hexs(list(s))
    step = 1 if tier == "thorough" else 1
    for u in range(1, 0x10000, step):
        yield "valid fn " + hexs([0x5f, u])
    for _ in range(400 if tier == "quick" else 6000):
        n = r.randrange(1, 8)
        s = [r.choice(SMALL + [x for g in GOOD + BAD for x in g]) if r.random() < 0.7 else r.randrange(1, 0x10000) for _ in range(n)]
        if r.random() < 0.6:
            s = [0x5f] + s
        yield ("valid api " if r.random() < 0.3 else "valid fn ") + hexs(s)


def decode(units):
    """code points; None for an unpaired surrogate"""
    cps, i, n = [], 0, len(units)
    while i < n:
        u = units[i]
        if 0xd800 <= u <= 0xdbff and i + 1 < n and 0xdc00 <= units[i + 1] <= 0xdfff:
            cps.append(0x10000 + ((u - 0xd800) << 10) + (units[i + 1] - 0xdc00))
            i += 2
        elif 0xd800 <= u <= 0xdfff:
            cps.append(None)
            i += 1
        else:
            cps.append(u)
            i += 1
    return cps


def cif_char_ok(cp, allow_ws):
    if cp is None:
        return False
    if cp <= 0x20:
        return allow_ws and cp in (9, 10, 13, 0x20)
    if 0x7f <= cp <= 0x9f or 0xfdd0 <= cp <= 0xfdef or (cp & 0xfffe) == 0xfffe:
        return False
    return True


def spec_name(units, for_item):
    cps = decode(units)
    if for_item:
        if len(cps) < 2 or cps[0] != 0x5f:
            return False
    elif len(cps) < 1:
        return False
    if len(cps) > (2048 if for_item else 2043):
        return False
    return all(cif_char_ok(c, False) for c in cps)


def spec_key(units):
    return all(cif_char_ok(c, True) for c in decode(units))


def fields(impl):
    t = impl.split()
    if not t or t[0] != "va" or len(t) < 3:
        return None
    return {k: int(v) for k, v in (x.split("=", 1) for x in t[1:])}


def oracle(req, impl):
    f = fields(impl)
    if f is None:
        return "executor could not set up" if impl.startswith("va ") else None
    _, mode, h = req.split()
    units = unhexs(h)
    vi, vc = spec_name(units, True), spec_name(units, False)
    if mode == "fn":
        if bool(f["name"]) != vi:
            return "cif_is_valid_name(item) = %d, CIF rules: %s" % (f["name"], vi)
        if bool(f["code"]) != vc:
            return "cif_is_valid_name(code) = %d, CIF rules: %s" % (f["code"], vc)
        return None
    want = {"block": 0 if vc else INVALID_BLOCKCODE, "frame": 0 if vc else INVALID_FRAMECODE,
            "item": 0 if vi else INVALID_ITEMNAME, "loop": 0 if vi else INVALID_ITEMNAME, "pkt": 0 if vi else INVALID_ITEMNAME,
            "pktset": 0 if vi else INVALID_ITEMNAME, "tkey": 0 if spec_key(units) else INVALID_INDEX}
    for k, v in want.items():
        if f.get(k) != v:
            return "%s creation returned %s, documented %d" % (k, f.get(k), v)
    return None


def nontrivial(req, impl):
    return req.split()[2] != "-"


def classify(req, impl):
    f = fields(impl)
    if f is None:
        return "no-answer"
    if "name" in f:
        return "fn name=%d code=%d" % (f["name"], f["code"])
    return "api item=%d block=%d tkey=%d" % (f["item"], f["block"], f["tkey"])


def finding_class(req, impl, model, why):
    return None
