"""family `walk` (C14): cif_walk over small CIFs built through the API x handler programs.

request:  walk [lq<mask>] <cif tokens (harness/cifio.h)> prog <k>:<resp> ...
          lq<mask>: queries through the LOOP handle inside the callbacks (bit 1: own packet iteration in loop_start / loop_end;
          bit 2: category and names through the loop handle saved at loop_start, inside packet_start / item / packet_end)
impl:     wk rc=<rc> n=<calls> log= <events> ord= <listing>          (harness/x_walk.c)
model:    wk rc=<rc> n=<calls> log= <events>                         (run on the request + ` ord <listing>`)

The oracle below restates C14 over the implementation's log alone, written independently of the model: a recursive
descent over the *description* of the CIF, driven by the log, that accepts any sibling order and either behaviour
where the property is silent (DESIGN.md C14 reading note)."""
import os, sys, unicodedata
sys.path.insert(0, os.path.dirname(os.path.abspath(__file__)))
from common import hexs, unhexs, rng
import cifdesc

FAMILY = "walk"
HARNESS = {"source": "x_walk.c", "leak_clean": True}
RULE = ("small CIFs (<= 3 blocks x <= 2 frames (+ nested) x <= 3 loops x <= 3 packets x <= 3 items, packet-less loops "
        "included) x every handler program deviating from CONTINUE at <= 1 invocation (quick) / <= 2 invocations "
        "(thorough) with responses {-1,-2,-3,7,1} and a spread of other return values (1, 2, 33, 36, 43, 104, 134, 100000, -4, -5) at "
        "every position, plus random programs with 3..6 deviations; a share of the requests queries the loop handle inside the "
        "callbacks (own packet iteration at loop_start / loop_end, names / category during the packet callbacks); non-trivial = the "
        "program deviates at an invocation that is actually reached; oracle (implementation only): C14 restated over "
        "the log, any sibling order accepted")

CONT, SKIP_CUR, SKIP_SIB, END = 0, -1, -2, -3
RESPS = [-1, -2, -3, 7, 1]
# a spread of non-navigation return values: result codes that collide with values the walker uses internally (1 =
# CIF_FINISHED, 36 = CIF_EMPTY_LOOP, 33 = CIF_NOSUCH_LOOP, 43/104/134 ordinary codes), a large positive value, and
# the values adjacent to the CIF_TRAVERSE_* constants (-4, -5 below END; 1, 2 above CONTINUE)
CODES = [1, 2, 33, 36, 43, 104, 134, 100000, -4, -5]
CIF_FINISHED = 1


# ------------------------------------------------------------------------------------------------ descriptions

def norm_name(units):
    s = "".join(chr(u) for u in units)
    try:
        s = s.encode("utf-16", "surrogatepass").decode("utf-16")
    except Exception:
        pass
    s = unicodedata.normalize("NFC", unicodedata.normalize("NFD", s).casefold())
    return hexs(s)


def take_value(toks, i):
    """returns (value text, next index)"""
    t = toks[i]
    if t in ("[", "{"):
        close = "]" if t == "[" else "}"
        out = [t]
        i += 1
        while toks[i] != close:
            if t == "{":
                out.append(toks[i])       # K:…
                i += 1
            v, i = take_value(toks, i)
            out.append(v)
        out.append(close)
        return " ".join(out), i + 1
    return t, i + 1


class Node:
    def __init__(self, kind, ident, groups=None):
        self.kind, self.ident, self.groups = kind, ident, groups if groups is not None else []

    def count(self):
        if self.kind == "it":
            return 1
        return 2 + sum(ch.count() for g in self.groups for ch in g)


def parse_desc(toks):
    """cif description -> Node('c'); raises on malformed input"""
    i = 0
    blocks = []

    def body(i):
        frames, loops = [], []
        while toks[i] != "E":
            t = toks[i]
            if t.startswith("F:"):
                fr, lo, j = body(i + 1)
                frames.append(Node("f", t[2:], [fr, lo]))
                i = j
            elif t.startswith("L:"):
                cat, n = t[2:].rsplit(":", 1)
                n = int(n)
                names = [norm_name(unhexs(x)) for x in toks[i + 1:i + 1 + n]]
                i += 1 + n
                pkts = []
                while toks[i] == "P":
                    i += 1
                    vals = []
                    for _ in range(n):
                        v, i = take_value(toks, i)
                        vals.append(v)
                    items = [Node("it", (nm, v)) for nm, v in zip(names, vals)]
                    pkts.append(Node("p", tuple(sorted((nm, v) for nm, v in zip(names, vals))), [items]))
                assert toks[i] == "Z"
                i += 1
                if cat == "-" and not pkts:
                    continue                       # a scalar loop without values creates nothing
                loops.append(Node("l", (cat, tuple(sorted(names))), [pkts]))
            else:
                raise ValueError("bad token " + t)
        return frames, loops, i + 1

    while i < len(toks):
        assert toks[i].startswith("B:")
        fr, lo, j = body(i + 1)
        blocks.append(Node("b", toks[i][2:], [fr, lo]))
        i = j
    return Node("c", None, [blocks])


QUERIES = {}            # event index -> the answers of the container handle inside that callback (filled by parse_log)
LOOPQ = {}              # event index -> the answers of the loop handle inside that callback (`i:` / `l:` token), when asked for


def parse_log(toks):
    """event tokens -> list of (tag, ident)"""
    QUERIES.clear()
    LOOPQ.clear()
    evs = []
    i = 0
    while i < len(toks):
        t = toks[i]
        if t in ("@cs", "@ce"):
            evs.append((t[1:], None))
            i += 1
        elif t in ("@bs", "@be", "@fs", "@fe"):
            evs.append((t[1:], toks[i + 1]))
            if i + 2 >= len(toks) or not toks[i + 2].startswith("q:"):
                raise ValueError("container callback without the answers of its handle at %d" % i)
            QUERIES[len(evs) - 1] = toks[i + 2]
            i += 3
        elif t in ("@ls", "@le"):
            n = int(toks[i + 2])
            names = [norm_name(unhexs(x)) for x in toks[i + 3:i + 3 + n]]
            evs.append((t[1:], (toks[i + 1], tuple(sorted(names)))))
            i += 3 + n
            if i < len(toks) and toks[i].startswith("i:"):
                LOOPQ[len(evs) - 1] = toks[i]
                i += 1
        elif t in ("@ps", "@pe"):
            m = int(toks[i + 1])
            i += 2
            items = []
            for _ in range(m):
                nm = norm_name(unhexs(toks[i]))
                v, i = take_value(toks, i + 1)
                items.append((nm, v))
            evs.append((t[1:], tuple(sorted(items))))
            if i < len(toks) and toks[i].startswith("l:"):
                LOOPQ[len(evs) - 1] = toks[i]
                i += 1
        elif t == "@it":
            nm = norm_name(unhexs(toks[i + 1]))
            v, i = take_value(toks, i + 2)
            evs.append(("it", (nm, v)))
            if i < len(toks) and toks[i].startswith("l:"):
                LOOPQ[len(evs) - 1] = toks[i]
                i += 1
        else:
            raise ValueError("bad log token %r" % t)
    return evs


def split_impl(impl):
    """-> (rc, n, log tokens, listing tokens) or None"""
    t = impl.split(" ")
    if len(t) < 4 or t[0] != "wk" or not t[1].startswith("rc=") or not t[2].startswith("n=") or t[3] != "log=":
        return None
    rest = t[4:]
    if "ord=" not in rest:
        return None
    k = rest.index("ord=")
    return int(t[1][3:]), int(t[2][2:]), rest[:k], rest[k + 1:]


def req_mask(req):
    t = req.split(" ")
    return int(t[1][2:]) if len(t) > 1 and t[1].startswith("lq") else 0


def split_req(req):
    t = req.split(" ")
    if len(t) > 1 and t[1].startswith("lq"):
        del t[1]
    k = t.index("prog")
    prog = {}
    for e in t[k + 1:]:
        a, b = e.split(":")
        prog[int(a)] = int(b)
    return t[1:k], prog


# ------------------------------------------------------------------------------------------------ oracle

class Stop(Exception):
    def __init__(self, code):
        self.code = code


class Silent(Exception):
    pass


class Bad(Exception):
    pass


START = {"c": "cs", "b": "bs", "f": "fs", "l": "ls", "p": "ps", "it": "it"}
ENDT = {"c": "ce", "b": "be", "f": "fe", "l": "le", "p": "pe"}


class Checker:
    def __init__(self, evs, prog, mask=0):
        self.evs, self.prog, self.k, self.mask = evs, prog, 0, mask
        self.loop = None        # the loop whose packets are being walked

    def peek(self):
        return self.evs[self.k] if self.k < len(self.evs) else None

    def take(self):
        r = self.prog.get(self.k, CONT)
        self.k += 1
        if r == END:
            raise Stop(0)
        if r not in (CONT, SKIP_CUR, SKIP_SIB):
            # any other return value - a result code, positive or not - ends the walk at once and is cif_walk's return
            # value, unchanged; no further handler is called
            raise Stop(r)
        return r

    def group(self, nodes):
        """visit the children of one group in whatever order the log shows; 'sib' = a child asked to skip its siblings"""
        todo = list(nodes)
        while todo:
            ev = self.peek()
            hit = None
            for nd in todo:
                if ev is not None and ev == (START[nd.kind], nd.ident):
                    hit = nd
                    break
            if hit is None:
                raise Bad("invocation %d: expected the start of one of %d not-yet-visited %s element(s), log has %r"
                          % (self.k, len(todo), todo[0].kind, ev))
            todo.remove(hit)
            if self.visit(hit) == "sib":
                return "sib"
        return "go"

    def check_handle(self, nd, k):
        """'Handles passed to callbacks are valid for queries during the callback': what the container handle of callback `k`
        answered, against the CIF that was built (independent of the implementation's enumeration orders)"""
        q = QUERIES.get(k)
        if q is None:
            raise Bad("invocation %d: no answers of the container handle logged" % k)
        f = q.split(":")
        if len(f) != 6:
            raise Bad("invocation %d: unreadable handle answers %r" % (k, q))
        _, ab, nf, nl, cf, il = f
        what = "data block" if nd.kind == "b" else "save frame"
        want_ab = 0 if nd.kind == "b" else 6            # CIF_OK / CIF_ARGUMENT_ERROR
        if int(ab) != want_ab:
            raise Bad("invocation %d: cif_container_assert_block on the handle of %s %s answers %s, expected %d"
                      % (k, what, nd.ident, ab, want_ab))
        frames, loops = nd.groups
        if int(nf) != len(frames) or int(nl) != len(loops):
            raise Bad("invocation %d: the handle of %s %s lists %s frames / %s loops, the CIF has %d / %d"
                      % (k, what, nd.ident, nf, nl, len(frames), len(loops)))
        if frames:
            rc, _, code = cf.partition(",")
            if rc != "0" or code not in [fr.ident for fr in frames]:
                raise Bad("invocation %d: cif_container_get_frame through the handle of %s %s: %s (a frame of it expected)"
                          % (k, what, nd.ident, cf))
        elif cf != "-":
            raise Bad("invocation %d: frame look-up %r on a container without frames" % (k, cf))
        if loops and il != "-":
            name, rc, cat = il.split(",")
            nm = norm_name(unhexs(name))
            owner = [l for l in loops if nm in l.ident[1]]
            if rc != "0" or len(owner) != 1 or owner[0].ident[0] != cat:
                raise Bad("invocation %d: cif_container_get_item_loop(%s) through the handle of %s %s: %s, the CIF says %s"
                          % (k, name, what, nd.ident, il, [l.ident[0] for l in owner]))
        elif loops or il != "-":
            raise Bad("invocation %d: item look-up %r does not fit the loops of %s %s" % (k, il, what, nd.ident))

    def check_loop_handle(self, nd, k):
        """queries through the LOOP handle (request flag lq): bit 1 - in loop_start / loop_end the handler makes its own pass over
        the packets through the handle (open, count, close): must succeed with the loop's packets (CIF_EMPTY_LOOP for a packet-less
        loop); bit 2 - in packet_start / item / packet_end the loop handle saved at loop_start is asked for category and names
        while the walker's iterator is open: must answer with those of the loop being walked"""
        q = LOOPQ.get(k)
        if nd.kind == "l":
            if not (self.mask & 1):
                return
            npk = len(nd.groups[0])
            want = "i:0:%d:1:0" % npk if npk else "i:36:0:0:-1"
            if q != want:
                raise Bad("invocation %d: own packet iteration through the loop handle of %r answers %r, expected %r"
                          % (k, nd.ident, q, want))
        else:
            if not (self.mask & 2):
                return
            if q is None or self.loop is None:
                raise Bad("invocation %d: no answers of the loop handle logged" % k)
            f = q.split(":")
            if len(f) != 4:
                raise Bad("invocation %d: the loop handle saved at loop_start answers %r" % (k, q))
            names = tuple(sorted(norm_name(unhexs(x)) for x in f[3].split(",") if x))
            if (f[1], names) != self.loop.ident or int(f[2]) != len(names):
                raise Bad("invocation %d: the loop handle saved at loop_start answers %r, the loop being walked is %r"
                          % (k, q, self.loop.ident))

    def visit(self, nd):
        if nd.kind in ("b", "f"):
            self.check_handle(nd, self.k)
        if nd.kind == "l":
            self.loop = nd
        if nd.kind in ("l", "p", "it"):
            self.check_loop_handle(nd, self.k)
        r = self.take()
        if nd.kind == "it":
            return "sib" if r == SKIP_SIB else "go"
        sib = (r == SKIP_SIB)
        optional_end = (r != CONT)
        if r == CONT:
            if nd.kind == "l" and not nd.groups[0]:
                raise Silent()                      # packet-less loop entered: the property makes no claim
            for g in nd.groups:
                if self.group(g) == "sib":
                    optional_end = True             # silent: end callback of the parent after SKIP_SIBLINGS
                    # frames: the loops are not siblings of the frames, so the next group is still due
        endev = (ENDT[nd.kind], nd.ident)
        if self.peek() == endev:
            if nd.kind in ("b", "f"):
                self.check_handle(nd, self.k)
            if nd.kind in ("l", "p"):
                self.check_loop_handle(nd, self.k)
            r2 = self.take()
            if r2 == SKIP_SIB:
                sib = True
        elif not optional_end:
            raise Bad("invocation %d: expected %r, log has %r" % (self.k, endev, self.peek()))
        return "sib" if sib else "go"


def oracle(req, impl):
    if impl.startswith("wk consts") or req == "walk consts":
        return None if impl == "wk consts 0 -1 -2 -3 0 1 36" else "navigation / result constants changed: " + impl
    sp = split_impl(impl)
    if sp is None:
        if impl.startswith("wk ") or impl == "bad-op":
            return "unreadable observation / executor could not build the CIF: " + impl[:80]
        return None             # crash / timeout lines are judged by check.py
    rc, n, logt, _ = sp
    toks, prog = split_req(req)
    try:
        cif = parse_desc(toks)
        evs = parse_log(logt)
    except Exception as e:          # noqa
        return "unreadable request/log: %r" % (e,)
    if n != len(evs):
        return "callback count %d differs from the number of logged events %d" % (n, len(evs))
    ck = Checker(evs, prog, req_mask(req))
    expect_rc = 0
    try:
        if ck.peek() != ("cs", None):
            return "first callback is not cif_start"
        ck.visit(cif)
    except Stop as s:
        expect_rc = s.code
    except Silent:
        return None
    except Bad as b:
        return str(b)
    if ck.k != len(evs):
        return "invocation %d: callback %r delivered although it is suppressed / the walk is over" % (ck.k, evs[ck.k])
    if rc != expect_rc:
        return "cif_walk returned %d, expected %d" % (rc, expect_rc)
    return None


# ------------------------------------------------------------------------------------------------ harness hooks

def model_request(req, impl):
    sp = split_impl(impl)
    if sp is None:
        return req
    return req + " ord " + " ".join(sp[3])


def agree(impl, model, req=None):
    return impl.split(" ord=")[0].rstrip() == model.rstrip()


def reached(req, impl):
    sp = split_impl(impl)
    if sp is None:
        return False
    _, prog = split_req(req)
    return any(k < sp[1] for k in prog)


def nontrivial(req, impl):
    return reached(req, impl)


def classify(req, impl):
    if req == "walk consts":
        return "consts"
    _, prog = split_req(req)
    sp = split_impl(impl)
    lab = "dev%d" % min(len(prog), 3)
    if sp and sp[0] == 36:
        lab += "/empty-loop"
    elif sp and sp[0] > 0:
        lab += "/error"
    return lab


def finding_class(req, impl, model, why):
    return None         # no open finding (F32, CIF_FINISHED from packet-level callbacks, was fixed by d1128e2)


def shrink(req):
    toks, prog = split_req(req)
    m = req_mask(req)
    pre = "walk " + ("lq%d " % m if m else "")
    items = sorted(prog.items())
    # drop one program entry
    for i in range(len(items)):
        rest = items[:i] + items[i + 1:]
        yield pre + " ".join(toks) + " prog" + "".join(" %d:%d" % e for e in rest)


# ------------------------------------------------------------------------------------------------ generator

CODES_B = ["b1", "B2", "é3"]
CODES_F = ["f1", "F2", "s3", "Fé"]
NAMES = ["_a", "_B", "_c", "_item.x", "_Item.Y", "_été", "_q", "_Z9", "_d", "_e"]


def simple_value(r):
    return cifdesc.rand_value(r, depth=1, width=2)


def gen_loop(r, used, scalar, max_items, max_pkts, allow_empty):
    n = r.randint(1, max_items)
    names = []
    for _ in range(n):
        names.append(cifdesc.rand_name(r, used, NAMES))
    if scalar:
        toks = ["L:-:%d" % n] + [hexs(x) for x in names] + ["P"]
        for _ in names:
            toks += simple_value(r)
        return toks + ["Z"]
    cat = r.choice(["~", hexs("cat"), hexs("C2")])
    toks = ["L:%s:%d" % (cat, n)] + [hexs(x) for x in names]
    npk = 0 if (allow_empty and r.random() < 0.25) else r.randint(1, max_pkts)
    for _ in range(npk):
        toks.append("P")
        for _ in names:
            toks += simple_value(r)
    return toks + ["Z"]


def gen_body(r, depth, fcodes, size, allow_empty):
    used = set()
    toks = []
    if depth > 0:
        for _ in range(r.randint(0, size["frames"])):
            if not fcodes:
                break
            c = fcodes.pop()
            toks += ["F:" + hexs(c)] + gen_body(r, depth - 1 if r.random() < 0.7 else 0, fcodes, size, allow_empty) + ["E"]
    have_scalar = False
    cats = set()
    for _ in range(r.randint(0, size["loops"])):
        scalar = (not have_scalar) and r.random() < 0.4
        have_scalar |= scalar
        lt = gen_loop(r, used, scalar, size["items"], size["pkts"], allow_empty)
        toks += lt
    return toks


def gen_cif(r, size, allow_empty):
    fcodes = list(CODES_F)
    r.shuffle(fcodes)
    bcodes = list(CODES_B)
    r.shuffle(bcodes)
    toks = []
    for _ in range(r.randint(1, size["blocks"])):
        toks += ["B:" + hexs(bcodes.pop())] + gen_body(r, 2, fcodes, size, allow_empty) + ["E"]
    return toks


def ncallbacks(toks):
    return parse_desc(toks).count()


CORE = ("B:" + hexs("b1") + " F:" + hexs("f1") + " L:~:2 " + hexs("_a") + " " + hexs("_B") + " P C1:" + hexs("x") + " U P N M0:" + hexs("1.5") +
        " Z E F:" + hexs("f2") + " L:-:1 " + hexs("_s") + " P [ U C1:" + hexs("q") + " ] Z E L:" + hexs("cat") + ":1 " + hexs("_c") + " P C0:" + hexs("v") +
        " P U Z L:-:2 " + hexs("_d") + " " + hexs("_e") + " P N C1:- Z E B:" + hexs("B2") + " L:~:1 " + hexs("_a") + " P U Z E").split(" ")


def generate(seed, tier):
    r = rng(seed, FAMILY)
    quick = (tier == "quick")
    yield "walk consts"
    big = {"blocks": 3, "frames": 2, "loops": 3, "pkts": 3, "items": 3}
    mid = {"blocks": 2, "frames": 2, "loops": 2, "pkts": 2, "items": 2}
    small = {"blocks": 2, "frames": 1, "loops": 2, "pkts": 2, "items": 2}
    # 1. exhaustive single deviations
    cifs = [CORE]
    for i in range(5 if quick else 40):
        cifs.append(gen_cif(r, big if i % 2 == 0 else mid, allow_empty=(i % 2 == 1)))
    for ci, toks in enumerate(cifs):
        n = ncallbacks(toks)
        base = "walk " + " ".join(toks) + " prog"
        yield base
        # queries through the loop handle inside the callbacks (own packet iteration in loop_start / loop_end; category and names
        # through the saved loop handle in packet / item callbacks): all continue, then every single deviation on the first CIFs
        for m in (1, 2, 3):
            yield "walk lq%d " % m + " ".join(toks) + " prog"
        if ci < (3 if quick else 12):
            for k in range(n):
                for resp in (-1, -2, -3, 7):
                    yield "walk lq3 " + " ".join(toks) + " prog %d:%d" % (k, resp)
        for k in range(n):
            for resp in RESPS:
                yield base + " %d:%d" % (k, resp)
            # the spread of other return values: all of them at every position of the first CIF (every handler kind),
            # two per position (rotating) on the others
            for resp in (CODES if ci == 0 else [CODES[(k + ci) % len(CODES)], CODES[(k + ci + 5) % len(CODES)]]):
                yield base + " %d:%d" % (k, resp)
    # 2. exhaustive double deviations (all pairs of invocations x all pairs of responses) on smaller CIFs
    pairs_cifs = [gen_cif(r, small, allow_empty=(i % 4 == 3)) for i in range(1 if quick else 10)]
    if not quick:
        pairs_cifs.append(CORE)
    for toks in pairs_cifs:
        n = ncallbacks(toks)
        if quick and n > 26:
            n = 26
        base = "walk " + " ".join(toks) + " prog"
        for k1 in range(n):
            for k2 in range(k1 + 1, n):
                for r1 in (-1, -2):            # a second deviation only matters after a non-terminal first one
                    for r2 in RESPS:
                        yield base + " %d:%d %d:%d" % (k1, r1, k2, r2)
    # 3. random programs beyond
    for i in range(300 if quick else 6000):
        toks = gen_cif(r, big if r.random() < 0.5 else mid, allow_empty=(r.random() < 0.25))
        n = ncallbacks(toks)
        prog = {}
        for _ in range(r.randint(3, 6)):
            prog[r.randrange(n)] = r.choice([-1, -1, -2, -2, -3, 7] + CODES)
        m = r.choice([0, 0, 1, 2, 3, 3])
        yield "walk " + ("lq%d " % m if m else "") + " ".join(toks) + " prog" + "".join(" %d:%d" % e for e in sorted(prog.items()))
