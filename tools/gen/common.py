"""helpers shared by the request generators (tools/gen/<family>.py)"""
import random


def hexs(units):
    """list of code units (ints) or a str -> wire format"""
    if isinstance(units, str):
        units = [ord(c) for c in units]
        # expand supplementary characters to surrogate pairs
        out = []
        for u in units:
            if u > 0xFFFF:
                u -= 0x10000
                out += [0xD800 + (u >> 10), 0xDC00 + (u & 0x3FF)]
            else:
                out.append(u)
        units = out
    if not units:
        return "-"
    return "".join("%04x" % u for u in units)


def unhexs(s):
    if s == "-":
        return []
    if s == "~":
        return None
    return [int(s[i:i + 4], 16) for i in range(0, len(s), 4)]


def rng(seed, family):
    return random.Random("%s/%s" % (family, seed))
