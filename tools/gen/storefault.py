"""family `storefault` (property C17, store part): store histories in which ONE allocation of SQLite's (or ICU's) allocator fails
during chosen API calls (harness/alloc.h), each faulted call being repeated right afterwards.

Request = the `store` language plus `fault <cls> <k>` in front of an op (cls 1 = SQLite, 2 = ICU; the k-th allocation of that
class made during the op fails).  The executor marks the step of such an op with ` !fault<fired>`.
Oracle (implementation only): everything the `store` oracle demands — in particular a call that returns an error leaves every dump
and every autocommit flag as they were — so a fault must either be absorbed (the call succeeds) or give an error code and no
change; the repeated call is compared with the model, whose state after a faulted call is `Store.stepFaultAt` (Model/StoreFault.lean):
it must return what the call returns when nothing had failed.
The model cannot know whether the k-th allocation exists: `model_request` tells it, per faulted op, what the implementation reported.
"""
import os, sys
sys.path.insert(0, os.path.dirname(os.path.abspath(__file__)))
from common import rng
import store as S

FAMILY = "storefault"
# the fault steps of Model/StoreFault.lean follow the DOCUMENTED failure paths; the open findings F31s-* are exactly the inputs on which the
# real code (SQLite's whole-transaction rollback on NOMEM, statements left open) deviates from them, so there the model is not compared
COMPARE_ON_KNOWN = False
HARNESS = {"source": "x_storefault.c", "leak_clean": False, "extra_sources": ["x_store_body.h", "cifio.h"]}
RULE = ("store histories (<= 30 ops) with 1-4 faulted calls each (k-th SQLite / ICU allocation of the call fails, k = 1..16), every faulted call "
        "repeated; non-trivial = a fault fired and the call returned an error; oracle = the store oracle (error => nothing changed, autocommit "
        "restored) + model comparison of the repeated call")

PUSHERS = {"mkblock", "getblock", "mkframe", "getframe", "mkloop", "catloop", "itemloop", "itopen", "cif+"}
NOFAULT = {"cif+", "cif-", "code", "isblock", "getcat", "itclose", "itabort"}


def op_spans(toks):
    spans, pos = [], 0
    while pos < len(toks):
        end = S._op_end(["x"] + toks, pos + 1) - 1
        spans.append((pos, end))
        pos = end
    return spans


def generate(seed, tier):
    r = rng(seed, FAMILY)
    n = 500 if tier == "quick" else 6000
    for _ in range(n):
        toks = S.History(r, 30).toks
        spans = op_spans(toks)
        cand = [i for i, (a, b) in enumerate(spans) if toks[a] not in NOFAULT and (toks[a] not in PUSHERS or i == len(spans) - 1)]
        r.shuffle(cand)
        chosen = set(cand[:r.randint(1, 4)])
        out = []
        for i, (a, b) in enumerate(spans):
            if i in chosen:
                cls = 2 if r.random() < 0.15 else 1
                out += ["fault", str(cls), str(r.choice([1, 1, 2, 2, 3, 4, 5, 6, 8, 10, 12, 16]))] + toks[a:b] + toks[a:b]
            else:
                out += toks[a:b]
        yield "storefault " + " ".join(out)


def strip_faults(req):
    """the request without fault markers, and the set of op indices that carried one"""
    t = req.split(" ")
    out, marked, i, nop = [t[0]], {}, 1, 0
    while i < len(t):
        if t[i] == "fault":
            marked[nop] = (t[i + 1], t[i + 2])
            i += 3
            continue
        if t[i] in S.OPWORDS:
            nop += 1
        out.append(t[i])
        i += 1
    # nop counted op words seen so far; marked keys are indices of the op that FOLLOWS the marker
    return " ".join(out), marked


def model_request(req, impl):
    steps = S.parse_answer(impl)
    t = req.split(" ")
    out, i, nop = [t[0]], 1, 0
    while i < len(t):
        if t[i] == "fault":
            st = steps[nop] if steps and nop < len(steps) else None
            if st is None:
                out.append("mark:0")
            else:
                fired = 1 if "!fault1" in st["out"] else 0
                if fired and st["rc"] not in (0, None):
                    out.append("faulted:%d" % st["rc"])
                else:
                    out.append("mark:%d" % fired)
            i += 3
            continue
        if t[i] in S.OPWORDS:
            nop += 1
        out.append(t[i])
        i += 1
    return " ".join(out)


def _plain(impl):
    return impl.replace(" !fault0", "").replace(" !fault1", "")


def oracle(req, impl):
    plain, marked = strip_faults(req)
    v = S.violations(plain.replace("storefault", "store", 1), _plain(impl))
    if v:
        unknown = [x for x in v if x[0] is None]
        return (unknown[0] if unknown else v[0])[1]
    steps = S.parse_answer(_plain(impl))
    ops = S.parse_request(plain.replace("storefault", "store", 1))
    for k, st in enumerate(steps or []):
        if k < len(ops) and ops[k]["op"] == "loops" and st["rc"] == 0 and any(x.endswith(",!") for x in st["out"]):
            return "op %d (loops rc=0): cif_loop_get_names failed on a loop that cif_container_get_all_loops had just returned" % k
    return None


def finding_class(req, impl, model, why):
    """fault-specific classes: the op whose faulted call (or whose repetition right after a faulted call) broke the property, and how"""
    if not why:
        return None
    import re
    if "did not return normally" in why:
        m = re.search(r"(SAN:[^@\s]*|CRASH:\S+|TIMEOUT)", why)
        return "fault/crash/" + (m.group(1) if m else "?")
    plain, marked = strip_faults(req)
    m = re.match(r"op (\d+) \((\w+) rc=", why)
    if not m:
        return None
    k = int(m.group(1))
    opname = "itnext" if m.group(2) == "itnextp" else m.group(2)      # next with a caller-supplied packet: the same call
    kind = "autocommit" if "autocommit" in why else ("changed" if "changed" in why else ("names-fail" if "get_names failed" in why else "other"))
    # a call that is not an iterator call, made while an iterator's transaction is open on the CIF, after which that transaction is
    # gone: SQLite's own whole-transaction rollback on SQLITE_NOMEM — the same root cause whatever the call (class in-iterator-tx)
    steps = S.parse_answer(_plain(impl))
    if steps and 0 < k < len(steps) and opname not in ("itnext", "itupd", "itrem"):
        before, after = steps[k - 1]["ac"], steps[k]["ac"]
        if any(b == "0" and a == "1" for b, a in zip(before, after)):
            opname = "in-iterator-tx"
    if k in marked:
        return "fault/%s/cls%s/%s" % (opname, marked[k][0], kind)
    if k - 1 in marked:
        return "fault-retry/%s/cls%s/%s" % (opname, marked[k - 1][0], kind)
    # not fault related: the classes of the plain `store` oracle (F30)
    c = S._chosen(plain.replace("storefault", "store", 1), _plain(impl))
    return c[0] if c else None


def nontrivial(req, impl):
    steps = S.parse_answer(impl)
    return bool(steps) and any("!fault1" in s["out"] and s["rc"] not in (0, None) for s in steps)


def classify(req, impl):
    steps = S.parse_answer(impl)
    if not steps:
        return "unparsed"
    fired = sum(1 for s in steps if "!fault1" in s["out"])
    failed = sum(1 for s in steps if "!fault1" in s["out"] and s["rc"] not in (0, None))
    return "fired=%d failed=%d" % (min(fired, 4), min(failed, 4))
