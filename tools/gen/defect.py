"""family `defect` (C12): one planted defect of a documented class in an otherwise well-formed host document.

For each class of the documented recovery table (src/parser.c, `@page error_recovery`) x every position at which the class
can be planted in a host (first item, last item, in a save frame, before a loop, in a loop header, in a loop body, in a list,
in a table, at the end of the input) x small hosts (and random hosts), the request carries
    | D <class> <code> <lo> <hi> X <dump>  [ALT <dump>]
`code` = the documented code of the class, `[lo, hi]` = lines from the start of the defect to the end of the token that follows
it, `dump` = the canonical dump of the content the DOCUMENTED recovery action prescribes (computed here from the host, never
from the model); ALT = a second admissible reading where the table is not specific.
Oracle (implementation only): accept-all parse returns 0; the FIRST callback has that code at a line within [lo, hi]; the
content is the prescribed one.  A host without a planted defect must not trigger the callback at all."""
import copy, os, sys
sys.path.insert(0, os.path.dirname(os.path.abspath(__file__)))
from common import rng
import parsedoc as pd
from parsedoc import make_request, split_request, split_impl, agree, hx   # noqa: F401

FAMILY = "defect"
HARNESS = {"source": "x_parse.c", "exclude_objs": ["parser"], "leak_clean": True}
RULE = ("classes of the documented recovery table (missing value, unexpected value, duplicate / invalid data name scalar and in "
        "a loop header, partial packet, empty loop, empty loop header, data before the first block header, unexpected / missing "
        "delimiter, missing / null / unquoted / text-block key, missing value in a table, missing whitespace, reserved words, "
        "missing end-quote, unclosed text / triple-quoted string, over-length line, disallowed / invalid character, invalid "
        "bare value, duplicate / invalid block and frame codes, disallowed / unterminated / nested / unexpected-terminator "
        "save frames) x every position of 8 hand-written and 40 random hosts, CIF 2.0 and CIF 1.1; plus every host without a "
        "defect; non-trivial = a defect was planted; oracle (implementation only): first callback = documented code at a line "
        "in [defect, following token], content = documented recovery applied to the host, defect-free host = no callback.  "
        "Group gW: hosts whose save frames NEST (max_frame_depth -1; the container-level classes planted at every depth); PAIRS of "
        "single-report defects in different elements of one container (note P: exactly the two codes, in document order, each on "
        "its lines, content = both recoveries) and the pair that meets in one loop (dup header name + short last packet, note M); "
        "SEVERAL defective places in one token / comment (note M: every place reported once, in order); the ABORT-ON-ERROR handler "
        "(policy d, note DIE: return value = code, exactly one callback, content = what stands in front of the defect)")

S = lambda t, p="bare": ("str", t, p)      # noqa: E731
# unquoted words that begin like a block / frame header without being one (the scanner tracks a keyword in progress)
KW_PREFIX_WORDS = ["ab", "d", "da", "dat", "data", "s", "sa", "sav", "save", "D", "Da", "SAV", "Save", "l", "loop", "st", "stop", "g", "globa", "x"]

HOSTS2 = [
    [("a", [("item", "_x", S("1")), ("item", "_y", S("two words", "sq")), ("item", "_z", S("line1\nline2", "text"))])],
    [("a", [("item", "_x", S("1")), ("frame", "f", [("item", "_p", S("q", "dq")), ("item", "_r", ("unk",))]), ("item", "_y", ("na",))]),
     ("b", [("item", "_x", S("2"))])],
    [("a", [("item", "_Pre.Item", S("0")), ("loop", ["_Name", "_l2", "_L3x"], [[S("1"), S("2"), S("3")], [S("4"), S("five", "sq"), S("t\nu", "text")]]), ("item", "_x", S("1"))])],
    [("a", [("item", "_v", ("list", [S("1"), S("b c", "dq"), ("list", [S("2")]), ("table", [("k", "sq", S("3"))])])),
            ("item", "_t", ("table", [("k1", "sq", S("1")), ("K2", "dq", ("list", [S("x"), S("y")])), ("k 3", "tsq", S("z", "sq"))])),
            ("item", "_w", S("end"))])],
    [("a", [("frame", "f", [("loop", ["_m", "_n"], [[S("1"), S("2")]]), ("item", "_o", S("3"))]), ("frame", "g", [("item", "_o", S("4"))])]),
     ("B2", [("loop", ["_q"], [[S("a")], [S("b")], [("list", [S("c")])]])])],
    [("only", [("item", "_single", S("v"))])],
    [("a", [("item", "_x", S(";semi")), ("item", "_u", S("tq\n'' x", "tdq")), ("loop", ["_a", "_b"], [[S("?", "sq"), ("unk",)], [S(".", "dq"), ("na",)]])])],
    [("a", []), ("b", [("item", "_x", S("1"))])],
]
# save frames inside save frames (parsed with max_frame_depth = -1)
NESTED2 = [
    [("a", [("item", "_x", S("1")),
            ("frame", "f", [("item", "_p", S("q", "dq")),
                            ("frame", "g", [("item", "_m", S("1")), ("loop", ["_n1", "_n2"], [[S("1"), S("2")], [S("3"), S("4")]]), ("item", "_o", ("unk",))]),
                            ("item", "_r", ("list", [S("1"), S("2")]))]),
            ("item", "_y", ("na",))]),
     ("b", [("item", "_x", S("2"))])],
    [("a", [("frame", "f", [("frame", "g", [("frame", "h", [("item", "_deep", S("v")), ("item", "_t", ("table", [("k", "sq", S("1"))]))]),
                                            ("item", "_g1", S("1"))]),
                            ("frame", "g2", [("loop", ["_a", "_b"], [[S("1"), S("2")]])])])])],
]
NESTED1 = [
    [("a", [("frame", "f", [("item", "_p", S("q", "dq")), ("frame", "g", [("item", "_m", S("1")), ("item", "_o", S("it's", "sq"))])]),
            ("item", "_y", S("2"))])],
]
HOSTS1 = [
    [("a", [("item", "_x", S("1")), ("item", "_y", S("two words", "sq")), ("item", "_z", S("line1\nline2", "text"))])],
    [("a", [("item", "_x", S("1")), ("frame", "f", [("item", "_p", S("q", "dq")), ("item", "_r", ("unk",))]), ("item", "_y", ("na",))]),
     ("b", [("item", "_x", S("a[1]"))])],
    [("a", [("loop", ["_l1", "_l2", "_l3"], [[S("1"), S("2"), S("3")], [S("4"), S("it's", "sq"), S("t\nu", "text")]]), ("item", "_x", S("1"))])],
]


# ---------------------------------------------------------------------------------------------------------------------
# addressing containers of a document

def containers(doc):
    """paths (block index, frame indices…) of every element list"""
    def walk(elems, path):
        yield path
        for i, e in enumerate(elems):
            if e[0] == "frame":
                yield from walk(e[2], path + (i,))
    for bi, b in enumerate(doc):
        yield from walk(b[1], (bi,))


def get_elems(doc, path):
    elems = doc[path[0]][1]
    for i in path[1:]:
        elems = elems[i][2]
    return elems


def with_elems(doc, path, new):
    d = copy.deepcopy(doc)
    if len(path) == 1:
        d[path[0]] = (d[path[0]][0], new) + tuple(d[path[0]][2:])
        return d
    parent = get_elems(d, path[:-1])
    e = parent[path[-1]]
    parent[path[-1]] = (e[0], e[1], new) + tuple(e[3:])
    return d


def names_of(elems):
    out = []
    for e in elems:
        if e[0] == "item":
            out.append(e[1])
        elif e[0] == "loop":
            out += list(e[1])
    return out


def variant(name, r):
    """another spelling of the same (normalised) name"""
    sw = lambda c: (c.upper() if "a" <= c <= "z" else (c.lower() if "A" <= c <= "Z" else c))   # ASCII only (the model folds ASCII case)
    v = "".join(sw(c) if r.random() < 0.6 else c for c in name)
    return v if v != name else "".join(sw(c) for c in name)


def value_paths(v, path=()):
    """paths of the lists / tables inside a value"""
    if v[0] == "list":
        yield path, v
        for i, e in enumerate(v[1]):
            yield from value_paths(e, path + (i,))
    elif v[0] == "table":
        yield path, v
        for i, (_k, _kp, e) in enumerate(v[1]):
            yield from value_paths(e, path + (i,))


def edit_value(v, path, fn):
    if not path:
        return fn(v)
    i = path[0]
    if v[0] == "list":
        items = list(v[1])
        items[i] = edit_value(items[i], path[1:], fn)
        return ("list", items) + tuple(v[2:])
    ents = list(v[1])
    k, kp, e = ents[i]
    ents[i] = (k, kp, edit_value(e, path[1:], fn))
    return ("table", ents) + tuple(v[2:])


# ---------------------------------------------------------------------------------------------------------------------
# the classes: each generator yields (label, planted document, documented result document or content, code, options, alt)

def truncate_before(doc, path, k):
    """the document as far as it has been stored when the parser stands in front of element `k` of the container at `path`:
    the blocks before, the enclosing containers with the elements before the one that is open, the first `k` elements"""
    def cut(elems, p):
        if not p:
            return list(elems[:k])
        e = elems[p[0]]
        return list(elems[:p[0]]) + [("frame", e[1], cut(e[2], p[1:]))]
    d = copy.deepcopy(list(doc[:path[0] + 1]))
    d[-1] = (d[-1][0], cut(d[-1][1], path[1:]))
    return d


def plant_container_level(doc, dia, r):
    for path in containers(doc):
        elems = get_elems(doc, path)
        in_frame = len(path) > 1
        where = "frame" if in_frame else "block"
        present = names_of(elems)
        for k in range(len(elems) + 1):
            prev = elems[k - 1] if k > 0 else None
            after_loop = prev is not None and prev[0] == "loop"
            tag = "%s/%s" % (where, "first" if k == 0 else ("last" if k == len(elems) else "mid"))
            DIE = {"die": truncate_before(doc, path, k)}     # abort-on-error handler: nothing behind the defect is stored
            # unexpected value: ignore it (a value behind a loop would be read as part of the loop body instead)
            if not after_loop:
                strays = ["stray", "'q s'", "\n;tx\n;"] + (["[1 2]", "{'k':1}", '"""a\nb"""'] if dia == 2 else [])
                for st in strays:
                    yield ("unexpected_value/" + tag, with_elems(doc, path, elems[:k] + [("raw", st, True)] + elems[k:]), doc, 134, dict(DIE), None)
                if dia == 2:
                    for st in ("]", "}"):
                        yield ("unexpected_delim/" + tag, with_elems(doc, path, elems[:k] + [("raw", st, True)] + elems[k:]), doc, 135, dict(DIE), None)
                if dia == 2:
                    # a quoted string / text field directly followed by a colon outside a table: missing whitespace is assumed
                    for st in ("'k':1", "\n;tk\n;:1", '"""k""":'):
                        yield ("missing_space_key/" + tag, with_elems(doc, path, elems[:k] + [("raw", st, True)] + elems[k:]), doc, 105, {}, None)
                if not in_frame:
                    yield ("unexpected_term/" + tag, with_elems(doc, path, elems[:k] + [("raw", "save_", True)] + elems[k:]), doc, 124, dict(DIE), None)
            # reserved words are dropped wherever they stand (behind a loop they are not part of a packet either)
            for w in ("stop_", "GLOBAL_", "data_"):
                if w == "data_" and (in_frame or k < len(elems)):
                    continue            # a dropped `data_` is followed by what it was followed by; keep it simple: block end only
                yield ("reserved_word/" + tag, with_elems(doc, path, elems[:k] + [("raw", w, True)] + elems[k:]), doc, 132, {}, None)
            # duplicate data name: parse and drop the item
            if present and k > 0:
                earlier = names_of(elems[:k])
                if earlier:
                    dupname = variant(r.choice(earlier), r)
                    vals = [S("dup"), S("d d", "sq")] + ([("list", [S("1")])] if dia == 2 else [])
                    for v in vals:
                        yield ("dup_name/" + tag, with_elems(doc, path, elems[:k] + [("item", ("mark", dupname), v)] + elems[k:]), doc, 41, dict(DIE), None)
            # invalid data name: reported, parsed and dropped like a duplicate
            yield ("invalid_name/" + tag, with_elems(doc, path, elems[:k] + [("item", ("mark", "_"), S("v"))] + elems[k:]), doc, 42, dict(DIE), None)
            # empty loop header: `loop_` not followed by a data name — ignore it
            nxt = elems[k] if k < len(elems) else None
            if nxt is None or nxt[0] in ("frame", "loop"):
                yield ("null_loop/" + tag, with_elems(doc, path, elems[:k] + [("raw", "loop_", True)] + elems[k:]), doc, 37, dict(DIE), None)
                # empty loop: header without values — accepted (the data model has no such loop: it may be pruned)
                fresh = "_fresh.%d" % k
                planted = with_elems(doc, path, elems[:k] + [("loop", [fresh, ("mark", "_fresh.b")], [])] + elems[k:])
                kept = with_elems(doc, path, elems[:k] + [("loop", [fresh, "_fresh.b"], [])] + elems[k:])
                yield ("empty_loop/" + tag, planted, doc, 36, {}, kept)
        for k, e in enumerate(elems):
            tag = "%s/%s" % (where, "first" if k == 0 else ("last" if k == len(elems) - 1 else "mid"))
            if e[0] == "item":
                # a loop whose ONLY header name repeats this item (any spelling): the name is dropped, the loop is left without
                # names, its values are dropped, and the parse goes on behind it
                yield ("dup_header_all/" + tag, with_elems(doc, path, elems[:k + 1] + [("loop", [("mark", variant(e[1], r))], [[S("10")], [S("20")], [S("30")]])]
                                                            + elems[k + 1:]), doc, 41, {}, None)
                # missing value: a synthetic unknown value
                yield ("missing_value/" + tag, with_elems(doc, path, elems[:k] + [("noval", e[1])] + elems[k + 1:]),
                       with_elems(doc, path, elems[:k] + [("item", e[1], ("unk",))] + elems[k + 1:]), 133,
                       {"die": truncate_before(doc, path, k)}, None)
                # missing whitespace after a quoted string: assume it (the rest is then an unexpected value: ignored)
                if dia == 2:            # (in CIF 1.1 a quote that is not followed by whitespace is part of the value)
                    yield ("missing_space/" + tag, with_elems(doc, path, elems[:k] + [("item", e[1], ("rawv", "'ab'cd"))] + elems[k + 1:]),
                           with_elems(doc, path, elems[:k] + [("item", e[1], S("ab", "sq"))] + elems[k + 1:]), 105, {}, None)
                    # … and between an unquoted value and an opening bracket / brace; the words that are proper prefixes of the
                    # data_ / save_ keywords (any case) are ordinary values there
                    w = KW_PREFIX_WORDS[(k + len(tag)) % len(KW_PREFIX_WORDS)]
                    for opener in ("[1 2]", "{'k':1}"):
                        yield ("missing_space_bracket/" + tag, with_elems(doc, path, elems[:k] + [("item", e[1], ("rawv", w + opener))] + elems[k + 1:]),
                               with_elems(doc, path, elems[:k] + [("item", e[1], S(w))] + elems[k + 1:]), 105, {}, None)
                # missing end-quote: assume it at the end of the line
                yield ("missing_endquote/" + tag, with_elems(doc, path, elems[:k] + [("item", e[1], ("rawv", "'no end \n"))] + elems[k + 1:]),
                       with_elems(doc, path, elems[:k] + [("item", e[1], S("no end ", "sq"))] + elems[k + 1:]), 106, {}, None)
                # invalid bare value: accept it as it is (the library leaves it marked quoted)
                yield ("invalid_bare/" + tag, with_elems(doc, path, elems[:k] + [("item", e[1], ("rawv", "$abc"))] + elems[k + 1:]),
                       with_elems(doc, path, elems[:k] + [("item", e[1], S("$abc", "sq"))] + elems[k + 1:]), 74, {},
                       with_elems(doc, path, elems[:k] + [("item", e[1], S("$abc", "bare"))] + elems[k + 1:]))
                # disallowed character: accept it
                bad = "\x01" if dia == 2 else "é"
                yield ("disallowed_char/" + tag, with_elems(doc, path, elems[:k] + [("item", e[1], ("rawv", "'a" + bad + "b'"))] + elems[k + 1:]),
                       with_elems(doc, path, elems[:k] + [("item", e[1], S("a" + bad + "b", "sq"))] + elems[k + 1:]), 104, {}, None)
                # unpaired surrogate: replacement character
                if dia == 2:            # (in CIF 1.1 every unit above U+007E is first of all a disallowed character)
                    yield ("invalid_char/" + tag, with_elems(doc, path, elems[:k] + [("item", e[1], ("rawv", "'a\ud800b'"))] + elems[k + 1:]),
                           with_elems(doc, path, elems[:k] + [("item", e[1], S("a�b", "sq"))] + elems[k + 1:]), 102, {}, None)
                if dia == 2:
                    # an unpaired lead surrogate inside a DATA NAME: replaced (the item is stored under the repaired name)
                    yield ("invalid_char_name/" + tag, with_elems(doc, path, elems[:k] + [("item", ("mark", "_zq\ud800" + "w%d" % k), S("1"))] + elems[k:]),
                           with_elems(doc, path, elems[:k] + [("item", "_zq\ufffd" + "w%d" % k, S("1"))] + elems[k:]), 102, {}, None)
                    # SEVERAL defective places in one token: each reported, in order, with its own code
                    yield ("multi_in_token/" + tag, with_elems(doc, path, elems[:k] + [("item", e[1], ("rawv", "'a\x01b\udc00c\ud800d'"))] + elems[k + 1:]),
                           with_elems(doc, path, elems[:k] + [("item", e[1], S("a\x01b\ufffdc\ufffdd", "sq"))] + elems[k + 1:]), 104,
                           {"codes": [104, 102, 102]}, None)
                if dia == 2:
                    # … in a text field, on two of its lines; in a whitespace-delimited value (lead surrogate in the middle)
                    yield ("multi_in_text/" + tag, with_elems(doc, path, elems[:k] + [("item", e[1], ("rawv", "\n;a\x01b\nc\udc00d\ud800e\n;"))] + elems[k + 1:]),
                           with_elems(doc, path, elems[:k] + [("item", e[1], S("a\x01b\nc\ufffdd\ufffde", "text"))] + elems[k + 1:]), 104,
                           {"codes": [104, 102, 102]}, None)
                    yield ("multi_in_bare/" + tag, with_elems(doc, path, elems[:k] + [("item", e[1], ("rawv", "ab\ud800cd\x01e"))] + elems[k + 1:]),
                           with_elems(doc, path, elems[:k] + [("item", e[1], S("ab\ufffdcd\x01e"))] + elems[k + 1:]), 102,
                           {"codes": [102, 104]}, None)
                # a defective unit inside a COMMENT: reported, the comment is skipped as usual
                cbad = "\x01" if dia == 2 else "\x7f"
                yield ("defect_in_comment/" + tag, with_elems(doc, path, elems[:k] + [("raw", "#c" + cbad + "d", True)] + elems[k:]), doc, 104,
                       {"codes": [104] if dia == 2 else [104, 104], "lines_only": True}, None)
                if dia == 2:
                    yield ("defects_in_comment/" + tag, with_elems(doc, path, elems[:k] + [("raw", "#c\x01d\udc00e\ud800f", True)] + elems[k:]), doc, 104,
                           {"codes": [104, 102, 102], "lines_only": True}, None)
                # over-length line: accepted as it is (2049 characters)
                long_ = "x" * (2049 - 1)
                yield ("overlength/" + tag, with_elems(doc, path, elems[:k] + [("item", e[1], ("rawv", "\n#" + long_ + "\nv"))] + elems[k + 1:]),
                       with_elems(doc, path, elems[:k] + [("item", e[1], S("v"))] + elems[k + 1:]), 108, {"lo_plus": 1}, None)
                if dia == 2 and e[2][0] in ("list", "table"):
                    # unterminated list / table: assume the delimiter where its absence is noticed
                    opened = (e[2][0], e[2][1], False)
                    yield ("missing_delim/" + tag, with_elems(doc, path, elems[:k] + [("item", e[1], ("mark", opened))] + elems[k + 1:]), doc, 136,
                           {"hi_after_value": True, "die": truncate_before(doc, path, k)}, None)   # reported while the value is parsed
            if e[0] == "loop":
                names, packets = e[1], e[2]
                scalars = [n for n in names_of(elems[:k]) if n not in names]
                # duplicate / invalid name in the header: the name and its values are dropped
                for pos in range(1, len(names) + 1):
                    for label, code, newname in (("dup_header", 41, variant(names[pos - 1], r)), ("invalid_header", 42, "_")) + \
                            ((("dup_header_scalar", 41, variant(scalars[0], r)),) if scalars else ()):
                        hdr = names[:pos] + [("mark", newname)] + names[pos:]
                        pk = [p[:pos] + [S("dropped", "sq")] + p[pos:] for p in packets]
                        yield ("%s/%s/col%d" % (label, tag, pos), with_elems(doc, path, elems[:k] + [("loop", hdr, pk)] + elems[k + 1:]), doc, code,
                               {"die": truncate_before(doc, path, k)}, None)     # the report is made while the header is read: no loop yet
                # truncated final packet: filled out with unknown values
                if len(names) > 1 and packets:
                    for keep in range(1, len(names)):
                        last = packets[-1]
                        planted = packets[:-1] + [last[:keep] + [("skip",)] * (len(names) - keep)]
                        result = packets[:-1] + [last[:keep] + [("unk",)] * (len(names) - keep)]
                        yield ("partial_packet/%s/keep%d" % (tag, keep), with_elems(doc, path, elems[:k] + [("loop", names, planted)] + elems[k + 1:]),
                               with_elems(doc, path, elems[:k] + [("loop", names, result)] + elems[k + 1:]), 53, {"mark_last": True}, None)
                # a repeated header name AND a truncated final packet in the same loop (parse_loop_packets counts columns with the
                # full header, drops the values of the dropped column and pads the retained columns): two reports, 41 then 53
                if packets and len(names) >= 1:
                    for pos in range(1, len(names) + 1):
                        width = len(names) + 1
                        hdr = names[:pos] + [("mark", variant(names[pos - 1], r))] + names[pos:]
                        full = [p[:pos] + [S("dropped", "sq")] + p[pos:] for p in packets]
                        for keep in sorted(set([1, pos, min(pos + 1, width - 1), width - 1])):
                            if not (1 <= keep < width):
                                continue
                            planted = full[:-1] + [full[-1][:keep] + [("skip",)] * (width - keep)]
                            padded = full[-1][:keep] + [("unk",)] * (width - keep)
                            result = packets[:-1] + [padded[:pos] + padded[pos + 1:]]
                            yield ("dup_header_partial/%s/col%d/keep%d" % (tag, pos, keep),
                                   with_elems(doc, path, elems[:k] + [("loop", hdr, planted)] + elems[k + 1:]),
                                   with_elems(doc, path, elems[:k] + [("loop", names, result)] + elems[k + 1:]), 41,
                                   {"codes": [41, 53], "span_all": True}, None)
                # stray closing delimiter in the body: ignored
                if dia == 2 and packets:
                    for st in ("]", "}"):
                        pk = [list(p) for p in packets]
                        pk[0] = pk[0][:1] + [("rawv", st)] + pk[0][1:]
                        yield ("unexpected_delim/%s/loopbody" % tag, with_elems(doc, path, elems[:k] + [("loop", names, pk)] + elems[k + 1:]), doc, 135, {}, None)
                    pk = [list(p) for p in packets]
                    pk[-1] = pk[-1] + [("rawv", "stop_")]
                    yield ("reserved_word/%s/loopbody" % tag, with_elems(doc, path, elems[:k] + [("loop", names, pk)] + elems[k + 1:]), doc, 132, {}, None)
            if e[0] == "item" and dia == 2:
                v = e[2]
                for vp, sub in value_paths(v):
                    def put(newsub, result_sub, label, code, opts=None, alt_sub=None):
                        planted = edit_value(v, vp, lambda _v: newsub)
                        result = edit_value(v, vp, lambda _v: result_sub)
                        alt = None if alt_sub is None else with_elems(doc, path, elems[:k] + [("item", e[1], edit_value(v, vp, lambda _v: alt_sub))] + elems[k + 1:])
                        return ("%s/%s/depth%d" % (label, tag, len(vp)), with_elems(doc, path, elems[:k] + [("item", e[1], planted)] + elems[k + 1:]),
                                with_elems(doc, path, elems[:k] + [("item", e[1], result)] + elems[k + 1:]), code, opts or {}, alt)
                    if sub[0] == "list":
                        items = list(sub[1])
                        for i in range(len(items) + 1):
                            yield put(("list", items[:i] + [("rawv", "stop_")] + items[i:]), ("list", items), "reserved_word_in_list", 132)
                            yield put(("list", items[:i] + [("rawv", "'ab'cd")] + items[i:]), ("list", items[:i] + [S("ab", "sq"), S("cd")] + items[i:]),
                                      "missing_space_in_list", 105)
                            w = KW_PREFIX_WORDS[(i + k) % len(KW_PREFIX_WORDS)]
                            yield put(("list", items[:i] + [("rawv", w + "[1]")] + items[i:]), ("list", items[:i] + [S(w), ("list", [S("1")])] + items[i:]),
                                      "missing_space_bracket_in_list", 105)
                            yield put(("list", items[:i] + [("rawv", w + "{'j':2}")] + items[i:]),
                                      ("list", items[:i] + [S(w), ("table", [("j", "sq", S("2"))])] + items[i:]), "missing_space_brace_in_list", 105)
                            yield put(("list", items[:i] + [("rawv", "'k':1")] + items[i:]), ("list", items[:i] + [S("k", "sq"), S(":1")] + items[i:]),
                                      "missing_space_key_in_list", 105)
                            yield put(("list", items[:i] + [("rawv", "$v")] + items[i:]), ("list", items[:i] + [S("$v", "sq")] + items[i:]), "invalid_bare_in_list", 74,
                                      None, ("list", items[:i] + [S("$v")] + items[i:]))
                    if sub[0] == "table":
                        ents = list(sub[1])
                        for i in range(len(ents) + 1):
                            for st, lab in ((S("stray"), "bare"), (S("q v", "sq"), "quoted"), (("list", [S("1")]), "list")):
                                yield put(("table", ents[:i] + [("", "none", st)] + ents[i:]), ("table", ents), "missing_key_" + lab, 137)
                            yield put(("table", ents[:i] + [("", "null", S("nv"))] + ents[i:]), ("table", ents), "null_key", 140)
                            yield put(("table", ents[:i] + [("ukey%d" % i, "bare", S("uv"))] + ents[i:]), ("table", ents[:i] + [("ukey%d" % i, "sq", S("uv"))] + ents[i:]),
                                      "unquoted_key", 138)
                            yield put(("table", ents[:i] + [("tkey%d" % i, "text", S("tv"))] + ents[i:]), ("table", ents[:i] + [("tkey%d" % i, "sq", S("tv"))] + ents[i:]),
                                      "text_key", 139)
                            yield put(("table", ents[:i] + [("mkey%d" % i, "sq", ("none",))] + ents[i:]), ("table", ents[:i] + [("mkey%d" % i, "sq", ("unk",))] + ents[i:]),
                                      "missing_value_in_table", 133, {"mark_key": "'mkey%d':" % i})


def plant_document_level(doc, dia, r):
    # data before the first block header: parsed into an anonymous block
    for pre_elems, tag in (([("item", ("mark", "_early"), S("1"))], "item"), ([("raw", "early_value", True)], "value"),
                           ([("loop", [("mark", "_e1"), "_e2"], [[S("1"), S("2")]])], "loop")):
        if tag == "value":
            result = [("", [])] + doc
        else:
            clean = [("item", "_early", S("1"))] if tag == "item" else [("loop", ["_e1", "_e2"], [[S("1"), S("2")]])]
            result = [("", clean)] + doc
        yield ("no_block_header/" + tag, [(None, pre_elems)] + doc, result, 113, {"first_token": True}, None)
    # duplicate block code: reopen the block
    for bi, b in enumerate(doc):
        extra = [("item", "_reopened.%d" % bi, S("r"))]
        planted = doc + [(variant(b[0], r), extra, True)]
        result = copy.deepcopy(doc)
        result[bi] = (b[0], list(b[1]) + extra)
        yield ("dup_block/%d" % bi, planted, result, 11, {}, None)
    # invalid block code (too long): use it anyway
    longcode = "c" * 2044
    yield ("invalid_block/last", doc + [(longcode, [("item", "_x", S("1"))], True)], doc + [(longcode, [("item", "_x", S("1"))])], 12, {}, None)
    for path in containers(doc):
        if len(path) != 1:
            continue
        elems = get_elems(doc, path)
        fcodes = [e[1] for e in elems if e[0] == "frame"]
        for k in range(len(elems) + 1):
            prev = elems[k - 1] if k > 0 else None
            tag = "first" if k == 0 else ("last" if k == len(elems) else "mid")
            fr = [("item", "_in.frame", S("1"))]
            # save frames disabled: accept the frame
            yield ("frame_not_allowed/" + tag, with_elems(doc, path, elems[:k] + [("frame", "nf", fr, True, True)] + elems[k:]),
                   with_elems(doc, path, elems[:k] + [("frame", "nf", fr)] + elems[k:]), 122, {"mfd": 0, "only_if_no_frames": True}, None)
            # invalid frame code
            lc = "f" * 2044
            yield ("invalid_frame/" + tag, with_elems(doc, path, elems[:k] + [("frame", lc, fr, True, True)] + elems[k:]),
                   with_elems(doc, path, elems[:k] + [("frame", lc, fr)] + elems[k:]), 22, {}, None)
            # unterminated frame: at the end of the block (next is `data_` or the end of the input)
            if k == len(elems):
                last_block = path[0] == len(doc) - 1
                yield ("eof_in_frame/" + tag if last_block else "no_frame_term/" + tag,
                       with_elems(doc, path, elems[:k] + [("frame", "uf", fr, False)]), with_elems(doc, path, elems[:k] + [("frame", "uf", fr)]),
                       126 if last_block else 123, {"mark_after": True}, None)
            # a frame header inside a frame (nesting disabled): assume the terminator of the first
            if prev is not None and prev[0] == "frame" and k < len(elems) + 1:
                inner = ("frame", "inner", fr, True, True)
                planted = elems[:k - 1] + [("frame", prev[1], list(prev[2]) + [inner])] + elems[k:]
                # document order: prev's content, then `save_inner … save_`, then prev's own terminator (an unexpected one)
                pass
            # duplicate frame code: reopen the frame
            for fc in fcodes:
                idx = [i for i, e in enumerate(elems) if e[0] == "frame" and e[1] == fc][0]
                if idx >= k:
                    continue
                extra = [("item", "_reopened.f", S("r"))]
                fv = variant(fc, r)
                planted = elems[:k] + [("frame", fv, extra, True, True)] + elems[k:]
                merged = list(elems)
                merged[idx] = ("frame", fc, list(elems[idx][2]) + extra)
                yield ("dup_frame/" + tag, with_elems(doc, path, planted), with_elems(doc, path, merged), 21, {}, None)
    # a frame that is not terminated before the next frame header (nesting disabled by default)
    for path in containers(doc):
        if len(path) != 1:
            continue
        elems = get_elems(doc, path)
        for k, e in enumerate(elems):
            if e[0] == "frame" and k + 1 < len(elems) and elems[k + 1][0] == "frame":
                planted = elems[:k] + [("frame", e[1], e[2], False)] + [("frame", elems[k + 1][1], elems[k + 1][2], True, True)] + elems[k + 2:]
                yield ("no_frame_term/nested", with_elems(doc, path, planted), doc, 123, {}, None)
    # unclosed text field / triple-quoted string at the end of the input: the rest of the input is the value
    last_path = [p for p in containers(doc) if len(p) == 1][-1]
    elems = get_elems(doc, last_path)
    for raw, txt, tag in (("\n;unclosed text\nmore\n", "unclosed text\nmore\n", "text"),) + \
            ((("'''unclosed\ntriple", "unclosed\ntriple", "triple"),) if dia == 2 else ()):
        yield ("unclosed_text/" + tag, with_elems(doc, last_path, elems + [("item", "_unclosed", ("rawv", raw))]),
               with_elems(doc, last_path, elems + [("item", "_unclosed", S(txt, "sq"))]), 107, {"no_trail": True, "hi_eof": True}, None)


def plant_eof(doc, dia, r):
    """every class that can be cut off by the END OF THE INPUT, with NO line terminator behind it: the defect is the very last
    thing in the last container of the document (last block, and last frame when the last element is one)"""
    E = {"no_trail": True, "hi_eof": True}
    paths = [p for p in containers(doc) if p[0] == len(doc) - 1]
    last = [p for p in paths if len(p) == 1][-1]
    targets = [(last, "block")]
    for path, where in targets:
        elems = get_elems(doc, path)
        for raw, txt in (("'no end", "no end"), ('"q', "q"), ("'", ""), ("'x y ", "x y "), ('"a\'b', "a'b")):
            yield ("eof_endquote/" + where, with_elems(doc, path, elems + [("item", "_eof", ("rawv", raw))]),
                   with_elems(doc, path, elems + [("item", "_eof", S(txt, "sq"))]), 106, E, None)
        for raw, txt in (("\n;open text", "open text"), ("\n;", ""), ("\n;a\nb", "a\nb")) + \
                ((("'''open", "open"), ('"""a\n"', 'a\n"'), ("'''", "")) if dia == 2 else ()):
            yield ("eof_unclosed/" + where, with_elems(doc, path, elems + [("item", "_eof", ("rawv", raw))]),
                   with_elems(doc, path, elems + [("item", "_eof", S(txt, "sq"))]), 107, E, None)
        yield ("eof_missing_value/" + where, with_elems(doc, path, elems + [("noval", "_eof")]),
               with_elems(doc, path, elems + [("item", "_eof", ("unk",))]), 133, E, None)
        yield ("eof_null_loop/" + where, with_elems(doc, path, elems + [("raw", "loop_", True)]), doc, 37, E, None)
        yield ("eof_empty_loop/" + where, with_elems(doc, path, elems + [("loop", ["_eof.a", ("mark", "_eof.b")], [])]), doc, 36, E,
               with_elems(doc, path, elems + [("loop", ["_eof.a", "_eof.b"], [])]))
        yield ("eof_partial_packet/" + where,
               with_elems(doc, path, elems + [("loop", ["_eof.a", "_eof.b", "_eof.c"], [[S("1"), S("2"), S("3")], [S("4"), ("skip",), ("skip",)]])]),
               with_elems(doc, path, elems + [("loop", ["_eof.a", "_eof.b", "_eof.c"], [[S("1"), S("2"), S("3")], [S("4"), ("unk",), ("unk",)]])]),
               53, dict(E, mark_last=True), None)
        if dia == 2:
            for v in (("list", [S("1"), S("two", "sq")], False), ("table", [("k", "sq", S("1"))], False),
                      ("list", [("list", [S("1")], False)], False)):
                closed = ("list", [("list", [S("1")])]) if v[1] and v[1][0][0] == "list" else (v[0], v[1])
                yield ("eof_missing_delim/" + where, with_elems(doc, path, elems + [("item", "_eof", ("mark", v))]),
                       with_elems(doc, path, elems + [("item", "_eof", closed)]), 136, E, None)
            yield ("eof_missing_value_in_table/" + where,
                   with_elems(doc, path, elems + [("item", "_eof", ("table", [("k", "sq", ("none",))], False))]),
                   with_elems(doc, path, elems + [("item", "_eof", ("table", [("k", "sq", ("unk",))]))]), 133, dict(E, mark_key="'k':"), None)
    # the same inside a save frame that is itself cut off: CIF_EOF_IN_FRAME follows, the FIRST report is the class's
    fr = [("item", "_in.frame", S("1"))]
    elems = get_elems(doc, last)
    if not any(e[0] == "frame" and e[1] == "ef" for e in elems):
        yield ("eof_endquote/frame", with_elems(doc, last, elems + [("frame", "ef", fr + [("item", "_eof", ("rawv", "'cut"))], False)]),
               with_elems(doc, last, elems + [("frame", "ef", fr + [("item", "_eof", S("cut", "sq"))])]), 106, E, None)
        yield ("eof_missing_value/frame", with_elems(doc, last, elems + [("frame", "ef", fr + [("noval", "_eof")], False)]),
               with_elems(doc, last, elems + [("frame", "ef", fr + [("item", "_eof", ("unk",))])]), 133, E, None)


# ---------------------------------------------------------------------------------------------------------------------
# two defects in different elements of one container (theorem C12_two_defects / C12_chars_two_defects)

def element_edits(elems, dia, r):
    """single-report defects that touch ONE element slot of a container: (slot, label, code, k, n_removed, planted, repaired, kind).
    slot 2k = insertion in front of element k, slot 2k+1 = element k itself"""
    out = []
    for k in range(len(elems) + 1):
        prev = elems[k - 1] if k > 0 else None
        nxt = elems[k] if k < len(elems) else None
        after_loop = prev is not None and prev[0] == "loop"
        if not after_loop:
            out.append((2 * k, "unexpected_value", 134, k, 0, [("raw", "stray", True)], [], "value"))
            if dia == 2:
                out.append((2 * k, "unexpected_delim", 135, k, 0, [("raw", "]", True)], [], "value"))
        out.append((2 * k, "invalid_name", 42, k, 0, [("item", ("mark", "_"), S("v"))], [], "item"))
        earlier = names_of(elems[:k])
        if earlier:
            out.append((2 * k, "dup_name", 41, k, 0, [("item", ("mark", variant(r.choice(earlier), r)), S("dup"))], [], "item"))
        if nxt is None or nxt[0] in ("frame", "loop"):
            out.append((2 * k, "null_loop", 37, k, 0, [("raw", "loop_", True)], [], "loopkw"))
    for k, e in enumerate(elems):
        if e[0] == "item":
            out.append((2 * k + 1, "missing_value", 133, k, 1, [("noval", e[1])], [("item", e[1], ("unk",))], "noval"))
        if e[0] == "loop":
            names, packets = e[1], e[2]
            if len(names) > 1 and packets:
                keep = 1 + (k % (len(names) - 1))
                last = packets[-1]
                out.append((2 * k + 1, "partial_packet", 53, k, 1,
                            [("loop", names, packets[:-1] + [last[:keep] + [("skip",)] * (len(names) - keep)])],
                            [("loop", names, packets[:-1] + [last[:keep] + [("unk",)] * (len(names) - keep)])], "loop"))
            pos = 1 + (k % len(names))
            hdr = names[:pos] + [("mark", variant(names[pos - 1], r))] + names[pos:]
            pk = [p[:pos] + [S("dropped", "sq")] + p[pos:] for p in packets]
            out.append((2 * k + 1, "dup_header", 41, k, 1, [("loop", hdr, pk)], [e], "loop"))
    return out


def compatible(a, b, elems):
    """`a` in front of `b`, different elements, and the first defect does not change what the second one is"""
    (sa, la, _ca, ka, _na, _pa, _ra, kinda), (sb, lb, _cb, kb, _nb, _pb, _rb, kindb) = a, b
    if sa >= sb:
        return False
    adjacent = (sb == sa + 1) or (sa % 2 == 0 and sb % 2 == 0 and ka == kb)
    if la == "null_loop" and adjacent:
        return False                      # `loop_` followed by a planted data name would be a loop header
    if kinda == "noval" and adjacent and kindb == "value":
        return False                      # the stray value would be the value of the name
    if kinda == "loop" and adjacent and kindb == "value":
        return False                      # … or a value of the loop body
    return True


def plant_pairs(doc, dia, r, limit):
    cases = []
    for path in containers(doc):
        elems = get_elems(doc, path)
        eds = element_edits(elems, dia, r)
        where = "frame%d" % (len(path) - 1) if len(path) > 1 else "block"
        for a in eds:
            for b in eds:
                if not compatible(a, b, elems):
                    continue
                # apply the later edit first (indices of the earlier one stay valid)
                planted, repaired = list(elems), list(elems)
                for (_s, _l, _c, k, n, pl, rp, _kind) in (b, a):
                    planted = planted[:k] + pl + planted[k + n:]
                    repaired = repaired[:k] + rp + repaired[k + n:]
                cases.append(("pair/%s+%s/%s" % (a[1], b[1], where), with_elems(doc, path, planted), with_elems(doc, path, repaired),
                              (a[2], b[2])))
    r.shuffle(cases)
    return cases[:limit]


def pair_request(label, planted, result, codes, dia, r, mfd):
    text, spans, marks = pd.render_marked(planted, r, dia, "lines", "\n")
    if pd.max_line_chars(text) > 2048:
        return None
    last_line = 1 + text.count("\n")
    bounds = []
    if len(marks) == 2:
        for mi in marks:
            nxt = mi + 1
            bounds.append((spans[mi][3], spans[nxt][4] if nxt < len(spans) else last_line))
    else:
        bounds = [(1, last_line), (1, last_line)]
    note = ["P", label, str(codes[0]), str(codes[1])] + ["%d-%d" % b for b in bounds] + ["X"] + expected_dump(result, dia).split(" ")[1:]
    return make_request("parse", text, dia=dia, mfd=mfd, note=note)


def die_request(label, planted, truncated, code, opts, dia, r, mfd, style="lines"):
    """the same planted document under the abort-on-error handler (cif_parse_error_die): the parse returns the class's code,
    the callback has been invoked exactly once, and the CIF holds what stands IN FRONT of the defect (nothing behind it)"""
    text, spans, marks = pd.render_marked(planted, r, dia, style, "\n")
    if pd.max_line_chars(text) > 2048 or not marks:
        return None
    mi = marks[0]
    last_line = 1 + text.count("\n")
    lo = spans[mi][3]
    hi = spans[mi + 1][4] if mi + 1 < len(spans) and not opts.get("hi_after_value") else last_line
    note = ["DIE", label, str(code), str(lo), str(hi), "X"] + expected_dump(truncated, dia).split(" ")[1:]
    return make_request("parse", text, dia=dia, mfd=opts.get("mfd", mfd), policy="d", note=note)


# ---------------------------------------------------------------------------------------------------------------------
# line length: exactly which lines are reported

def boundary_cases(dia):
    """documents with ONE line of 2047 / 2048 / 2049 characters in every context; yields (label, text, doc, long line number, L)"""
    A = lambda n: "a" * n          # noqa: E731
    for L in (2047, 2048, 2049):
        pre = "data_a\n"
        ctxs = [
            ("bare", pre + "_x " + A(L - 3) + "\n_y 1\n", [("item", "_x", S(A(L - 3))), ("item", "_y", S("1"))], 2),
            ("quoted", pre + "_x '" + A(L - 5) + "'\n_y 1\n", [("item", "_x", S(A(L - 5), "sq")), ("item", "_y", S("1"))], 2),
            ("text_first", pre + "_x\n;" + A(L - 1) + "\nend\n;\n_y 1\n", [("item", "_x", S(A(L - 1) + "\nend", "text")), ("item", "_y", S("1"))], 3),
            ("text_mid", pre + "_x\n;x\n" + A(L) + "\ny\n;\n_y 1\n", [("item", "_x", S("x\n" + A(L) + "\ny", "text")), ("item", "_y", S("1"))], 4),
            ("text_last", pre + "_x\n;x\n" + A(L) + "\n;\n_y 1\n", [("item", "_x", S("x\n" + A(L), "text")), ("item", "_y", S("1"))], 4),
            ("text_only", pre + "_x\n;" + A(L - 1) + "\n;\n", [("item", "_x", S(A(L - 1), "text"))], 3),
            ("comment", pre + "#" + A(L - 1) + "\n_y 1\n", [("item", "_y", S("1"))], 2),
            ("comment_after", pre + "_y 1 #" + A(L - 6) + "\n", [("item", "_y", S("1"))], 2),
            ("blanks", pre + " " * L + "\n_y 1\n", [("item", "_y", S("1"))], 2),
            ("tabs_then_value", pre + "\t" * (L - 1) + "1\n_y 1\n" if False else pre + "_y" + " " * (L - 3) + "1\n", [("item", "_y", S("1"))], 2),
            ("cr", pre + "_x " + A(L - 3) + "\r_y 1\n", [("item", "_x", S(A(L - 3))), ("item", "_y", S("1"))], 2),
            ("crlf", pre + "_x " + A(L - 3) + "\r\n_y 1\r\n", [("item", "_x", S(A(L - 3))), ("item", "_y", S("1"))], 2),
            ("text_crlf", pre + "_x\r\n;x\r\n" + A(L) + "\r\ny\r\n;\r\n", [("item", "_x", S("x\n" + A(L) + "\ny", "text"))], 4),
            ("two_lines", pre + "_x " + A(L - 3) + "\n#" + A(L - 1) + "\n_y 1\n", [("item", "_x", S(A(L - 3))), ("item", "_y", S("1"))], (2, 3)),
        ]
        if L <= 2048:
            ctxs += [("name", pre + "_" + A(L - 1) + "\n1\n", [("item", "_" + A(L - 1), S("1"))], 2),
                     ("eof_no_terminator", pre + "_y 1\n#" + A(L - 1), [("item", "_y", S("1"))], 3)]
        if dia == 2:
            sup = "\U0001f600"
            ctxs += [
                ("triple", pre + "_x '''x\n" + A(L) + "\ny'''\n", [("item", "_x", S("x\n" + A(L) + "\ny", "tsq"))], 3),
                ("triple_first", pre + "_x '''" + A(L - 6) + "\ny'''\n", [("item", "_x", S(A(L - 6) + "\ny", "tsq"))], 2),
                ("triple_last", pre + '_x """x\n' + A(L - 3) + '"""\n', [("item", "_x", S("x\n" + A(L - 3), "tdq"))], 3),
                ("text_fold", pre + "_x\n;\\\n" + A(L - 1) + "\\\nb\n;\n", [("item", "_x", S(A(L - 1) + "b", "sq"))], 4),
                ("text_prefix", pre + "_x\n;> \\\n> " + A(L - 2) + "\n;\n", [("item", "_x", S(A(L - 2), "sq"))], 4),
                ("supplementary", pre + "_x " + sup * 3 + A(L - 6) + "\n_y 1\n", [("item", "_x", S(sup * 3 + A(L - 6))), ("item", "_y", S("1"))], 2),
                ("supplementary_text", pre + "_x\n;x\n" + sup * 5 + A(L - 5) + "\n;\n", [("item", "_x", S("x\n" + sup * 5 + A(L - 5), "text"))], 4),
                ("list_line", pre + "_x [" + A(L - 4) + "\n]\n", [("item", "_x", ("list", [S(A(L - 4))]))], 2),
            ]
        for label, text, elems, line in ctxs:
            lines = line if isinstance(line, tuple) else (line,)
            yield ("linelen/%s/%d" % (label, L), text, [("a", elems)], lines, L)


def boundary_request(label, text, doc, lines, L, dia):
    expected = list(lines) if L > 2048 else []
    note = ["L", label, ",".join(str(x) for x in expected) or "-", "X"] + pd.dump_cif(pd.denote(doc, dia)).split(" ")[1:]
    return make_request("parse", text, dia=dia, note=note)


def applicable(label, doc, opts):
    if opts.get("only_if_no_frames"):
        return not any(e[0] == "frame" for b in doc for e in b[1])
    return True


def expected_dump(result, dia):
    return pd.dump_cif(pd.denote([(b[0], b[1]) for b in result], dia))


def case_request(label, planted, result, code, opts, alt, dia, r, style="lines", mfd=1):
    trail = "" if opts.get("no_trail") else "\n"
    text, spans, marks = pd.render_marked(planted, r, dia, style, trail)
    if pd.max_line_chars(text) > 2048 and not label.startswith(("overlength", "invalid_block", "invalid_frame")):
        return None
    last_line = 1 + text.count("\n")
    if opts.get("first_token"):
        mi = 0
    elif opts.get("mark_last") or not marks:
        mi = None
    else:
        mi = marks[0]
    if opts.get("mark_key"):
        mi = [i for i, s in enumerate(spans) if text[s[1]:s[2]] == opts["mark_key"]][0]
    if mi is None:
        # the defect is an omission at the end of the loop body: from the last value present to the following token
        body = [i for i, s in enumerate(spans) if s[0] in ("value", "qvalue", "tvalue", "clist", "ctable")]
        loop_i = [i for i, s in enumerate(spans) if s[0] == "loopkw"]
        mi = max(i for i in body) if body else 0
        # the last value of the LAST loop that lost values: find by scanning the planted doc is overkill — use line bounds of
        # the whole document instead
        lo, hi = 1, last_line
    else:
        lo = spans[mi][3] + opts.get("lo_plus", 0)
        nxt = mi + 1
        if opts.get("hi_after_value"):
            # the end of the unterminated value: the first following name / keyword token
            while nxt < len(spans) and spans[nxt][0] not in ("name", "loopkw", "framehead", "frameterm", "blockhead", "raw"):
                nxt += 1
        if opts.get("mark_after"):
            nxt = mi + 1
            while nxt < len(spans) and spans[nxt][0] not in ("blockhead",):
                nxt += 1
        hi = spans[nxt][4] if nxt < len(spans) and not opts.get("hi_eof") else last_line
        if opts.get("mark_after"):
            lo = spans[mi][3]
    if opts.get("span_all"):
        lo, hi = 1, last_line
    if opts.get("codes"):
        # every report of the planted token, in order (each place of a token with several defects is reported once)
        note = ["M", label, ",".join(str(c) for c in opts["codes"]), str(lo), str(hi), "X"] + expected_dump(result, dia).split(" ")[1:]
        return make_request("parse", text, dia=dia, mfd=opts.get("mfd", mfd), note=note)
    note = ["D", label, str(code), str(lo), str(hi), "X"] + expected_dump(result, dia).split(" ")[1:]
    if alt is not None:
        note += ["ALT"] + expected_dump(alt, dia).split(" ")[1:]
    return make_request("parse", text, dia=dia, mfd=opts.get("mfd", mfd), note=note)


def host_request(doc, dia, r, style, mfd=1):
    text, _ = pd.render(doc, r, dia, style)
    note = ["X"] + pd.dump_cif(pd.denote(doc, dia)).split(" ")[1:]
    return make_request("parse", text, dia=dia, mfd=mfd, note=note)


def oracle(req, impl):
    d = split_request(req)
    if d["note"] and d["note"][0] == "L":
        o = split_impl(impl)
        if o is None:
            return None if impl.startswith(("SAN:", "CRASH:", "TIMEOUT")) else "unreadable observation: " + impl[:80]
        n = d["note"]
        label = n[1]
        want = [] if n[2] == "-" else [int(x) for x in n[2].split(",")]
        expected = " " + " ".join(n[n.index("X") + 1:])
        got = [line for code, line in o["log"] if code == 108]
        other = [(c, l) for c, l in o["log"] if c != 108]
        if other:
            return "%s: unrelated report %d at line %d" % (label, other[0][0], other[0][1])
        if got != want:
            return "%s: CIF_OVERLENGTH_LINE reported for lines %s, the lines longer than 2048 characters are %s" % (label, got, want)
        if o["rc"] != 0:
            return "%s: cif_parse returned %d" % (label, o["rc"])
        if o["cif"].rstrip() != expected.rstrip():
            return "%s: content differs from what the document denotes" % label
        return pd.post_ok(o)
    if d["note"] and d["note"][0] == "P":
        return oracle_pair(d, impl)
    if d["note"] and d["note"][0] == "DIE":
        return oracle_die(d, impl)
    if d["note"] and d["note"][0] == "M":
        return oracle_multi(d, impl)
    if "D" not in d["note"]:
        return pd.oracle(req, impl)
    o = split_impl(impl)
    if o is None:
        return None if impl.startswith(("SAN:", "CRASH:", "TIMEOUT")) else "unreadable observation: " + impl[:80]
    n = d["note"]
    label, code, lo, hi = n[1], int(n[2]), int(n[3]), int(n[4])
    rest = n[n.index("X") + 1:]
    alt = None
    if "ALT" in rest:
        alt = " " + " ".join(rest[rest.index("ALT") + 1:])
        rest = rest[:rest.index("ALT")]
    expected = " " + " ".join(rest)
    if not o["log"]:
        return "%s: the error callback was never invoked (documented code %d)" % (label, code)
    c0, l0 = o["log"][0]
    if c0 != code:
        return "%s: first callback code %d, documented code %d" % (label, c0, code)
    if not (lo <= l0 <= hi):
        return "%s: first callback at line %d, the defect and the following token span lines %d-%d" % (label, l0, lo, hi)
    if o["rc"] != 0:
        return "%s: every error was accepted but cif_parse returned %d" % (label, o["rc"])
    if o["ptr"] != "ok":
        return "callback text pointer outside the scan buffer"
    got = pd.store_units(o["cif"].rstrip())
    if got != pd.store_units(expected.rstrip()) and (alt is None or got != pd.store_units(alt.rstrip())):
        return "%s: content after recovery is not what the documented recovery action prescribes" % label
    return pd.post_ok(o)


def oracle_pair(d, impl):
    """two defects in different elements of one container: each is reported exactly once with its class's code, in document
    order, nothing else is reported, and the content is that of BOTH documented recoveries"""
    o = split_impl(impl)
    if o is None:
        return None if impl.startswith(("SAN:", "CRASH:", "TIMEOUT")) else "unreadable observation: " + impl[:80]
    n = d["note"]
    label, c1, c2 = n[1], int(n[2]), int(n[3])
    b1, b2 = [tuple(int(x) for x in t.split("-")) for t in n[4:6]]
    expected = " " + " ".join(n[n.index("X") + 1:])
    codes = [c for c, _ in o["log"]]
    if codes != [c1, c2]:
        return "%s: callbacks %s, the two planted defects have the documented codes [%d, %d]" % (label, codes, c1, c2)
    for (c, l), (lo, hi) in zip(o["log"], (b1, b2)):
        if not (lo <= l <= hi):
            return "%s: callback %d at line %d, its defect and the following token span lines %d-%d" % (label, c, l, lo, hi)
    if o["rc"] != 0:
        return "%s: every error was accepted but cif_parse returned %d" % (label, o["rc"])
    if o["ptr"] != "ok":
        return "callback text pointer outside the scan buffer"
    if pd.store_units(o["cif"].rstrip()) != pd.store_units(expected.rstrip()):
        return "%s: content after recovery is not that of both documented recovery actions" % label
    return pd.post_ok(o)


def oracle_multi(d, impl):
    """one token with several defective places (or a comment with some): every place is reported once, with its class's code, in
    order of occurrence, on the lines of the token; nothing else is reported; the content is that of all documented recoveries"""
    o = split_impl(impl)
    if o is None:
        return None if impl.startswith(("SAN:", "CRASH:", "TIMEOUT")) else "unreadable observation: " + impl[:80]
    n = d["note"]
    label, want, lo, hi = n[1], [int(x) for x in n[2].split(",")], int(n[3]), int(n[4])
    expected = " " + " ".join(n[n.index("X") + 1:])
    codes = [c for c, _ in o["log"]]
    if codes != want:
        return "%s: callbacks %s, the defective places of the token have the documented codes %s" % (label, codes, want)
    for c, l in o["log"]:
        if not (lo <= l <= hi):
            return "%s: callback %d at line %d, the token spans lines %d-%d" % (label, c, l, lo, hi)
    if o["rc"] != 0:
        return "%s: every error was accepted but cif_parse returned %d" % (label, o["rc"])
    if o["ptr"] != "ok":
        return "callback text pointer outside the scan buffer"
    if pd.store_units(o["cif"].rstrip()) != pd.store_units(expected.rstrip()):
        return "%s: content after recovery is not what the documented recovery actions prescribe" % label
    return pd.post_ok(o)


def oracle_die(d, impl):
    """abort-on-error handler: the parse returns the code of the class, exactly one callback was made (with that code, on a line
    of the defect), and what the CIF holds is what stands in front of the defect — nothing behind it has been stored"""
    o = split_impl(impl)
    if o is None:
        return None if impl.startswith(("SAN:", "CRASH:", "TIMEOUT")) else "unreadable observation: " + impl[:80]
    n = d["note"]
    label, code, lo, hi = n[1], int(n[2]), int(n[3]), int(n[4])
    expected = " " + " ".join(n[n.index("X") + 1:])
    if o["rc"] != code:
        return "%s: the handler answered %d to the first error but cif_parse returned %d" % (label, code, o["rc"])
    if [c for c, _ in o["log"]] != [code]:
        return "%s: callbacks %s under the abort-on-error handler, expected exactly [%d]" % (label, [c for c, _ in o["log"]], code)
    if not (lo <= o["log"][0][1] <= hi):
        return "%s: callback at line %d, the defect and the following token span lines %d-%d" % (label, o["log"][0][1], lo, hi)
    if o["aa"] not in (None, "?") and int(o["aa"]) != code:
        return "%s: the accept-all parse reports %s first" % (label, o["aa"])
    if pd.store_units(o["cif"].rstrip()) != pd.store_units(expected.rstrip()):
        return "%s: after the aborted parse the CIF does not hold exactly what stands in front of the defect" % label
    return pd.post_ok(o, aborted=True)


def nontrivial(req, impl):
    return " D " in req or " | L " in req or " | P " in req or " | DIE " in req or " | M " in req


def classify(req, impl):
    d = split_request(req)
    if d["note"] and d["note"][0] == "L":
        return "linelen"
    if d["note"] and d["note"][0] == "P":
        return "pair"
    if d["note"] and d["note"][0] == "DIE":
        return "die:" + d["note"][1].split("/")[0]
    if d["note"] and d["note"][0] == "M":
        return d["note"][1].split("/")[0]
    if "D" in d["note"]:
        return d["note"][1].split("/")[0] + ("/nested" if d["mfd"] < 0 and "/frame" in d["note"][1] else "")
    return "clean-host"


def finding_class(req, impl, model, why):
    return None


def shrink(req):
    return []


def generate(seed, tier):
    r = rng(seed, FAMILY)
    hosts = [(2, h, 1) for h in HOSTS2] + [(1, h, 1) for h in HOSTS1]
    n_hand = len(hosts)
    n_rand = 12 if tier == "quick" else 200
    for _ in range(n_rand):
        dia = 2 if r.random() < 0.7 else 1
        doc = pd.rand_doc(r, dia, size=r.choice([2, 3, 4]), depth=r.choice([1, 2]))
        # hosts use plain presentations (the planted text must be the only irregularity)
        hosts.append((dia, doc, 1))
    # hosts whose save frames NEST (max_frame_depth = -1): the classes planted at every depth
    nested = [(2, h, -1) for h in NESTED2] + [(1, h, -1) for h in NESTED1]
    for _ in range(4 if tier == "quick" else 60):
        dia = 2 if r.random() < 0.7 else 1
        doc = pd.rand_doc(r, dia, size=r.choice([3, 4]), depth=1, nest=2)
        if pd.frame_depth(doc) >= 2:
            nested.append((dia, doc, -1))
    n_first_nested = len(hosts)
    hosts += nested
    for hi_, (dia, doc, mfd) in enumerate(hosts):
        is_nested = hi_ >= n_first_nested
        hand = hi_ < n_hand or (is_nested and hi_ < n_first_nested + len(NESTED2) + len(NESTED1))
        for style in ("lines", "min"):
            yield host_request(doc, dia, r, style, mfd)
        cases = list(plant_container_level(doc, dia, r))
        if is_nested:
            # (the frame classes of plant_document_level presuppose that frames do not nest)
            cases = [c for c in cases if "/frame/" in c[0]]
        else:
            cases += list(plant_document_level(doc, dia, r)) + list(plant_eof(doc, dia, r))
        if not hand and tier == "quick":
            r.shuffle(cases)
            cases = cases[:60]
        elif is_nested and tier == "quick":
            r.shuffle(cases)
            cases = cases[:120]
        n_die = {}
        for (label, planted, result, code, opts, alt) in cases:
            if label.startswith("skip") or not applicable(label, doc, opts):
                continue
            for style in (("lines", "min") if (hand and not is_nested) else ("lines",)):
                if style == "min" and (label.startswith(("missing_endquote", "overlength", "unclosed_text", "eof_unclosed", "defect_in_comment", "defects_in_comment", "multi_in_text")) or "text_key" in label):
                    continue
                rq = case_request(label, planted, result, code, opts, alt, dia, r, style, mfd)
                if rq is not None:
                    yield rq
            # the same defect under the abort-on-error handler, with the content in front of the defect
            cls = label.split("/")[0]
            if "die" in opts and (tier != "quick" or n_die.get(cls, 0) < (8 if hand else 2)):
                rq = die_request(label, planted, opts["die"], code, opts, dia, r, mfd)
                if rq is not None:
                    n_die[cls] = n_die.get(cls, 0) + 1
                    yield rq
        # two defects in different elements of one container
        for (label, planted, result, codes) in plant_pairs(doc, dia, r, (60 if hand else 15) if tier == "quick" else 400):
            rq = pair_request(label, planted, result, codes, dia, r, mfd)
            if rq is not None:
                yield rq
    for dia in (2, 1):
        for (label, text, doc, lines, L) in boundary_cases(dia):
            if dia == 1 and any(ord(c) > 126 for c in text):
                continue
            yield boundary_request(label, text, doc, lines, L, dia)
