"""in / out of the documented contract, for histories of the families store and iter.

The verdict is the model's (lean/CifModel/Model/StoreContract.lean `inContractHist`, evaluated by the model driver's family
`storecontract`): `in-contract` histories are the ones `C04_wok_hist` speaks about.  The label goes into the evidence histogram of
every compared case (classify of tools/gen/store.py and iter.py).  Requests are recorded by the families' `model_request` hook and
labelled in one batch at the first question."""
import os, subprocess

_DRV = os.path.normpath(os.path.join(os.path.dirname(os.path.abspath(__file__)), "..", "..", "lean", ".lake", "build", "bin", "cifmodel"))
_pending = []
_lab = {}
_first = {}
_feat = {}


def record(req):
    _pending.append(req)
    return req


def label(req):
    if req not in _lab:
        batch = [r for r in dict.fromkeys(_pending + [req]) if r not in _lab]
        del _pending[:]
        inp = "".join("storecontract " + (r.split(" ", 1)[1] if " " in r else "") + "\n" for r in batch)
        try:
            out = subprocess.run([_DRV], input=inp, capture_output=True, text=True, timeout=600).stdout.split("\n")
        except Exception:
            out = []
        for k, r in enumerate(batch):
            o = out[k] if k < len(out) else ""
            head = o.split(" f=")[0]
            _lab[r] = "in-contract" if head == "ic" else ("out-of-contract" if head.startswith("oc") else "contract-unknown")
            _feat[r] = o.split(" f=")[1] if " f=" in o else ""
            try:
                _first[r] = int(head.split()[1]) if head.startswith("oc") else None
            except Exception:
                _first[r] = None
    return _lab[req]


def first_out_of_contract(req):
    """index of the first op of the history that does not keep to the documented contract (None: the whole history does)"""
    label(req)
    return _first.get(req)


def features(req):
    """what the in-contract part of the history exercises (letters: lean/Driver/Fam/Store.lean `contractOf`): set_value of an existing
    item in a loop with >= 2 packets (M) / one packet (S) / none (Z), of a new item creating the scalar loop (C) / joining it (J) /
    joining a scalar loop without packet (P), invalid name (i); get_packets granted (O) / refused (R); close or abort (E); a call on
    another CIF while an iterator is open (X); a call after an iterator session ended (A)"""
    label(req)
    return _feat.get(req, "")
