"""family `norm` (C09): cif_normalize against NFC(foldCase(NFD(x))) assembled by the executor from ICU primitives; matching of
block codes / frame codes / item names under variant spellings through the API; table keys and packet item names (map.c);
and a test of every assumed `Laws` field against ICU on the same data."""
import os, sys, unicodedata
sys.path.insert(0, os.path.dirname(os.path.abspath(__file__)))
from common import hexs, unhexs, rng
import valid as _valid

FAMILY = "norm"
HARNESS = {"source": "x_norm.c", "exclude_objs": ["utils"], "leak_clean": True}
RULE = ("quick: every BMP code point with a canonical decomposition, a case folding or a non-zero combining class, every Hangul "
        "syllable and jamo, lone surrogates (about 30 000 single code points); thorough: all 1 114 112 code points; plus seeded "
        "sequences of 2-6 such units (incl. U+0345, U+1E9E, U+0130, Hangul L/V/T, reordered marks); pairs of spellings (case "
        "variants, NFC / NFD, reordered marks, unrelated) created / looked up / re-created as block, frame and item; op sequences on "
        "tables and packets under variant keys; non-trivial = non-ASCII input; oracle: cif_normalize(x) = NFC(fold(NFD x)) from "
        "ICU primitives, idempotent, invariant under NFD/NFC of the input; found / duplicate iff the normal forms coincide; table "
        "keys by NFC only, most recent spelling enumerated; every assumed law holds in ICU on the data.  Buffer level (`buf`): "
        "cif_unicode_normalize (NFD / NFC x terminate), cif_fold_case, cif_normalize (with / without result pointer), "
        "cif_normalize_name / _item_name / _table_index called with srclen = -1, the exact length, shorter prefixes, sources without "
        "terminator and with embedded NULs, on expanding / contracting code points and engineered exact-fit / overflow lengths; the "
        "allocator and the ICU entry points are interposed inside utils.c: oracle = result equals ICU's on the logical string, "
        "terminator where promised, every ICU call's capacity within the block it writes to, nothing stored behind a block, at "
        "most two attempts per stage, blocks balanced.  `icu`: ICU's capacity contract (the hypothesis CallContract) for "
        "every capacity 0 .. length+2")

INVALID = {"block": 12, "frame": 22, "item": 42}
DUP = {"block": 11, "frame": 21, "item": 41}
NOSUCH = {"block": 13, "frame": 23, "item": 43}
NOSUCH_ITEM, INVALID_INDEX, INVALID_ITEMNAME = 43, 73, 42
SPECIAL = [0x345, 0x1e9e, 0xdf, 0x130, 0x131, 0x49, 0x69, 0x307, 0x17f, 0x212a, 0x212b, 0xc5, 0x41, 0x30a, 0x323, 0x3a3, 0x3c3, 0x3c2,
           0x1100, 0x1161, 0x11a8, 0xac00, 0xac01, 0x390, 0x1fd3, 0xfb06, 0x1f80, 0x3b9, 0x308, 0x301, 0x327, 0x328, 0x61, 0x5f, 0xb5, 0x3bc,
           0x1e9b, 0x1e61, 0x0f73, 0x0f71, 0x0f72, 0x0344, 0x2126, 0x3a9, 0x1f88, 0x1fb3, 0x1fbc]

_interesting = None


def interesting():
    global _interesting
    if _interesting is None:
        out = []
        for cp in range(1, 0x10000):
            if 0xd800 <= cp <= 0xdfff:
                continue
            c = chr(cp)
            d = unicodedata.decomposition(c)
            if (d and not d.startswith("<")) or unicodedata.combining(c) or c.casefold() != c or c.lower() != c or c.upper() != c:
                out.append(cp)
        out += list(range(0x1100, 0x1200)) + list(range(0xac00, 0xd7a4))
        out += [0xd800, 0xdbff, 0xdc00, 0xdfff]
        _interesting = sorted(set(out) | set(SPECIAL))
    return _interesting


def units_of(cp):
    if cp > 0xffff:
        cp -= 0x10000
        return [0xd800 + (cp >> 10), 0xdc00 + (cp & 0x3ff)]
    return [cp]


def to_units(s):
    out = []
    for ch in s:
        out += units_of(ord(ch))
    return out


def variants(r, w):
    """spellings related to the string w (a python str): canonical and case variants, and an unrelated one"""
    v = [w, unicodedata.normalize("NFD", w), unicodedata.normalize("NFC", w), w.upper(), w.lower(), w.casefold(), w.swapcase(),
         unicodedata.normalize("NFD", w.upper()), unicodedata.normalize("NFC", w.casefold()), w + "x", w[:-1] if len(w) > 1 else w + "y"]
    # reorder two adjacent combining marks of different non-zero class (canonically equivalent) or equal class (not equivalent)
    d = list(unicodedata.normalize("NFD", w))
    for i in range(len(d) - 1):
        if unicodedata.combining(d[i]) and unicodedata.combining(d[i + 1]):
            e = d[:]
            e[i], e[i + 1] = e[i + 1], e[i]
            v.append("".join(e))
            break
    return v


def rand_word(r, pool, n):
    return "".join(chr(r.choice(pool)) for _ in range(n))


def generate(seed, tier):
    r = rng(seed, FAMILY)
    pool = [cp for cp in interesting() if not 0xd800 <= cp <= 0xdfff]
    namepool = [cp for cp in pool if _valid.cif_char_ok(cp, False)]
    if tier == "thorough":
        for cp in range(1, 0x110000):
            yield "norm cp " + hexs(units_of(cp) if not 0xd800 <= cp <= 0xdfff else [cp])
    else:
        for cp in interesting():
            yield "norm cp " + hexs([cp])
        for cp in [0x10400, 0x10428, 0x1d15e, 0x1d157, 0x1d165, 0x2f800, 0x1109a, 0x11099, 0x110ba, 0x1e900, 0x1e922, 0x10ffff, 0x1fffe, 0x16e40]:
            yield "norm cp " + hexs(units_of(cp))
    for _ in range(4000 if tier == "quick" else 80000):
        n = r.randrange(2, 7)
        s = []
        for _ in range(n):
            s += units_of(r.choice(SPECIAL) if r.random() < 0.4 else r.choice(pool))
        yield "norm cp " + hexs(s[:8])
    for _ in range(240 if tier == "quick" else 4000):
        kind = r.choice(["block", "frame", "item"])
        w = rand_word(r, namepool if r.random() < 0.7 else [c for c in SPECIAL if _valid.cif_char_ok(c, False)], r.randrange(1, 5))
        vs = variants(r, w)
        a, b = r.choice(vs[:3] + [w]), r.choice(vs)
        pre = "_" if kind == "item" else ""
        yield "norm match %s %s %s" % (kind, hexs(to_units(pre + a)), hexs(to_units(pre + b)))
    for _ in range(1200 if tier == "quick" else 20000):
        what = r.choice(["tbl", "pkt"])
        base = [rand_word(r, namepool if r.random() < 0.6 else [c for c in SPECIAL if _valid.cif_char_ok(c, False)], r.randrange(1, 4)) for _ in range(2)]
        keys = []
        for w in base:
            keys += variants(r, w)[:9]
        if what == "tbl":
            keys += ["", " ", "a b", w + " ", "\t"]
            if r.random() < 0.1:
                keys.append("\x01")
        else:
            keys = ["_" + k for k in keys] + (["a", "_"] if r.random() < 0.2 else [])
        ops = []
        for j in range(r.randrange(3, 9)):
            k = hexs(to_units(r.choice(keys)))
            c = r.random()
            if c < 0.5:
                ops.append("s:%s:%04x" % (k, 0x30 + j))
            elif c < 0.75:
                ops.append("g:%s" % k)
            elif c < 0.85:
                ops.append("r:%s" % k)
            else:
                ops.append("k")
        ops.append("k")
        yield "norm map %s %s" % (what, " ".join(ops))

    # ---- tables and packets THROUGH THE STORE: built under non-NFC / reordered / case-variant spellings, stored in a managed CIF
    # (set_value / loop packet), read back (get_value / packet iterator), and only then probed under every equivalent and
    # inequivalent spelling; then replaced and removed through equivalent spellings
    for _ in range(700 if tier == "quick" else 12000):
        yield store_seq(r, namepool)
    # ---- buffer level -------------------------------------------------------------------------------------------------
    for req in gen_buf(r, tier, pool):
        yield req


def store_seq(r, namepool):
    what = r.choice(["tbl", "tbl", "pkt"])
    special = [c for c in SPECIAL if _valid.cif_char_ok(c, False)]
    nbase = r.randrange(1, 4)
    base = [rand_word(r, namepool if r.random() < 0.5 else special, r.randrange(1, 4)) for _ in range(nbase)]
    fam = [variants(r, w) for w in base]                       # per base word: equivalent and inequivalent spellings
    pre = "_" if what == "pkt" else ""
    hk = lambda k: hexs(to_units(pre + k))
    ops, tag = [], [0x30]

    def nxt():
        tag[0] += 1
        return "%04x" % tag[0]
    if what == "pkt" and r.random() < 0.35:                    # the packet starts from cif_packet_create(names)
        pick = [r.choice(vs[:9]) for vs in fam]
        if r.random() < 0.25:
            pick.append(r.choice(r.choice(fam)[:9]))           # possibly a second spelling of one item: CIF_DUP_ITEMNAME
        if r.random() < 0.1:
            pick.append(r.choice(["a b", ""]))                 # an invalid name: CIF_INVALID_ITEMNAME
        ops.append("N:" + ",".join(hk(k) for k in pick))
        ops.append("k")
    for vs in fam:                                             # build: one or two sets per base word, under unusual spellings
        for _ in range(r.randrange(1, 3)):
            ops.append("s:%s:%s" % (hk(r.choice(vs[:3] + vs[3:9])), nxt()))
    if what == "tbl":
        for k in r.sample(["", " ", "a b", "\t", "A", "a"], r.randrange(0, 3)):
            ops.append("s:%s:%s" % (hk(k), nxt()))
    store = (lambda: r.choice(["S", "P", "C"])) if what == "tbl" else (lambda: "P")
    if r.random() < 0.15:
        ops.append("k")
    ops.append(store())
    ops.append("k")
    for vs in fam:                                             # probe under every spelling
        for k in vs:
            ops.append("g:%s" % hk(k))
    vs = r.choice(fam)                                         # replace through an equivalent spelling: count unchanged, new spelling
    ops.append("s:%s:%s" % (hk(r.choice(vs[:9])), nxt()))
    ops.append("k")
    ops.append("g:%s" % hk(r.choice(vs[:3])))
    if r.random() < 0.5:
        ops.append(store())
        ops.append("k")
        ops.append("g:%s" % hk(r.choice(vs)))
    vs = r.choice(fam)                                         # remove through an equivalent spelling
    ops.append("r:%s" % hk(r.choice(vs[:9])))
    ops.append("k")
    ops.append("g:%s" % hk(r.choice(vs[:3])))
    if r.random() < 0.3:
        ops.append(store())
        ops.append("k")
    return "norm map %s %s" % (what, " ".join(ops))


_expanding = None


def len16(s):
    return sum(2 if ord(ch) > 0xffff else 1 for ch in s)


def expanding():
    """code points whose NFD, case folding or NFC has a different UTF-16 length than the code point itself"""
    global _expanding
    if _expanding is None:
        out = []
        for cp in interesting():
            if 0xd800 <= cp <= 0xdfff:
                continue
            c = chr(cp)
            if len16(unicodedata.normalize("NFD", c)) != 1 or len16(c.casefold()) != 1 or len16(unicodedata.normalize("NFC", c)) != 1:
                out.append(cp)
        _expanding = out + [0x1d15e, 0x1d1bb, 0x2f800, 0x10400, 0x1e900, 0x16e40]
    return _expanding


BUF_FNS = ["nfd0", "nfd1", "nfc0", "nfc1", "fold", "norm", "norm0", "name", "item", "tbl"]


def buf_reqs(r, units, fns=None):
    """the requests for one source string: every function under several source-length conventions"""
    n = len(units)
    for fn in (fns or BUF_FNS):
        if fn in ("name", "item", "tbl"):
            u = ([0x5f] + units) if fn == "item" else units
            if 0 in u:
                continue
            yield "norm buf %s z -1 %s" % (fn, hexs(u))
            continue
        convs = [("z", -1)] if 0 not in units else []
        convs += [("z", n), ("n", n)]
        if n:
            k = r.randrange(0, n)
            convs += [(r.choice("zn"), k)]
        if 0 not in units:
            convs.append(("z", n + 1))                  # the terminator itself is part of the logical string
        for mode, ln in (convs if fns is None else convs[:3]):
            yield "norm buf %s %s %d %s" % (fn, mode, ln, hexs(units))


def gen_buf(r, tier, pool):
    exp = expanding()
    quick = tier == "quick"
    fixed = [[], [0x41], [0xc5], [0xdf], [0xfb03], [0x1e9e], [0x958], [0xfb2c], [0x390], [0x1fb7], [0x41, 0, 0x42], [0, 0xc5],
             [0xc5, 0xdf], [0x41, 0x30a], [0x1100, 0x1161, 0x11a8], [0xac01], [0xd834, 0xdd5e], [0xd800], [0xdc00, 0x41],
             [0x130], [0x149], [0x1f0], [0xfb17], [0x3a3, 0x345], [0x1f88], [0x212b], [0x20], [0x41, 0x20], [0x5f], [1]]
    for u in fixed:
        for q in buf_reqs(r, u):
            yield q
    for cp in (r.sample(exp, 300) if quick else exp):
        for q in buf_reqs(r, units_of(cp), fns=r.sample(BUF_FNS, 3) if quick else None):
            yield q
    # engineered lengths: k plain units + expanding characters, so that a stage's result is n, n+1 (exact fit), n+2 … units
    for _ in range(500 if quick else 6000):
        k = r.choice([0, 1, 2, 3, 7, 15, 16, 17, 31, 63, 64, 65, 127, 255, 256, 1000]) if r.random() < 0.5 else r.randrange(0, 40)
        base = [r.choice([0x61, 0x41, 0x7a, 0x5f, 0x31, 0xe9, 0x3b1])] * k
        extra = []
        for _ in range(r.randrange(0, 4)):
            extra += units_of(r.choice(exp))
        u = base + extra
        r.shuffle(u) if r.random() < 0.3 and not any(0xd800 <= x <= 0xdfff for x in u) else None
        for q in buf_reqs(r, u, fns=r.sample(BUF_FNS, 2)):
            yield q
    for _ in range(300 if quick else 5000):
        n = r.randrange(2, 9)
        u = []
        for _ in range(n):
            u += units_of(r.choice(SPECIAL) if r.random() < 0.4 else r.choice(exp if r.random() < 0.5 else pool))
        if r.random() < 0.1:
            u.insert(r.randrange(0, len(u) + 1), 0)
        for q in buf_reqs(r, u, fns=r.sample(BUF_FNS, 2)):
            yield q
    # ICU's capacity contract, every capacity from 0 to length + 2
    strs = [[], [0x41], [0xc5], [0xfb03], [0x958], [0x41, 0, 0x42], [0xd834, 0xdd5e], [0xc5, 0xdf, 0x41]]
    for cp in r.sample(exp, 60 if quick else 600):
        strs.append(units_of(cp))
    for _ in range(60 if quick else 800):
        u = []
        for _ in range(r.randrange(1, 7)):
            u += units_of(r.choice(exp) if r.random() < 0.6 else r.choice(pool))
        strs.append(u)
    for u in strs:
        w = "".join(chr(x) for x in u)
        try:
            w = bytes(b for x in u for b in (x & 0xff, x >> 8)).decode("utf-16-le", "surrogatepass")
        except Exception:
            pass
        for fn in ("nfd", "nfc", "fold"):
            top = max(len(u) * 3, 4) + 2 if quick else len(u) * 18 + 3
            try:
                ref = {"nfd": unicodedata.normalize("NFD", w), "nfc": unicodedata.normalize("NFC", w), "fold": w.casefold()}[fn]
                top = len16(ref) + 2
            except Exception:
                pass
            for cap in range(0, top + 1):
                yield "norm icu %s %d %s" % (fn, cap, hexs(u))


def model_request(req, impl):
    g = impl.partition(" | ")[2]
    return req + " | " + g if g else req


def graph(impl):
    """{x: (nfd, fold, pipeline, nfc x)} from the executor's ICU observations"""
    out, extra = {}, {}
    for tok in impl.partition(" | ")[2].split():
        p = tok.split(":")
        if p[0] == "g" and len(p) == 6:
            out[p[1]] = tuple(p[2:])
        elif "=" in tok:
            k, v = tok.split("=", 1)
            extra[k] = v
        elif p[0] == "g":
            out[None] = tok
    return out, extra


def head(impl):
    return impl.split(" |")[0].rstrip()


def agree(impl, model, req=None):
    h = head(impl).split()
    if req and req.split()[1] == "cp":
        return h[:3] == model.split()
    if req and req.split()[1] == "buf":
        # compared: result code, result length, result units, terminator (where promised).  The capacity of the result block and the trace of
        # allocator / ICU calls are NOT compared (no property fixes them: a different first-buffer guess is a harmless rewrite);
        # the oracle checks the safety conditions on the implementation's own trace.
        promised = req.split()[2] in ("nfd1", "nfc1")           # a terminator is an observable only where one is promised
        keep = lambda toks: [x for x in toks if not (x.startswith("tr=") or x.startswith("cap=") or (x.startswith("term=") and not promised))]
        return keep(h) == keep(model.split())
    return h == model.split()


LAW_NAMES = ["nfd_nfc (NFD(NFC y) = NFD y)", "nfc_nfd (NFC(NFD y) = NFC y)", "fold_stable (NFD fold NFD fold NFD x = NFD fold NFD x)"]


def oracle(req, impl):
    t = req.split()
    h = head(impl).split()
    if t[1] == "buf":
        return oracle_buf(t, impl)
    if t[1] == "icu":
        return oracle_icu(t, impl)
    if not h or h[0] != "nm":
        return None
    g, extra = graph(impl)
    if None in g or "setup-failed" in impl:
        return "executor / ICU set-up failed: " + impl[:120]
    if t[1] == "cp":
        f = dict(x.split("=", 1) for x in h[1:])
        laws = extra.get("laws", "")
        for i, ch in enumerate(laws):
            if ch != "1":
                return "BROKEN ASSUMPTION: ICU violates law %s on this input" % LAW_NAMES[i]
        ref = g[t[2]][2]
        if f["rc"] != "0":
            return "cif_normalize failed with code " + f["rc"]
        if f["out"] != ref:
            return "cif_normalize = %s but NFC(foldCase(NFD x)) = %s" % (f["out"], ref)
        if f["idem"] != "1":
            return "cif_normalize is not idempotent on this input"
        if f["inv"] != "1":
            return "cif_normalize differs between x, NFD(x) and NFC(x)"
        return None
    if t[1] == "match":
        kind, a, b = t[2], t[3], t[4]
        f = {k: int(v) for k, v in (x.split("=", 1) for x in h[1:])}
        ua, ub = unhexs(a), unhexs(b)
        va, vb = _valid.spec_name(ua, kind == "item"), _valid.spec_name(ub, kind == "item")
        if f["ca"] != (0 if va else INVALID[kind]):
            return "create %s under the first spelling returned %d" % (kind, f["ca"])
        if not va:
            return None
        same = g[a][2] == g[b][2]
        want_cb = INVALID[kind] if not vb else (DUP[kind] if same else 0)
        want_gb = (NOSUCH[kind] if kind == "item" else INVALID[kind]) if not vb else (0 if same else NOSUCH[kind])
        if f["cb"] != want_cb:
            return "create %s under the second spelling returned %d; normal forms %s: expected %d" % (kind, f["cb"], "coincide" if same else "differ", want_cb)
        if f["gb"] != want_gb:
            return "look-up of %s under the second spelling returned %d; normal forms %s: expected %d" % (kind, f["gb"], "coincide" if same else "differ", want_gb)
        return None
    if t[1] == "map":
        is_tbl = t[2] == "tbl"
        table = {}                      # normal form -> (spelling, tag)
        res = h[1:]
        ops = t[3:]
        if len(res) != len(ops):
            return "answer has %d results for %d operations" % (len(res), len(ops))
        for op, got in zip(ops, res):
            p = op.split(":")
            if p[0] == "C":
                want = "C=0"                                   # a clone is indistinguishable from the table it was made of
            elif p[0] == "N":
                nms = p[1].split(",")
                if not all(_valid.spec_name(unhexs(x), True) for x in nms):
                    want = "N=%d" % INVALID_ITEMNAME
                elif len({g[x][2] for x in nms}) != len(nms):
                    want = "N=41"                              # CIF_DUP_ITEMNAME: two spellings of one item
                else:
                    want = "N=0"
                    table = {g[x][2]: (x, "~") for x in nms}   # every item holds the unknown value
            elif p[0] in ("S", "P"):
                # through a managed CIF and back: the read-back object must be indistinguishable as far as the property speaks -
                # a TABLE keeps keys, spellings and values; a PACKET from an iterator keeps the items (matched by normalised name),
                # the spelling under which its names enumerate is not fixed by any property: the entered one or the normal form
                if not is_tbl and not table:
                    want = "P=skip"
                else:
                    want = p[0] + "=0/0"
                    if not is_tbl:
                        table = {nf: ((sp if isinstance(sp, tuple) else (sp,)) + (nf,), tg) for nf, (sp, tg) in table.items()}
            elif p[0] == "k":
                if any(isinstance(sp, tuple) for sp, _ in table.values()):
                    names = got[3:-1].split(",") if got.startswith("k=[") and got.endswith("]") and len(got) > 4 else []
                    left = dict(table)
                    ok_ = got.startswith("k=[") and names == sorted(names)
                    for nm_ in names:
                        hit = [nf for nf, (sp, _) in left.items() if nm_ in (sp if isinstance(sp, tuple) else (sp,))]
                        if len(hit) != 1:
                            ok_ = False
                            break
                        del left[hit[0]]
                    want = got if ok_ and not left else "k=[one spelling (entered or normalised) per item: %s]" % ",".join(
                        "|".join(sp) if isinstance(sp, tuple) else sp for sp, _ in table.values())
                else:
                    want = "k=[%s]" % ",".join(sorted(sp for sp, _ in table.values()))
            else:
                u = unhexs(p[1])
                ok = _valid.spec_key(u) if is_tbl else _valid.spec_name(u, True)
                nf = g[p[1]][3] if is_tbl else g[p[1]][2]
                if p[0] == "s":
                    if ok:
                        table[nf] = (p[1], p[2])
                        want = "s=0"
                    else:
                        want = "s=%d" % (INVALID_INDEX if is_tbl else INVALID_ITEMNAME)
                elif p[0] == "g":
                    want = "g=0/%s" % table[nf][1] if ok and nf in table else "g=%d/~" % NOSUCH_ITEM
                else:
                    if ok and nf in table:
                        del table[nf]
                        want = "r=0"
                    else:
                        want = "r=%d" % NOSUCH_ITEM
            if got != want:
                return "%s %s: got %s, matching by %s gives %s" % ("table" if is_tbl else "packet", op, got,
                                                                  "NFC (case significant)" if is_tbl else "cif_normalize", want)
        return None
    return None


def refs(impl):
    """{(fn letter, x): f x} from the executor's ICU observations"""
    out = {}
    for tok in impl.partition(" | ")[2].split():
        p = tok.split(":")
        if len(p) == 3 and p[0] in "nfc":
            out[(p[0], p[1])] = p[2]
    return out


def hx(units):
    return hexs(units)


def cstr_hex(h):
    u = unhexs(h)
    return hexs(u[:u.index(0)] if 0 in u else u)


def oracle_buf(t, impl):
    fn, mode, srclen, mem = t[2], t[3], int(t[4]), unhexs(t[5])
    hd = impl.split(" |")[0].split()
    if not hd or hd[0] != "nb":
        return None
    if "icu-failed" in impl:
        return "executor / ICU set-up failed: " + impl[:120]
    f = dict(x.split("=", 1) for x in hd[1:])
    block = mem + ([0] if mode == "z" else [])
    x = block[:srclen] if srclen >= 0 else block[:block.index(0)]
    cs = block[:block.index(0)] if 0 in block else block
    R = refs(impl)
    tr = [] if f["tr"] == "-" else f["tr"].split(",")
    for e in tr:
        if e.startswith("!"):
            return "memory safety: %s (trace %s)" % (e[1:], f["tr"])
    ncalls = sum(1 for e in tr if e.startswith("i"))
    live = sum(1 for e in tr if e.startswith("m")) - sum(1 for e in tr if e == "f")
    # expected verdict / result, from the CIF rules (names) and ICU's own results (strings)
    if fn in ("name", "item"):
        if not _valid.spec_name(cs, fn == "item"):
            want_rc = {"name": 12, "item": 42}[fn]
            return None if f["rc"] == str(want_rc) and not tr else "invalid name: rc=%s trace=%s, expected %d and no allocation" % (f["rc"], f["tr"], want_rc)
    if fn == "tbl" and not _valid.spec_key(cs):
        return None if f["rc"] == "73" and not tr else "invalid table key: rc=%s trace=%s, expected 73 and no allocation" % (f["rc"], f["tr"])
    if f["rc"] != "0":
        return "%s failed with code %s on a source inside its block" % (fn, f["rc"])
    hxs = hx(x)
    if fn[:3] in ("nfd", "nfc") or fn == "fold":
        key = {"nfd": "n", "nfc": "c", "fol": "f"}[fn[:3]]
        ref = R.get((key, hxs))
        if ref is None:
            return "executor did not report ICU's result for the logical string"
        if f["out"] != ref or int(f["len"]) != len(unhexs(ref)):
            return "%s of the logical string %s: got %s (length %s), ICU gives %s" % (fn, hxs, f["out"], f["len"], ref)
        if fn.endswith("1") and f["term"] != "1":
            return "terminator requested but result[length] is not a NUL inside the block"
        if int(f["cap"]) < int(f["len"]):
            return "result longer than its block"
        if not 1 <= ncalls <= 2:
            return "%d ICU calls in one stage (trace %s)" % (ncalls, f["tr"])
        if live != 1:
            return "blocks allocated minus released = %d, expected 1 (trace %s)" % (live, f["tr"])
        return None
    if fn == "tbl":
        ref = R.get(("c", hxs))
        want = None if ref is None else cstr_hex(ref)
        stages = 1
    else:
        d = R.get(("n", hxs))
        fo = R.get(("f", d)) if d is not None else None
        ref = R.get(("c", fo)) if fo is not None else None
        want = None if ref is None else cstr_hex(ref)
        stages = 3
    if want is None:
        return "executor did not report ICU's results for the stages"
    if fn == "norm0":
        if f["out"] != "~" or live != 0:
            return "normalized == NULL: blocks allocated minus released = %d (trace %s)" % (live, f["tr"])
    else:
        if f["out"] != want:
            return "%s of the logical string %s: C string at the result is %s, ICU's NFC(fold(NFD)) / NFC gives %s" % (fn, hxs, f["out"], want)
        if int(f["cap"]) < len(unhexs(ref)) + 1:
            return "result block of %s units cannot hold the %d units + terminator" % (f["cap"], len(unhexs(ref)))
        if live != 1:
            return "blocks allocated minus released = %d, expected 1 (trace %s)" % (live, f["tr"])
    if not stages <= ncalls <= 2 * stages:
        return "%d ICU calls for %d stage(s) (trace %s)" % (ncalls, stages, f["tr"])
    return None


def oracle_icu(t, impl):
    fn, cap, x = t[2], int(t[3]), t[4]
    hd = impl.split(" |")[0].split()
    if not hd or hd[0] != "ic":
        return None
    f = dict(y.split("=", 1) for y in hd[1:])
    ref = refs(impl).get(({"nfd": "n", "nfc": "c", "fold": "f"}[fn], x))
    if ref is None:
        return "executor / ICU set-up failed: " + impl[:120]
    n = len(unhexs(ref))
    B = "BROKEN ASSUMPTION: ICU violates the capacity contract (CallContract): "
    if f["guard"] != "1":
        return B + "%s wrote at or behind dest[capacity] (capacity %d)" % (fn, cap)
    if int(f["len"]) != n:
        return B + "%s returned length %s, the result has %d units (capacity %d)" % (fn, f["len"], n, cap)
    want = "z" if n < cap else ("w" if n == cap else "o")
    if f["st"] != want:
        return B + "%s with capacity %d for a result of %d units reported status %s, contract says %s" % (fn, cap, n, f["st"], want)
    if want != "o" and f["w"] != ref:
        return B + "%s wrote %s, the result is %s" % (fn, f["w"], ref)
    if want == "z" and f["nul"] != "1":
        return B + "%s did not terminate a result that fits with room to spare" % fn
    return None


def nontrivial(req, impl):
    return any(len(x) >= 4 and any(int(x[i:i + 4], 16) > 0x7f for i in range(0, len(x) - 3, 4))
               for tok in req.split()[2:] for x in tok.split(":") if all(c in "0123456789abcdef" for c in x) and len(x) % 4 == 0 and x)


def classify(req, impl):
    t = req.split()
    if t[1] == "cp":
        g, _ = graph(impl)
        e = g.get(t[2])
        if not e:
            return "cp/?"
        return "cp/" + ("unchanged" if e[2] == t[2] else ("fold-only" if e[0] == t[2] and e[3] == t[2] else "decomposing"))
    if t[1] == "buf":
        f = dict(x.split("=", 1) for x in impl.split(" |")[0].split()[1:] if "=" in x)
        pat = "".join(e.rsplit(":", 1)[1] for e in f.get("tr", "-").split(",") if e.startswith("i"))
        return "buf/%s/%s" % (t[2], pat or ("rc" + f.get("rc", "?")))
    if t[1] == "icu":
        f = dict(x.split("=", 1) for x in impl.split(" |")[0].split()[1:] if "=" in x)
        return "icu/%s/%s" % (t[2], f.get("st", "?"))
    return t[1] + "/" + t[2]


def finding_class(req, impl, model, why):
    return None
