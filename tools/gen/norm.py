"""family `norm` (C09): cif_normalize against NFC(foldCase(NFD(x))) assembled by the executor from ICU primitives; matching of
block codes / frame codes / item names under variant spellings through the API; table keys and packet item names (map.c);
and a test of every assumed `Laws` field against ICU on the same data."""
import os, sys, unicodedata
sys.path.insert(0, os.path.dirname(os.path.abspath(__file__)))
from common import hexs, unhexs, rng
import valid as _valid

FAMILY = "norm"
HARNESS = {"source": "x_norm.c", "leak_clean": True}
RULE = ("quick: every BMP code point with a canonical decomposition, a case folding or a non-zero combining class, every Hangul "
        "syllable and jamo, lone surrogates (about 30 000 single code points); thorough: all 1 114 112 code points; plus seeded "
        "sequences of 2-6 such units (incl. U+0345, U+1E9E, U+0130, Hangul L/V/T, reordered marks); pairs of spellings (case "
        "variants, NFC / NFD, reordered marks, unrelated) created / looked up / re-created as block, frame and item; op sequences on "
        "tables and packets under variant keys; non-trivial = non-ASCII input; oracle: cif_normalize(x) = NFC(fold(NFD x)) from "
        "ICU primitives, idempotent, invariant under NFD/NFC of the input; found / duplicate iff the normal forms coincide; table "
        "keys by NFC only, most recent spelling enumerated; every assumed law holds in ICU on the data")

INVALID = {"block": 12, "frame": 22, "item": 42}
DUP = {"block": 11, "frame": 21, "item": 41}
NOSUCH = {"block": 13, "frame": 23, "item": 43}
NOSUCH_ITEM, INVALID_INDEX, INVALID_ITEMNAME = 43, 73, 42
SPECIAL = [0x345, 0x1e9e, 0xdf, 0x130, 0x131, 0x49, 0x69, 0x307, 0x17f, 0x212a, 0x212b, 0xc5, 0x41, 0x30a, 0x323, 0x3a3, 0x3c3, 0x3c2,
           0x1100, 0x1161, 0x11a8, 0xac00, 0xac01, 0x390, 0x1fd3, 0xfb06, 0x1f80, 0x3b9, 0x308, 0x301, 0x327, 0x328, 0x61, 0x5f, 0xb5, 0x3bc,
           0x1e9b, 0x1e61, 0x0f73, 0x0f71, 0x0f72, 0x0344, 0x2126, 0x3a9, 0x1f88, 0x1fb3, 0x1fbc]

_interesting = None


def interesting():
    global _interesting
    if _interesting is None:
        out = []
        for cp in range(1, 0x10000):
            if 0xd800 <= cp <= 0xdfff:
                continue
            c = chr(cp)
            d = unicodedata.decomposition(c)
            if (d and not d.startswith("<")) or unicodedata.combining(c) or c.casefold() != c or c.lower() != c or c.upper() != c:
                out.append(cp)
        out += list(range(0x1100, 0x1200)) + list(range(0xac00, 0xd7a4))
        out += [0xd800, 0xdbff, 0xdc00, 0xdfff]
        _interesting = sorted(set(out) | set(SPECIAL))
    return _interesting


def units_of(cp):
    if cp > 0xffff:
        cp -= 0x10000
        return [0xd800 + (cp >> 10), 0xdc00 + (cp & 0x3ff)]
    return [cp]


def to_units(s):
    out = []
    for ch in s:
        out += units_of(ord(ch))
    return out


def variants(r, w):
    """spellings related to the string w (a python str): canonical and case variants, and an unrelated one"""
    v = [w, unicodedata.normalize("NFD", w), unicodedata.normalize("NFC", w), w.upper(), w.lower(), w.casefold(), w.swapcase(),
         unicodedata.normalize("NFD", w.upper()), unicodedata.normalize("NFC", w.casefold()), w + "x", w[:-1] if len(w) > 1 else w + "y"]
    # reorder two adjacent combining marks of different non-zero class (canonically equivalent) or equal class (not equivalent)
    d = list(unicodedata.normalize("NFD", w))
    for i in range(len(d) - 1):
        if unicodedata.combining(d[i]) and unicodedata.combining(d[i + 1]):
            e = d[:]
            e[i], e[i + 1] = e[i + 1], e[i]
            v.append("".join(e))
            break
    return v


def rand_word(r, pool, n):
    return "".join(chr(r.choice(pool)) for _ in range(n))


def generate(seed, tier):
    r = rng(seed, FAMILY)
    pool = [cp for cp in interesting() if not 0xd800 <= cp <= 0xdfff]
    namepool = [cp for cp in pool if _valid.cif_char_ok(cp, False)]
    if tier == "thorough":
        for cp in range(1, 0x110000):
            yield "norm cp " + hexs(units_of(cp) if not 0xd800 <= cp <= 0xdfff else [cp])
    else:
        for cp in interesting():
            yield "norm cp " + hexs([cp])
        for cp in [0x10400, 0x10428, 0x1d15e, 0x1d157, 0x1d165, 0x2f800, 0x1109a, 0x11099, 0x110ba, 0x1e900, 0x1e922, 0x10ffff, 0x1fffe, 0x16e40]:
            yield "norm cp " + hexs(units_of(cp))
    for _ in range(4000 if tier == "quick" else 80000):
        n = r.randrange(2, 7)
        s = []
        for _ in range(n):
            s += units_of(r.choice(SPECIAL) if r.random() < 0.4 else r.choice(pool))
        yield "norm cp " + hexs(s[:8])
    for _ in range(240 if tier == "quick" else 4000):
        kind = r.choice(["block", "frame", "item"])
        w = rand_word(r, namepool if r.random() < 0.7 else [c for c in SPECIAL if _valid.cif_char_ok(c, False)], r.randrange(1, 5))
        vs = variants(r, w)
        a, b = r.choice(vs[:3] + [w]), r.choice(vs)
        pre = "_" if kind == "item" else ""
        yield "norm match %s %s %s" % (kind, hexs(to_units(pre + a)), hexs(to_units(pre + b)))
    for _ in range(1200 if tier == "quick" else 20000):
        what = r.choice(["tbl", "pkt"])
        base = [rand_word(r, namepool if r.random() < 0.6 else [c for c in SPECIAL if _valid.cif_char_ok(c, False)], r.randrange(1, 4)) for _ in range(2)]
        keys = []
        for w in base:
            keys += variants(r, w)[:9]
        if what == "tbl":
            keys += ["", " ", "a b", w + " ", "\t"]
            if r.random() < 0.1:
                keys.append("\x01")
        else:
            keys = ["_" + k for k in keys] + (["a", "_"] if r.random() < 0.2 else [])
        ops = []
        for j in range(r.randrange(3, 9)):
            k = hexs(to_units(r.choice(keys)))
            c = r.random()
            if c < 0.5:
                ops.append("s:%s:%04x" % (k, 0x30 + j))
            elif c < 0.75:
                ops.append("g:%s" % k)
            elif c < 0.85:
                ops.append("r:%s" % k)
            else:
                ops.append("k")
        ops.append("k")
        yield "norm map %s %s" % (what, " ".join(ops))


def model_request(req, impl):
    g = impl.partition(" | ")[2]
    return req + " | " + g if g else req


def graph(impl):
    """{x: (nfd, fold, pipeline, nfc x)} from the executor's ICU observations"""
    out, extra = {}, {}
    for tok in impl.partition(" | ")[2].split():
        p = tok.split(":")
        if p[0] == "g" and len(p) == 6:
            out[p[1]] = tuple(p[2:])
        elif "=" in tok:
            k, v = tok.split("=", 1)
            extra[k] = v
        elif p[0] == "g":
            out[None] = tok
    return out, extra


def head(impl):
    return impl.split(" |")[0].rstrip()


def agree(impl, model, req=None):
    h = head(impl).split()
    if req and req.split()[1] == "cp":
        return h[:3] == model.split()
    return h == model.split()


LAW_NAMES = ["nfd_nfc (NFD(NFC y) = NFD y)", "nfc_nfd (NFC(NFD y) = NFC y)", "fold_stable (NFD fold NFD fold NFD x = NFD fold NFD x)"]


def oracle(req, impl):
    t = req.split()
    h = head(impl).split()
    if not h or h[0] != "nm":
        return None
    g, extra = graph(impl)
    if None in g or "setup-failed" in impl:
        return "executor / ICU set-up failed: " + impl[:120]
    if t[1] == "cp":
        f = dict(x.split("=", 1) for x in h[1:])
        laws = extra.get("laws", "")
        for i, ch in enumerate(laws):
            if ch != "1":
                return "BROKEN ASSUMPTION: ICU violates law %s on this input" % LAW_NAMES[i]
        ref = g[t[2]][2]
        if f["rc"] != "0":
            return "cif_normalize failed with code " + f["rc"]
        if f["out"] != ref:
            return "cif_normalize = %s but NFC(foldCase(NFD x)) = %s" % (f["out"], ref)
        if f["idem"] != "1":
            return "cif_normalize is not idempotent on this input"
        if f["inv"] != "1":
            return "cif_normalize differs between x, NFD(x) and NFC(x)"
        return None
    if t[1] == "match":
        kind, a, b = t[2], t[3], t[4]
        f = {k: int(v) for k, v in (x.split("=", 1) for x in h[1:])}
        ua, ub = unhexs(a), unhexs(b)
        va, vb = _valid.spec_name(ua, kind == "item"), _valid.spec_name(ub, kind == "item")
        if f["ca"] != (0 if va else INVALID[kind]):
            return "create %s under the first spelling returned %d" % (kind, f["ca"])
        if not va:
            return None
        same = g[a][2] == g[b][2]
        want_cb = INVALID[kind] if not vb else (DUP[kind] if same else 0)
        want_gb = (NOSUCH[kind] if kind == "item" else INVALID[kind]) if not vb else (0 if same else NOSUCH[kind])
        if f["cb"] != want_cb:
            return "create %s under the second spelling returned %d; normal forms %s: expected %d" % (kind, f["cb"], "coincide" if same else "differ", want_cb)
        if f["gb"] != want_gb:
            return "look-up of %s under the second spelling returned %d; normal forms %s: expected %d" % (kind, f["gb"], "coincide" if same else "differ", want_gb)
        return None
    if t[1] == "map":
        is_tbl = t[2] == "tbl"
        table = {}                      # normal form -> (spelling, tag)
        res = h[1:]
        ops = t[3:]
        if len(res) != len(ops):
            return "answer has %d results for %d operations" % (len(res), len(ops))
        for op, got in zip(ops, res):
            p = op.split(":")
            if p[0] == "k":
                want = "k=[%s]" % ",".join(sorted(sp for sp, _ in table.values()))
            else:
                u = unhexs(p[1])
                ok = _valid.spec_key(u) if is_tbl else _valid.spec_name(u, True)
                nf = g[p[1]][3] if is_tbl else g[p[1]][2]
                if p[0] == "s":
                    if ok:
                        table[nf] = (p[1], p[2])
                        want = "s=0"
                    else:
                        want = "s=%d" % (INVALID_INDEX if is_tbl else INVALID_ITEMNAME)
                elif p[0] == "g":
                    want = "g=0/%s" % table[nf][1] if ok and nf in table else "g=%d/~" % NOSUCH_ITEM
                else:
                    if ok and nf in table:
                        del table[nf]
                        want = "r=0"
                    else:
                        want = "r=%d" % NOSUCH_ITEM
            if got != want:
                return "%s %s: got %s, matching by %s gives %s" % ("table" if is_tbl else "packet", op, got,
                                                                  "NFC (case significant)" if is_tbl else "cif_normalize", want)
        return None
    return None


def nontrivial(req, impl):
    return any(len(x) >= 4 and any(int(x[i:i + 4], 16) > 0x7f for i in range(0, len(x) - 3, 4))
               for tok in req.split()[2:] for x in tok.split(":") if all(c in "0123456789abcdef" for c in x) and len(x) % 4 == 0 and x)


def classify(req, impl):
    t = req.split()
    if t[1] == "cp":
        g, _ = graph(impl)
        e = g.get(t[2])
        if not e:
            return "cp/?"
        return "cp/" + ("unchanged" if e[2] == t[2] else ("fold-only" if e[0] == t[2] and e[3] == t[2] else "decomposing"))
    return t[1] + "/" + t[2]


def finding_class(req, impl, model, why):
    return None
