"""family `decode` (C02, C13; text cases of C01): the file-static decode_text() of parser.c on text-field bodies.

Two streams:
  * arbitrary raw bodies over the protocol-relevant alphabet (backslash, blank, tab, LF, CR, ';', '>' …) under all four
    (line_unfolding, prefix_removing) settings — model against implementation;
  * bodies produced by an independent reference ENCODER of the CIF line-folding / text-prefix protocols (arbitrary
    admissible prefix, arbitrary fold points, optional trailing blanks after markers and fold separators, LF / CR LF / CR
    terminators) from a known text — the oracle demands that the implementation decodes them back to that text."""
import os, sys
sys.path.insert(0, os.path.dirname(os.path.abspath(__file__)))
from common import rng, hexs, unhexs

FAMILY = "decode"
HARNESS = {"source": "x_decode.c", "exclude_objs": ["parser"], "leak_clean": True}
RULE = ("raw text-field bodies of length 0-16 over {a b \\ SP TAB LF CR ; > '} and longer structured ones, x (line_unfolding, "
        "prefix_removing) in {0,1}^2; plus reference-encoded bodies (random prefix, random fold points, CR / CR LF / LF); "
        "non-trivial = the body contains a backslash or a CR; oracle (implementation only): an encoded body decodes to the text "
        "it was encoded from; with both protocols disabled the result is the EOL-normalised body")

ALPHA = list("ab\\\\  \t\n\n\r;>'")
PREFIXES = ["> ", ">", "x", "# ", "a b", "  ", ">>>", "'", "|;"]


def rand_raw(r):
    k = r.random()
    if k < 0.55:
        n = r.choice([0, 1, 2, 3, 4, 5, 6, 8, 10, 16])
        return "".join(r.choice(ALPHA) for _ in range(n))
    # structured: a first line that looks (almost) like a marker, then lines with / without the prefix
    pre = r.choice(PREFIXES + ["", "", ";", "\\"])
    first = pre + r.choice(["\\", "\\\\", "\\ ", "\\\\\t", "\\a", "", "\\ \\", "a\\", "\\\\\\"])
    lines = [first]
    for _ in range(r.randint(0, 4)):
        body = r.choice(["", "a", "ab\\", "ab\\ ", "a\\b", "\\", ";", " ", "a\\\\", "\\ \t"])
        lines.append(r.choice([pre, pre, pre[:1], "", pre + pre]) + body)
    out = ""
    for i, l in enumerate(lines):
        out += l
        if i + 1 < len(lines) or r.random() < 0.3:
            out += r.choice(["\n", "\n", "\n", "\r\n", "\r"])
    return out


def split_segments(r, line, dense):
    """arbitrary fold points: non-empty segments whose concatenation is the line"""
    if not line:
        return [line]
    segs, i = [], 0
    while i < len(line):
        if r.random() < dense:
            j = i + r.randint(1, max(1, min(6, len(line) - i)))
        else:
            j = len(line)
        segs.append(line[i:j])
        i = j
    return segs


def ends_bsl_blank(s):
    t = s.rstrip(" \t")
    return t.endswith("\\")


def encode(r, text, fold, prefix, strict_prefix=True, eol_choice=None):
    """reference encoder: the BODY of a text field (between the opening ';' and the closing EOL + ';')"""
    def ws():
        return r.choice(["", "", "", " ", "\t", "  "])

    def eol():
        e = eol_choice(r) if eol_choice else "\n"
        if e == "\n" and out.endswith("\r"):
            e = "\r\n"          # a lone CR followed by a lone LF would read as ONE terminator
        return e
    pre = prefix or ""
    out = pre + ("\\" if prefix else "") + ("\\" if fold else "") + ws()
    for line in text.split("\n"):
        if not fold:
            out += eol() + (pre if (line or strict_prefix) else "") + line
            continue
        segs = split_segments(r, line, r.choice([0.0, 0.3, 0.8]))
        for k, seg in enumerate(segs):
            last = k + 1 == len(segs)
            out += eol() + (pre if (seg or strict_prefix) else "") + seg
            if not last:
                out += "\\" + ws()
            elif ends_bsl_blank(seg):
                # a logical line ending in backslash (+ blanks): protect it with a fold separator and an empty continuation
                out += "\\" + ws() + eol() + (pre if strict_prefix else "")
    return out


def rand_text(r):
    k = r.random()
    if k < 0.6:
        n = r.choice([1, 2, 3, 4, 6, 8, 12])
        return "".join(r.choice(list("ab\\\\  \t\n\n;>'")) for _ in range(n)) or "a"
    parts = [r.choice(["", "a", "a\\", "a\\ ", "\\", ";", ";a", "> x", " ", "ab cd", "\\\\", "a\\b"]) for _ in range(r.randint(1, 5))]
    return "\n".join(parts) or "a"


def generate(seed, tier):
    r = rng(seed, FAMILY)
    n_raw, n_enc = (1500, 1500) if tier == "quick" else (60000, 60000)
    for _ in range(n_raw):
        raw = rand_raw(r)
        if "\0" in raw:
            continue
        for u in (0, 1):
            for p in (0, 1):
                if tier == "quick" and r.random() < 0.5 and (u, p) != (1, 1):
                    continue
                yield "decode %d %d %s" % (u, p, hexs(raw))
    for _ in range(n_enc):
        text = rand_text(r)
        fold = r.random() < 0.6
        prefix = r.choice(PREFIXES) if (r.random() < 0.6 or not fold) else None
        strict = r.random() < 0.6
        kind = r.random()
        if kind < 0.7:
            ec = None
        elif kind < 0.85:
            ec = (lambda rr: "\r\n")
        else:
            ec = (lambda rr: rr.choice(["\n", "\r\n", "\r"]))
        if ec is not None and "\n" in text and not fold and not prefix:
            continue
        body = encode(r, text, fold, prefix, strict, ec)
        yield "decode 1 1 %s %s" % (hexs(body), hexs(text))


def _fields(impl):
    t = impl.split(" ")
    if len(t) != 3 or t[0] != "dc":
        return None
    return t[1][3:], t[2][5:]


def eol_normal(units):
    out, i = [], 0
    while i < len(units):
        if units[i] == 13:
            out.append(10)
            if i + 1 < len(units) and units[i + 1] == 10:
                i += 1
        else:
            out.append(units[i])
        i += 1
    return out


def oracle(req, impl):
    t = req.split(" ")
    f = _fields(impl)
    if f is None:
        return None
    rc, text = f
    if rc != "0":
        return "decode_text failed with code %s" % rc
    got = unhexs(text)
    if len(t) == 6 or len(t) == 5:
        want = unhexs(t[4])
        if got != want:
            return "an encoded text field does not decode to the text it was encoded from"
    elif t[1] == "0" and t[2] == "0":
        if got != eol_normal(unhexs(t[3])):
            return "with both protocols disabled the body must only be EOL-normalised"
    return None


def nontrivial(req, impl):
    raw = unhexs(req.split(" ")[3]) or []
    return 92 in raw or 13 in raw


def classify(req, impl):
    t = req.split(" ")
    if len(t) >= 5:
        raw = unhexs(t[3]) or []
        first = raw[:raw.index(10)] if 10 in raw else raw
        first = first[:first.index(13)] if 13 in first else first
        n = first.count(92)
        return "encoded:" + ("prefix+fold" if n == 2 else ("fold" if first[:1] == [92] else "prefix"))
    return "raw:u%s,p%s" % (t[1], t[2])


def shrink(req):
    t = req.split(" ")
    if len(t) >= 5:
        return
    units = unhexs(t[3]) or []
    n = len(units)
    step = max(1, n // 2)
    while step >= 1:
        for s in range(0, n, step):
            yield " ".join(t[:3] + [hexs(units[:s] + units[s + step:])])
        if step == 1:
            break
        step //= 2


def finding_class(req, impl, model, why):
    return None
