"""family `oom` (C17): one failed allocation per public API call, every allocation site reached, three allocator classes"""
import os, re, sys
sys.path.insert(0, os.path.dirname(os.path.abspath(__file__)))

FAMILY = "oom"
HARNESS = {"source": "x_oom.c", "leak_clean": True}
ENV = {"VERIF_LEAKCHECK": "1"}
RULE = ("phase 1: every operation of harness/x_oom.c x allocator class {lib, sq, icu} with k=0 (count allocations); phase 2: "
        "exhaustive - for every (operation, class) each k = 1..n fails the k-th allocation of that class made during the call; "
        "non-trivial = the fault fired; histogram labels lib:<operation>:<proved|leaf|observed> = census of the library-class fault sites by "
        "whether the function containing the failing request has a proved clean-up ladder (LADDER_FUNCS); oracle: result is CIF_MEMORY_ERROR/CIF_ERROR, managed CIF and caller-owned objects dump "
        "unchanged, the repeated call succeeds, no sanitizer report, nothing leaked")
CLASSES = ["lib", "sq", "icu"]
MAXK = {"quick": 40, "thorough": 100000}      # quick: the first 40 (library class: 160, SQLite class: 120) sites per (operation, class); thorough: all


def generate(seed, tier):
    yield "oom ops"


def second_phase(reqs, impl, seed, tier):
    """phase 2: count requests for every operation x class; phase 3: one request per allocation site"""
    if len(reqs) == 1 and impl and impl[0].startswith("om ops"):
        ops = impl[0].split(" hooks")[0].split()[2:]
        return ["oom %s %s 0" % (op, c) for op in ops for c in CLASSES]
    if reqs and all(len(r.split()) == 4 and r.split()[3] == "0" for r in reqs):
        return expand(reqs, impl, tier)
    return []


def _field(obs, name):
    m = re.search(r"\b%s=(\S+)" % name, obs)
    return m.group(1) if m else None


def expand(reqs, impl, tier):
    out = []
    for r, i in zip(reqs, impl):
        t = r.split()
        if len(t) == 4 and t[3] == "0":
            n = _field(i, "n")
            if n and n.isdigit():
                lim = MAXK[tier] * (4 if t[2] == "lib" else (3 if t[2] == "sq" else 1))   # SQLite: preparing one statement alone makes ~100 requests
                for k in range(1, min(int(n), lim) + 1):
                    out.append("oom %s %s %d" % (t[1], t[2], k))
    return out


# ---- which allocation sites lie inside a function whose clean-up ladder is modelled and PROVED balanced (family `ladder`,
# Props/C17*.lean)?  The site is the innermost library function that contains the failing request (uthash's requests are
# macro expansions inside the library function).  Three groups:
#   proved   - the function's own allocation-failure paths are a ladder with a `C17_*_balanced` theorem
#   leaf     - the function makes that one request and returns NULL / an error without any clean-up of its own; what
#              happens next is decided by its caller (which may or may not be a proved ladder)
#   observed - everything else: only this fault enumeration executes the failure path
LADDER_FUNCS = {
    "value.c:cif_value_clone": "C17_clone_any_balanced", "value.c:cif_value_clone_numb": "C17_clone_any_balanced",
    "value.c:cif_value_clone_list": "C17_clone_any_balanced", "value.c:cif_value_clone_table": "C17_clone_any_balanced",
    "value.c:cif_value_deserialize": "C17_deser_any_balanced", "value.c:cif_list_deserialize": "C17_deser_any_balanced",
    "value.c:cif_table_deserialize": "C17_deser_any_balanced", "value.c:cif_value_parse_numb": "C17_deser_any_balanced",
    "value.c:cif_value_insert_element_at": "C17_insert_balanced", "value.c:cif_value_set_element_at": "C17_set_element_balanced",
    "value.c:cif_value_copy_char": "C17_copy_char_balanced",
    "packet.c:cif_packet_create": "C17_packet_create_balanced", "packet.c:cif_packet_create_norm": "C17_packet_create_balanced / C17_next_packet_balanced",
    "loop.c:dup_ustrings": "C17_dup_ustrings_balanced", "loop.c:cif_loop_get_names_internal": "C17_get_names_balanced / C17_get_names_norm_balanced",
    "loop.c:cif_loop_get_packets": "C17_get_packets_balanced", "pktitr.c:cif_pktitr_next_packet": "C17_next_packet_balanced",
    "map.c:cif_map_set_item": "C17_map_set_balanced", "map.c:cif_map_retrieve_item": "C17_map_remove_balanced",
    "parser.c:parse_loop_header": "C17_loop_header_balanced",
    "utils.c:cif_unicode_normalize": "normalize_spec (ASCII: one request per call)", "utils.c:cif_fold_case": "normalize_spec (ASCII)",
    "utils.c:cif_normalize": "normalize_spec (ASCII)",
    "container.c:cif_container_get_all_loops": "C17_get_all_loops_balanced",
}
LEAF_FUNCS = {"utils.c:cif_u_strdup", "value.c:cif_value_create", "value.c:cif_buf_create"}


def site_group(site):
    return "proved" if site in LADDER_FUNCS else "leaf" if site in LEAF_FUNCS else "observed"


def nontrivial(req, impl):
    return _field(impl, "fired") == "1" or "@" in impl


def classify(req, impl):
    t = req.split()
    if len(t) < 4:
        return "ops"
    if t[3] == "0":
        return "count:" + t[2]
    if t[2] == "lib" and _field(impl, "fired") == "1":
        # census: per operation, is the failing library request inside a function with a proved ladder?
        return "lib:%s:%s" % (t[1], site_group(_field(impl, "site")))
    return "fault:%s:%s" % (t[2], "fired" if _field(impl, "fired") == "1" or "@" in impl else "notreached")


def oracle(req, impl):
    t = req.split()
    if len(t) < 4 or not impl.startswith("om "):
        return None
    if re.search(r"!LEAK\d*$", impl):
        return "memory leaked (failing allocation at %s)" % _field(impl, "site")
    rc, fired = _field(impl, "rc"), _field(impl, "fired")
    if t[3] == "0":
        if rc != "0":
            return "fault-free call of %s returned %s" % (t[1], rc)
        if _field(impl, "same") != "1":
            return "harness scenario is not restored by the fault-free run of %s" % t[1]
        return None
    if fired != "1":
        # the fault position lies beyond the last allocation of the call: this is a fault-free run and is judged as one
        if rc != "0":
            return "call of %s without a fired fault (k beyond its allocations) returned %s" % (t[1], rc)
        if _field(impl, "same") != "1":
            return "harness scenario is not restored by the run of %s in which no fault fired" % t[1]
        return None
    site = _field(impl, "site")
    if rc not in ("2", "3"):
        # A call that succeeds although one allocation failed: acceptable only for SQLite's allocator class - SQLite has
        # fall-backs of its own (lookaside, page-cache spill, retry without the optional buffer; 51 of 13 895 sites in the
        # census of /repo 3148ec3, all class sq) - and only if the operation demonstrably did its work: the harness's
        # operation + undo cycle left the scenario as it was (same=1) and the repeated call succeeds too.  A failed
        # allocation of the library itself or of ICU must surface as an error code.
        if rc == "0" and t[2] == "sq" and _field(impl, "same") == "1" and _field(impl, "retry") == "0":
            return None
        return "allocation failure at %s: call returned %s (expected CIF_MEMORY_ERROR or CIF_ERROR)" % (site, rc)
    if _field(impl, "same") != "1":
        return "allocation failure at %s: managed CIF or caller-owned objects changed although the call failed" % site
    if _field(impl, "retry") != "0":
        return "allocation failure at %s: repeating the call with memory available returned %s" % (site, _field(impl, "retry"))
    return None


def finding_class(req, impl, model, why):
    """keyed by operation, allocator class, the source location (file:function) of the failing allocation, and the consequence.
    This only NAMES a failure that the oracle (or a sanitizer / crash) has already established; it cannot hide one: a class is
    suppressed only if known_findings lists it for family oom, and since /repo 3148ec3 no such entry exists (tools/check.py
    prints every other class as a VIOLATION).  Every return value is non-None for a 4-token request, so an unexpected
    observation format is still keyed (site `None` / consequence `retry=None`) instead of falling through."""
    t = req.split()
    if len(t) < 4:
        return None
    site = _field(impl, "site") if impl.startswith("om ") else (impl.split("@", 1)[1] if "@" in impl else "?")
    if impl.startswith("om "):
        if re.search(r"!LEAK\d*$", impl):
            cons = "leak"
        elif _field(impl, "rc") not in ("2", "3"):
            cons = "rc=" + str(_field(impl, "rc"))
        elif _field(impl, "same") != "1":
            cons = "changed"
        else:
            cons = "retry=" + str(_field(impl, "retry"))
    else:
        cons = impl.split("@")[0]
        cons = ":".join(cons.split(":")[:3])       # SAN:asan:<kind>
    return "%s/%s/%s/%s" % (t[1], t[2], site, cons)


def agree(impl, model, req=None):
    # the model side of C17 is the cleanup-ladder model (family `ladder`); this family is implementation-only
    return True


def model_request(req, impl):
    return "oomnull"
