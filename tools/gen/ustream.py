"""family `ustream`: the REAL character source of cif_parse — the file-static ustream_read_chars() with its ICU to-Unicode
callback (src/ciffile.c) — on a byte string behind a real FILE*, driven by a sequence of request sizes (harness/x_ustream.c).

  ustream <enc> <setup> <ver> <policy> <bytes> <counts>  ->  us <ret>:<ec>:<units|->:<codes joined by +|->;…   (one per call)

    enc    utf8 | utf16le | utf16be
    setup  s = the first 4096 bytes were read before the first call (cif_parse sniffing the encoding) | f = nothing read yet
    ver    1 | 2   scanner.cif_version: replacement unit '*' (002a) resp. U+FFFD
    policy a | d | r<k>:<v>   answers of the error callback (always 0 | the code | report number k answers v)
    bytes  4 hex digits per byte, `-` = empty file;   counts  comma-separated `count` arguments (0 / negative allowed)

The generator aims the 4096-byte refill boundary of the byte buffer (k = 1, 2) at every byte of 1..4-byte UTF-8 characters,
of malformed sequences of every kind, and of UTF-16 surrogate pairs; and the END OF THE DESTINATION at surrogate pairs and
at malformed sequences (one slot free / exactly full), for request sizes 1, 2, 3, 4095, 4096, 4097, 100000 and mixes.

The oracle looks at the implementation's observation only and compares it with an independent reference decoder
(ref_decode: Unicode Table 3-7, one report + one replacement unit per maximal subpart of an ill-formed subsequence — the
same grouping as Python's bytes.decode('utf-8', 'replace'); UTF-16: one per unpaired surrogate, one for an odd last byte):
  accept-all: the calls deliver exactly the reference units, in order, nothing lost or duplicated at any alignment; a call with
  count >= 1 returns 1..count units until the end, 0 from the end on (and the end only after everything was delivered);
  count <= 0 returns 0 and touches nothing; one report (CIF_INVALID_CHAR) per reference error, none before its turn;
  refusing policies: the call in which the refused report is made returns -1 with *error_code = the answer, reports stop
  there, what was delivered before is a prefix of the reference units that ends before the refused error's place."""
import bisect, os, re, sys
sys.path.insert(0, os.path.dirname(os.path.abspath(__file__)))
from common import rng

FAMILY = "ustream"
HARNESS = {"source": "x_ustream.c", "exclude_objs": ["ciffile"], "leak_clean": True}
RULE = ("texts of 1/2/3/4-byte UTF-8 characters, 17 kinds of malformed sequences, UTF-16LE/BE surrogate pairs, lone surrogates "
        "and odd tails, each placed at every byte offset -4..+1 around the refill boundaries 4096 and 8192 (ASCII / 2-byte / "
        "3-byte filler in front), at the end of the file and in short texts; x setup {sniffed, forced} x CIF version {1, 2} x "
        "callback policy {accept, die, r0:-1, r0:7, r1:5} x request sizes {1, 2, 3, 4095, 4096, 4097, 100000, random mixes, 0 and "
        "-1 interspersed}, incl. the destination exactly full / one slot free when a malformed sequence resp. a surrogate pair "
        "arrives; file sizes 0, 1, 4096k, 4096k +- 1; random mixes up to ~9000 bytes. non-trivial = more than one buffer "
        "(> 4096 bytes), or a report was made, or a surrogate pair was split between two calls. oracle (implementation only): "
        "independent reference decoder (Unicode Table 3-7, maximal subparts), delivery = reference units exactly once in order, "
        "1..count units per call until the end, then 0 for ever, count <= 0 -> 0, reports = reference errors, a refused report "
        "ends the run with -1 and *error_code = the answer")

BLOCK = 4096
INVALID_CHAR, UNMAPPED_CHAR = 102, 103          # src/cif.h
REPL = {1: 0x2A, 2: 0xFFFD}                     # REPL1_CHAR, REPL_CHAR (src/internal/ciftypes.h)
BIG = 100000
SIZES = [1, 2, 3, 7, 64, 4095, 4096, 4097, BIG]

CH = {1: b"a", 2: "\u00e9".encode(), 3: "\u20ac".encode(), 4: "\U0001F600".encode()}
BAD8 = [("c3", b"\xc3"), ("e282", b"\xe2\x82"), ("f09f98", b"\xf0\x9f\x98"),                      # truncated (at EOF) / lead + ASCII
        ("c0af", b"\xc0\xaf"), ("e08080", b"\xe0\x80\x80"), ("f0808080", b"\xf0\x80\x80\x80"),     # overlong
        ("80", b"\x80"), ("bf", b"\xbf"), ("ff", b"\xff"), ("fe", b"\xfe"), ("f888808080", b"\xf8\x88\x80\x80\x80"),
        ("eda080", b"\xed\xa0\x80"), ("f4908080", b"\xf4\x90\x80\x80"),                              # surrogate half, too large
        ("e241", b"\xe2\x41"), ("e28241", b"\xe2\x82\x41"), ("f09f41", b"\xf0\x9f\x41"),             # lead (+ trail) + ASCII
        ("e080", b"\xe0\x80")]
POLICIES = ["a", "d", "r0:-1", "r0:7", "r1:5"]


# ---------------------------------------------------------------------------------------------------------
# wire

def hb(b):
    return "".join("%04x" % x for x in b) if b else "-"


def req(enc, setup, ver, policy, data, counts):
    return "ustream %s %s %d %s %s %s" % (enc, setup, ver, policy, hb(data), ",".join(str(c) for c in counts))


_last_req = [None, None]


def parse_req(r):
    """-> (enc, setup, ver, policy, bytes, counts) or None"""
    if _last_req[0] != r:
        _last_req[0], _last_req[1] = r, _parse_req(r)
    return _last_req[1]


def _parse_req(r):
    t = r.split(" ")
    if len(t) != 7 or t[0] != FAMILY:
        return None
    try:
        if t[5] == "-":
            data = b""
        else:
            raw = bytes.fromhex(t[5])
            if len(raw) % 2 or raw[0::2].strip(b"\x00"):
                return None
            data = raw[1::2]
        counts = [int(c) for c in t[6].split(",")]
        return t[1], t[2], int(t[3]), t[4], data, counts
    except ValueError:
        return None


_last_answer = [None, None]


def parse_answer(impl):
    """-> (list of (ret, ec, units as the hex text of the answer ('' = none), codes), (callback saw a wrong position, leak)) or None"""
    if _last_answer[0] != impl:
        _last_answer[0], _last_answer[1] = impl, _parse_answer(impl)
    return _last_answer[1]


def _parse_answer(impl):
    m = re.match(r"us (\S+?)((?:!pos)?)((?: !LEAK\d*)?)$", impl)
    if not m:
        return None
    calls = []
    for c in m.group(1).split(";"):
        f = c.split(":")
        if len(f) != 4:
            return None
        try:
            ret, ec = int(f[0]), int(f[1])
            units = "" if f[2] == "-" else f[2]
            if len(units) % 4 or not re.fullmatch(r"[0-9a-f]*", units):
                return None
            codes = [] if f[3] == "-" else [int(x) for x in f[3].split("+")]
        except ValueError:
            return None
        calls.append((ret, ec, units, codes))
    return calls, (m.group(2) != "", m.group(3) != "")


# ---------------------------------------------------------------------------------------------------------
# the reference decoder (independent of ICU and of the C)

_NONASCII = re.compile(rb"[\x80-\xff]")


def ref_decode_pos(enc, data, repl):
    """-> (units, positions in `units` of the replacement units that stand for errors)"""
    units, errs = [], []
    n = len(data)
    if enc == "utf8":
        i = 0
        while i < n:
            m = _NONASCII.search(data, i)
            j = m.start() if m else n
            if j > i:
                units.extend(data[i:j])
                i = j
                if i >= n:
                    break
            b = data[i]
            lo, hi = 0x80, 0xBF
            if 0xC2 <= b <= 0xDF:
                need, cp = 1, b & 0x1F
            elif 0xE0 <= b <= 0xEF:
                need, cp = 2, b & 0x0F
                if b == 0xE0:
                    lo = 0xA0
                elif b == 0xED:
                    hi = 0x9F
            elif 0xF0 <= b <= 0xF4:
                need, cp = 3, b & 0x07
                if b == 0xF0:
                    lo = 0x90
                elif b == 0xF4:
                    hi = 0x8F
            else:
                need, cp = -1, 0                    # 80..C1, F5..FF: never the first byte of a well-formed sequence
            j = i + 1
            ok = need > 0
            while ok and j < i + 1 + need:
                if j < n and lo <= data[j] <= hi:
                    cp = (cp << 6) | (data[j] & 0x3F)
                    j += 1
                    lo, hi = 0x80, 0xBF
                else:
                    ok = False                      # data[i:j] is a maximal subpart (also when the file ends here)
            if ok:
                if cp > 0xFFFF:
                    cp -= 0x10000
                    units.append(0xD800 + (cp >> 10))
                    units.append(0xDC00 + (cp & 0x3FF))
                else:
                    units.append(cp)
            else:
                errs.append(len(units))
                units.append(repl)
            i = j
    else:
        le = enc == "utf16le"
        i = 0
        raw = []
        while i + 1 < n:
            raw.append(data[i] | (data[i + 1] << 8) if le else (data[i] << 8) | data[i + 1])
            i += 2
        k = 0
        while k < len(raw):
            u = raw[k]
            if 0xD800 <= u <= 0xDBFF and k + 1 < len(raw) and 0xDC00 <= raw[k + 1] <= 0xDFFF:
                units.append(u)
                units.append(raw[k + 1])
                k += 2
            elif 0xD800 <= u <= 0xDFFF:
                errs.append(len(units))
                units.append(repl)
                k += 1
                if u <= 0xDBFF and k == len(raw) and n % 2:
                    return units, errs              # ICU: a lead surrogate and ONE more byte at the end of the file are
                                                    # one truncated character (one report), not two
            else:
                units.append(u)
                k += 1
        if n % 2:
            errs.append(len(units))
            units.append(repl)
    return units, errs


def ref_decode(enc, data, repl):
    """-> (UTF-16 units, number of reports, their codes)"""
    units, errs = ref_decode_pos(enc, data, repl)
    return units, len(errs), [INVALID_CHAR] * len(errs)


_memo = {}
_memohex = {}


def _refhex(r):
    if r not in _memohex:
        if len(_memohex) > 16:
            _memohex.clear()
        _memohex[r] = "".join(["%04x" % u for u in _ref(r)[0]])
    return _memohex[r]


def _ref(r):
    p = parse_req(r)
    if p is None:
        return None
    key = (p[0], p[2], p[4])
    if key not in _memo:
        if len(_memo) > 64:
            _memo.clear()
        _memo[key] = ref_decode_pos(p[0], p[4], REPL.get(p[2], 0xFFFD))
    return _memo[key]


# ---------------------------------------------------------------------------------------------------------
# oracle

def refusal(policy):
    """-> None (accept-all) | (index of the refused report, expected *error_code or None = the code reported)"""
    if policy == "a":
        return None
    if policy == "d":
        return 0, None
    m = re.fullmatch(r"r(\d+):(-?\d+)", policy)
    return (int(m.group(1)), int(m.group(2))) if m else None


def oracle(r, impl):
    if impl.startswith(("SAN:", "CRASH:", "TIMEOUT")):
        return None                                          # judged by the framework
    p = parse_req(r)
    if p is None:
        return None if impl.startswith("bad-op") else "malformed request answered " + impl[:60]
    enc, setup, ver, policy, data, counts = p
    a = parse_answer(impl)
    if a is None:
        return "unreadable observation: " + impl[:80]
    calls, (badpos, leak) = a
    if badpos:
        return "the error callback did not receive the scanner's position (line 7, column 3) with text NULL, length 0"
    if leak:
        return "memory allocated during the case is still allocated"
    units, errs = _ref(r)
    nunits = len(units)
    refhex = _refhex(r)
    ref = refusal(policy)
    delivered = 0
    reports = 0
    ended = False
    if len(calls) > len(counts):
        return "%d calls observed for %d counts" % (len(calls), len(counts))
    for i, (ret, ec, got, codes) in enumerate(calls):
        cnt = counts[i]
        where = "call %d (count %d)" % (i, cnt)
        for c in codes:
            if c != INVALID_CHAR:
                return "%s: report with code %d, expected CIF_INVALID_CHAR (%d)" % (where, c, INVALID_CHAR)
        reports += len(codes)
        if reports > len(errs):
            return "%s: %d reports so far, the input has only %d malformed sequences (maximal subparts)" % (where, reports, len(errs))
        if ret < 0:
            if ref is None or reports <= ref[0]:
                return "%s: returned %d (error code %d) although no report was refused" % (where, ret, ec)
            if ret != -1:
                return "%s: returned %d, expected -1" % (where, ret)
            if reports != ref[0] + 1:
                return "%s: %d reports were made, the report number %d was refused" % (where, reports, ref[0])
            want = INVALID_CHAR if ref[1] is None else ref[1]
            if ec != want:
                return "%s: the callback answered %d, *error_code is %d" % (where, want, ec)
            if got:
                return "%s: units delivered by a failing call" % where
            if i != len(calls) - 1:
                return "%s: not the last call" % where
            if delivered > errs[ref[0]]:
                return "%s: %d units were delivered before the report %d was refused; its place is unit %d" % (where, delivered, ref[0], errs[ref[0]])
            return None
        if ref is not None and reports > ref[0]:
            return "%s: the callback refused report %d but the call returned %d" % (where, ref[0], ret)
        if len(got) != 4 * max(ret, 0):
            return "%s: returned %d, %d units observed" % (where, ret, len(got) // 4)
        if cnt <= 0:
            if ret != 0 or codes or ec != 0:
                return "%s: a call with count <= 0 returned %d (error code %d, %d reports)" % (where, ret, ec, len(codes))
            continue
        if ec != 0:
            return "%s: returned %d but set *error_code = %d" % (where, ret, ec)
        if ended:
            if ret != 0 or codes:
                return "%s: the end of the stream was reported before, now %d units / %d reports" % (where, ret, len(codes))
            continue
        if ret > cnt:
            return "%s: returned %d units" % (where, ret)
        if refhex[4 * delivered:4 * (delivered + ret)] != got:
            k = 0
            while k < ret and delivered + k < nunits and refhex[4 * (delivered + k):4 * (delivered + k) + 4] == got[4 * k:4 * k + 4]:
                k += 1
            return "%s: unit %d of the stream is %s, the reference decoder gives %s" % (
                where, delivered + k, got[4 * k:4 * k + 4], "%04x" % units[delivered + k] if delivered + k < nunits else "the end")
        delivered += ret
        # a replacement unit cannot be delivered before its report
        need = bisect.bisect_left(errs, delivered)
        if reports < need:
            return "%s: %d replacement units delivered, only %d reports made" % (where, need, reports)
        if ret == 0:
            ended = True
            if delivered != nunits:
                return "%s: end of the stream reported after %d of %d units" % (where, delivered, nunits)
            if reports != len(errs):
                return "%s: end of the stream after %d reports, the input has %d malformed sequences" % (where, reports, len(errs))
    if len(calls) != len(counts):
        return "only %d of %d calls were made although none failed" % (len(calls), len(counts))
    return None


def agree(impl, model, r=None):
    return impl == model


def finding_class(r, impl, model, why):
    return None


def _split_pair(calls):
    prev_lead = False
    for ret, ec, got, codes in calls:
        if got:
            if prev_lead and 0xDC00 <= int(got[:4], 16) <= 0xDFFF:
                return True
            prev_lead = 0xD800 <= int(got[-4:], 16) <= 0xDBFF
    return False


def nontrivial(r, impl):
    p = parse_req(r)
    a = parse_answer(impl)
    if p is None or a is None:
        return False
    calls = a[0]
    return len(p[4]) > BLOCK or any(c[3] for c in calls) or _split_pair(calls)


def classify(r, impl):
    p = parse_req(r)
    if p is None:
        return "bad-op"
    if parse_answer(impl) is None:
        return "abnormal"
    pol = "accept" if p[3] == "a" else ("die" if p[3] == "d" else ("refuse-neg" if ":-" in p[3] else "refuse-pos"))
    return "%s/%s/%s/%s" % (p[0], p[1], pol, "malformed" if _ref(r)[1] else "clean")


def shrink(r):
    p = parse_req(r)
    if p is None:
        return
    enc, setup, ver, policy, data, counts = p
    n = len(data)
    # whole blocks of filler first, then halves, then single bytes at the ends; then the counts
    for cut in (BLOCK, 2048, 1024, 256, 64, 16, 4, 2, 1):
        if n > cut:
            yield req(enc, setup, ver, policy, data[cut:], counts)
            yield req(enc, setup, ver, policy, data[:n - cut], counts)
            if n > 2 * cut:
                yield req(enc, setup, ver, policy, data[:n // 2 - cut // 2] + data[n // 2 + (cut + 1) // 2:], counts)
    m = len(counts)
    step = m // 2
    while step >= 1:
        for s in range(0, m, step):
            c = counts[:s] + counts[s + step:]
            if c:
                yield req(enc, setup, ver, policy, data, c)
        step //= 2
        if m > 64 and step < m // 16:
            break
    if policy != "a":
        yield req(enc, setup, ver, "a", data, counts)


# ---------------------------------------------------------------------------------------------------------
# generator

def filler(n, kind, salt=0):
    """exactly n bytes of well-formed UTF-8: kind 1 = ASCII, 2 / 3 = 2- / 3-byte characters behind n mod kind ASCII bytes"""
    if n <= 0:
        return b""
    if kind == 1:
        s = b"abcdefghijklmnopqrstuvwxyz0123456789 _.\n"
        off = salt % len(s)
        return ((s[off:] + s[:off]) * (n // len(s) + 1))[:n]
    w = kind
    chars = ["\u00e9", "\u00df", "\u03b1", "\u0416"] if w == 2 else ["\u20ac", "\u4e2d", "\u2003", "\ufffd", "\uffff", "\ud7ff", "\ue000"]
    body = "".join(chars[(i + salt) % len(chars)] for i in range(n // w)).encode()
    return b"xyzw"[:n % w] + body


def est_calls(nbytes, c):
    """a generous number of calls of size c that gets through nbytes of input (every call before the end delivers >= 1 unit,
    and a full destination or a used-up 4096-byte buffer are the only reasons for a short one)"""
    c = min(max(c, 1), BLOCK)
    return (nbytes + c - 1) // c + 2 * (nbytes // BLOCK + 1) + 1


def reach(p, per=BLOCK):
    """request sizes that deliver exactly p units when every 4096-byte buffer holds `per` units (ASCII: 4096, BMP UTF-16: 2048):
    a call never delivers more than the current buffer holds"""
    return [per] * (p // per) + ([p % per] if p % per else [])


def const_counts(nbytes, c, extra=3):
    return [c] * (est_calls(nbytes, c) + extra)


def mixed_counts(r, nbytes, sizes=SIZES, zeros=False):
    """random sizes that get through the input for sure (the tail is a few big requests), and at least 3 calls behind the end"""
    out = []
    done = 0
    budget = nbytes + 2 * BLOCK * (nbytes // BLOCK + 1)
    while done < budget and len(out) < 600:
        c = r.choice(sizes)
        if zeros and r.random() < 0.15:
            out.append(r.choice([0, -1, 0, -1, -2147483648, -7]))
        out.append(c)
        done += min(c, BLOCK)
    out += [BIG] * (nbytes // BLOCK + 2)
    out += [r.choice(sizes + [0, -1]) for _ in range(3)]
    return out


COUNT_KINDS = ["c1", "c2", "c3", "c4095", "c4096", "c4097", "cbig", "mix", "mix", "mixsmall", "mixz"]


def counts_of(r, kind, nbytes):
    if kind == "mix":
        return mixed_counts(r, nbytes)
    if kind == "mixsmall":
        return mixed_counts(r, nbytes, [1, 2, 3, 7, 64, 64, 4095, 4096, 4097])
    if kind == "mixz":
        return mixed_counts(r, nbytes, zeros=True)
    c = {"c1": 1, "c2": 2, "c3": 3, "c7": 7, "c4095": 4095, "c4096": 4096, "c4097": 4097, "cbig": BIG}[kind]
    return const_counts(nbytes, c)


def pick_kind(r, nbytes):
    """count-1 sequences over two buffers make 8000-call answers: rarer"""
    k = r.choice(COUNT_KINDS)
    if k == "c1" and nbytes > 5000 and r.random() < 0.6:
        k = r.choice(["c2", "c3", "mix"])
    return k


def u16(units, le):
    out = bytearray()
    for u in units:
        out += bytes((u & 0xFF, u >> 8)) if le else bytes((u >> 8, u & 0xFF))
    return bytes(out)


def u16_filler(nunits, salt=0):
    s = [0x61 + (i + salt) % 26 if i % 5 else [0xE9, 0x20AC, 0x4E2D, 0xFFFD, 0x0A][(i // 5 + salt) % 5] for i in range(nunits)]
    return s


def generate(seed, tier):
    r = rng(seed, FAMILY)
    quick = tier == "quick"
    reps = 1 if quick else 6

    def setup():
        return r.choice("sf")

    # ---- 0. tiny fixed cases: sizes 0, 1, 2; counts with 0 / -1 in the middle
    for data in (b"", b"a", b"ab", b"\xc3\xa9", b"\xc3", b"\xff", "\U0001F600".encode(), b"ab\xf0\x9f\x98\x80c"):
        for st in "sf":
            for counts in ([1, 1, 1, 1, 1, 1, 1], [2, 2, 2, 2, 2], [3, 3, 3, 3], [BIG, BIG, BIG], [0, -1, 1, 0, -1, 5, 5, 0, -1, 5], [-1], [0],
                           [4096, 0, 4096, -1, 1]):
                yield req("utf8", st, 2, "a", data, counts)
    for pol in POLICIES:
        for st in "sf":
            yield req("utf8", st, 1, pol, b"", [1, 0, 5])
            yield req("utf16le", st, 1, pol, b"", [1, 0, 5])

    # ---- 1. file sizes 4096k, 4096k +- 1 (ASCII and multi-byte filler), every constant size and mixes
    for rep in range(reps):
        for size in (BLOCK - 1, BLOCK, BLOCK + 1, 2 * BLOCK - 1, 2 * BLOCK, 2 * BLOCK + 1):
            for fk in (1, 2, 3):
                data = filler(size, fk, r.randrange(50))
                kinds = ["c1", "c4095", "c4096", "c4097", "cbig", "mixz"] if fk == 1 else [pick_kind(r, size), pick_kind(r, size)]
                if size > 5000:
                    kinds = [k for k in kinds if k != "c1"] + ([r.choice(["c1", "c2"])] if fk == 1 else [])
                for ck in kinds:
                    yield req("utf8", setup() if fk != 1 else "sf"[(size + len(ck)) % 2], r.choice([1, 2]), r.choice(["a", "a", "d", "r0:-1"]),
                              data, counts_of(r, ck, size))
        for size in (BLOCK, 2 * BLOCK):
            for st in "sf":
                yield req("utf8", st, 2, "a", filler(size, 1), [BLOCK] * 5)
                yield req("utf8", st, 2, "a", filler(size, 1), [BLOCK, 0, -1, BLOCK, 1, 1, 1])

    # ---- 2. a well-formed 1/2/3/4-byte character at every offset around the refill boundary
    for rep in range(reps):
        for k in (1, 2):
            for ln in (1, 2, 3, 4):
                for start in range(BLOCK * k - 4, BLOCK * k + 2):
                    for st in "sf":
                        fk = r.choice([1, 1, 2, 3])
                        data = filler(start, fk, r.randrange(50)) + CH[ln] + r.choice([b"", b"x", b"xyz", CH[r.randint(1, 4)] + b"z"])
                        ck = pick_kind(r, len(data))
                        yield req("utf8", st, r.choice([1, 2]), r.choice(["a", "a", "a", "d"]), data, counts_of(r, ck, len(data)))
        # runs of multi-byte characters over the boundary at each alignment, request sizes 1 / 2 / 3
        for k in (1, 2):
            for ln in (2, 3, 4):
                for shift in range(ln):
                    pre = BLOCK * k - 3 * ln + shift
                    data = filler(pre, 1, r.randrange(50)) + CH[ln] * 6 + b"end"
                    yield req("utf8", setup(), 2, "a", data, counts_of(r, r.choice(["c2", "c3", "c1", "c4096"] if k == 1 else ["c2", "c3", "c4096"]), len(data)))

    # ---- 3. supplementary characters against the end of the destination
    smile = CH[4]
    for st in "sf":
        for data in (b"ab" + smile + b"c", smile + b"c", smile, smile * 5, b"a" + smile * 4 + b"b", smile + b"\xff" + smile, b"ab" + smile):
            for counts in ([3] * 8, [1] * 14, [2] * 9, [4] * 6, [3, 1, 1, 1, 1], [3, 5, 1, 1], [1, 2, 3, 4, 5, 6], [3, 0, -1, 3, 3, 3], [5, 5, 5], [1, BIG, 1, 1]):
                yield req("utf8", st, 2, "a", data, counts)
        yield req("utf8", st, 2, "r0:-1", b"ab" + smile + b"\xffc", [3, 1, 1, 1, 1])
        yield req("utf8", st, 2, "r0:-1", b"ab" + smile + b"\xffc", [3, 5, 5])
    for rep in range(reps):
        for pre in (BLOCK - 5, BLOCK - 4, BLOCK - 3, BLOCK - 2, BLOCK - 1, BLOCK, BLOCK + 1, 2 * BLOCK - 3, 2 * BLOCK - 1, 2 * BLOCK):
            data = filler(pre, 1, r.randrange(50)) + smile + r.choice([b"c", b"", smile, b"\xc3\xa9"])
            for counts in (reach(pre + 1) + [1] * 4, reach(pre + 1) + [BIG, 1, 1], reach(pre) + [1] * 5, reach(pre + 2) + [2, 2, 2], [BLOCK] * 5,
                           [BLOCK - 1] * 6, [BLOCK + 1] * 5, [BLOCK, 1, 1, 1, 1, BIG, 1]):
                if quick and r.random() < 0.5:
                    continue
                yield req("utf8", setup(), 2, "a", data, counts + [BIG, 1, 1])

    # ---- 4. malformed sequences
    def with_second(data, policy):
        """policy r1:* needs a second report"""
        if policy.startswith("r1") or r.random() < 0.3:
            data = data + filler(r.choice([0, 1, 5]), 1) + r.choice(BAD8)[1] + r.choice([b"", b"z"])
        return data

    # 4a. short texts: the destination exactly full / one slot free when the sequence arrives
    for name, bad in BAD8:
        for pre in (b"", b"ab"):
            for tail in (b"", b"c"):
                data = pre + bad + tail
                p = len(pre)
                shapes = [[1] * (len(data) + 3), [p + 1] * (len(data) + 3), [p + 2] * (len(data) + 2), [BIG, BIG, BIG], [3, 0, -1, 1, 1, 1, 1, 1, 1, 1, 1, 1]]
                if p:
                    shapes.append([p] * (len(data) + 3))
                for counts in shapes:
                    for st in "sf":
                        if quick and r.random() < 0.45:
                            continue
                        yield req("utf8", st, r.choice([1, 2]), "a", data, counts)
                for pol in POLICIES[1:]:
                    d2 = with_second(data, pol)
                    yield req("utf8", setup(), r.choice([1, 2]), pol, d2, r.choice([[1] * (len(d2) + 3), [p + 1] * (len(d2) + 3), [BIG] * 3, [2] * (len(d2) + 3)]))
    # 4b. at every offset around the refill boundaries, and at the very end of a file of about k buffers
    for rep in range(reps):
        for name, bad in BAD8:
            for k in (1, 2):
                for start in range(BLOCK * k - 4, BLOCK * k + 2):
                    for draw in range(1 if quick else 2):
                        if quick and k == 2 and r.random() < 0.5:
                            continue
                        pol = r.choice(POLICIES + ["a", "a"])
                        fk = r.choice([1, 1, 1, 2, 3])
                        at_end = r.random() < 0.25
                        data = filler(start, fk, r.randrange(50)) + bad + (b"" if at_end else r.choice([b"c", b"xyz", CH[r.randint(2, 4)]]))
                        if not at_end:
                            data = with_second(data, pol)
                        nb = len(data)
                        shape = r.randrange(8)
                        if shape == 0:
                            counts = counts_of(r, "c1" if k == 1 or r.random() < 0.3 else "c2", nb)
                        elif shape == 1:
                            counts = reach(start) + [1] * 12 + [BIG, 1, 1]        # destination exactly full in front of the sequence
                        elif shape == 2:
                            counts = reach(start + 1) + [1] * 12 + [BIG, 1, 1]    # one slot free
                        elif shape == 3:
                            counts = const_counts(nb, r.choice([BLOCK - 1, BLOCK, BLOCK + 1]))
                        elif shape == 4:
                            counts = const_counts(nb, BIG)
                        elif shape == 5:
                            counts = counts_of(r, r.choice(["c2", "c3", "c7"]), nb)
                        else:
                            counts = mixed_counts(r, nb, zeros=shape == 7)
                        if fk != 1 and shape in (1, 2):
                            counts = counts_of(r, r.choice(["c2", "c3", "c7"]), nb)           # (reach() is for ASCII filler)
                        yield req("utf8", setup(), r.choice([1, 2]), pol, data, counts)
    # 4c. truncated at the end of the file with the destination exactly full / one slot free, short and at the boundary
    for rep in range(reps):
        for name, bad in BAD8[:3] + [BAD8[-1]]:
            for pre in (0, 1, 2, 5, BLOCK - 3, BLOCK - 2, BLOCK - 1, BLOCK, BLOCK + 1, 2 * BLOCK - 2, 2 * BLOCK - 1, 2 * BLOCK):
                data = filler(pre, 1, r.randrange(50)) + bad
                for counts in (reach(pre) + [1, 1, 1], reach(pre + 1) + [1, 1, 1], reach(pre + 2) + [1, 1, 1], [BIG] * (pre // BLOCK + 3) + [1]):
                    if quick and pre > 5 and r.random() < 0.4:
                        continue
                    yield req("utf8", setup(), r.choice([1, 2]), r.choice(["a", "a", "a", "d", "r0:-1", "r0:7"]), data, counts)

    # ---- 5. UTF-16LE / UTF-16BE
    LEAD, TRAIL = 0xD83D, 0xDE00
    u16_items = [("pair", [LEAD, TRAIL]), ("lead", [LEAD]), ("trail", [TRAIL]), ("leadlead", [LEAD, LEAD]), ("traillead", [TRAIL, LEAD]),
                 ("bmp", [0x20AC]), ("pairpair", [LEAD, TRAIL, LEAD, TRAIL]), ("leadpair", [0xD800, LEAD, TRAIL])]
    for le in (True, False):
        enc = "utf16le" if le else "utf16be"
        # short texts
        for name, item in u16_items:
            for pre in ([], [0x61, 0x62]):
                for tail, odd in (([], b""), ([0x63], b""), ([], b"\x3d"), ([0x63], b"\x00")):
                    data = u16(pre + item + tail, le) + odd
                    p = len(pre)
                    for counts in ([1] * 10, [p + 1] * 8, [p + 2] * 6, [BIG] * 3, [2, 0, -1, 1, 1, 1, 1, 1, 1]):
                        if quick and r.random() < 0.6:
                            continue
                        yield req(enc, setup(), r.choice([1, 2]), r.choice(["a", "a", "a", "d", "r0:-1", "r0:7", "r1:5"]), data, counts)
        for bom in (b"\xff\xfe", b"\xfe\xff"):
            for st in "sf":
                yield req(enc, st, 2, "a", bom + u16([0x61, LEAD, TRAIL, 0x62], le), [1] * 8)
                yield req(enc, st, 1, "a", bom + u16([0x61, 0x62], le) + b"\x00", [BIG] * 3)
        # around the refill boundaries (units cannot straddle them; pairs can)
        for rep in range(reps):
            for name, item in u16_items:
                for k in (1, 2):
                    for ustart in range(BLOCK * k // 2 - 2, BLOCK * k // 2 + 2):
                        if quick and r.random() < (0.35 if k == 1 else 0.65):
                            continue
                        at_end = r.random() < 0.2
                        odd = r.choice([b"", b"", b"", b"\x41"])
                        data = u16(u16_filler(ustart, r.randrange(50)) + item + ([] if at_end else [0x63, 0x64]), le) + odd
                        nb = len(data) // 2 + 1
                        shape = r.randrange(7)
                        if shape == 0:
                            counts = counts_of(r, r.choice(["c1", "c2", "c3"]) if k == 1 else r.choice(["c2", "c3"]), nb)
                        elif shape == 1:
                            counts = reach(ustart, BLOCK // 2) + [1] * 8 + [BIG, 1, 1]
                        elif shape == 2:
                            counts = reach(ustart + 1, BLOCK // 2) + [1] * 8 + [BIG, 1, 1]
                        elif shape == 3:
                            counts = const_counts(nb, r.choice([2047, 2048, 2049, BLOCK - 1, BLOCK, BLOCK + 1]))
                        elif shape == 4:
                            counts = const_counts(nb, BIG)
                        else:
                            counts = mixed_counts(r, nb, [1, 2, 3, 7, 64, 2047, 2048, 2049, 4095, 4096, 4097, BIG], zeros=shape == 6)
                        yield req(enc, setup(), r.choice([1, 2]), r.choice(POLICIES + ["a", "a", "a"]), data, counts)
            for size in (BLOCK - 1, BLOCK, BLOCK + 1, 2 * BLOCK, 2 * BLOCK + 1):
                data = (u16(u16_filler(size // 2 + 1, r.randrange(50)), le))[:size]
                yield req(enc, setup(), r.choice([1, 2]), "a", data, counts_of(r, r.choice(["c2", "c4096", "cbig", "mixz"]), size // 2 + 1))

    # ---- 6. random texts
    pieces8 = [CH[1], CH[1], CH[2], CH[3], CH[4], "\ufffd".encode(), "\ufeff".encode(), b"\n", b"*", "\ud7ff".encode(), "\U0010FFFF".encode(),
               "\U00010000".encode(), b"\x00", b"\x7f", "\u0080".encode(), "\u07ff".encode(), "\u0800".encode(), "\uffff".encode()]
    for _ in range(260 if quick else 3600):
        enc = r.choice(["utf8", "utf8", "utf8", "utf16le", "utf16be"])
        target = r.choice([r.randint(0, 40), r.randint(0, 300), r.randint(3900, 4300), r.randint(8000, 8400), r.randint(0, 9000), r.randint(4000, 9000)]
                          + ([] if quick else [r.randint(0, 40), r.randint(0, 300), r.randint(0, 300), r.randint(0, 2000)]))
        pbad = r.choice([0.0, 0.0, 0.002, 0.02, 0.3])
        out = bytearray()
        if enc == "utf8":
            while len(out) < target:
                x = r.random()
                if x < pbad:
                    out += r.choice(BAD8)[1] if r.random() < 0.7 else bytes(r.randrange(0x80, 0x100) for _ in range(r.randint(1, 4)))
                elif x < 0.5:
                    out += filler(r.randint(1, 200), r.choice([1, 1, 2, 3]), r.randrange(50))
                else:
                    out += r.choice(pieces8)
            if r.random() < 0.3 and out:
                out = out[:len(out) - r.randint(0, 3)]            # may cut the last character
            nb = len(out)
        else:
            le = enc == "utf16le"
            us = []
            while 2 * len(us) < target:
                x = r.random()
                if x < pbad:
                    us += r.choice([[0xD800], [0xDBFF], [0xDC00], [0xDFFF], [0xDC00, 0xD800], [0xD800, 0xD800]])
                elif x < 0.5:
                    us += u16_filler(r.randint(1, 100), r.randrange(50))
                else:
                    us += r.choice([[0xD83D, 0xDE00], [0xD800, 0xDC00], [0xDBFF, 0xDFFF], [0xFFFD], [0xFEFF], [0xFFFE], [0x2A], [0], [0xFFFF]])
            out = bytearray(u16(us, le))
            if r.random() < 0.3 and out:
                out = out[:len(out) - r.randint(0, 3)]
            nb = len(out) // 2 + 1
        ck = pick_kind(r, nb)
        yield req(enc, setup(), r.choice([1, 2]), r.choice(POLICIES + ["a"] * 5 + ["r%d:%d" % (r.randint(0, 6), r.choice([-1, -2, 1, 2, 102, 2147483647, -2147483648]))]),
                  bytes(out), counts_of(r, ck, nb))
