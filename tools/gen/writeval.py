"""family `writeval` (C02, C13): ONE value written at a chosen start column (a data name of chosen length precedes it),
both output versions; bytes compared with the model byte for byte; round-trip oracle on the implementation."""
import os, sys
sys.path.insert(0, os.path.dirname(os.path.abspath(__file__)))
from common import rng, hexs, unhexs
import cifdesc
import write as W

FAMILY = "writeval"
HARNESS = {"source": "x_write.c", "extra_sources": ["cifio.h"], "leak_clean": True}
RULE = ("one scalar item per case: strings of length 0-12 over the syntactically significant alphabet and boundary families "
        "(single lines of 2040-2050 units with/without blanks in the folding window, ending in a backslash, starting with ';', "
        "runs of ';' >= 2047, backslash before an empty line, trailing newlines / blanks, both triple delimiters, a surrogate "
        "pair at a fold point, prefix-like starts), start columns 2-2048 via the data-name length, numbers, nested values; "
        "non-trivial = built and written with CIF_OK; compared: result code and bytes; oracle as for family write")

LINE = 2048
SIG2 = list("ab;;\\\\'\" \t\n\n#_$[]{}?.:>") + ["é", "\U0001f600"]
SIG1 = list("ab;;\\\\'\" \t\n\n#_$[]{}?.:>z")
OUTSIDE11 = [0x7f, 0x80, 0xe9, 0x100, 0x1ff, 0x200, 0x4e2d]


def short_text(r, ver):
    al = SIG1 if ver == 1 else SIG2
    n = r.choice([0, 1, 1, 2, 2, 3, 4, 5, 6, 8, 12])
    s = "".join(r.choice(al) for _ in range(n))
    if ver == 1 and r.random() < 0.04:
        k = r.randrange(len(s) + 1)
        s = s[:k] + chr(r.choice(OUTSIDE11)) + s[k:]
    return s


def long_line(r, ver, n=None):
    """one line around the line-length limit"""
    n = n if n is not None else r.choice([2030, 2038, 2039, 2040, 2041, 2042, 2043, 2044, 2045, 2046, 2047, 2048, 2049, 2050, 2051,
                                          2060, 3000, 4090, 4100, 6200])
    kind = r.random()
    fill = r.choice(["a", "a", "a", ";", "\\", "'", '"', " "])
    s = [fill] * n
    if kind < 0.45:
        # blanks inside / near the folding windows (target 2040 or 2038, window 6), per segment
        for base in range(0, n, 2040):
            for _ in range(r.randint(0, 3)):
                p = base + r.choice([2025, 2030, 2032, 2033, 2034, 2035, 2036, 2037, 2038, 2039, 2040, 2041, 2042, 2043, 2044, 2045, 2046, 2047])
                if p < n:
                    s[p] = r.choice(" \t")
    elif kind < 0.6:
        for _ in range(r.randint(1, 4)):
            s[r.randrange(n)] = r.choice(" \t;\\'\"a")
    elif kind < 0.7 and ver != 1:
        # a surrogate pair straddling a candidate fold point
        p = r.choice([2030, 2031, 2032, 2033, 2034, 2035, 2036, 2037, 2038, 2039, 2040, 2041, 2042, 2043, 2044, 2045])
        if p + 1 < n:
            s[p] = "\U0001f600"
            del s[p + 1]
        for q in range(max(0, p - 8), min(len(s), p + 8)):
            if r.random() < 0.4 and s[q] == fill:
                s[q] = r.choice(["\U0001f600", ";", fill])
    elif kind < 0.8:
        # semicolons around the fold point
        for p in range(2028, min(n, 2050)):
            if r.random() < 0.6:
                s[p] = ";"
    return "".join(s)


def boundary_text(r, ver):
    head = r.choice(["", "", "", ";", ";", "\\", "\\ ", "> \\", "> \\\\", "a\\\n", "\n", ";\n", "a\n", "'''", '"""', "'''\"\"\"", "x\n;"])
    tail = r.choice(["", "", "", "\\", "\\ ", "\\\n", "\\\n\n", "\\\n\nb", "\n", "\n\n", " ", "\t", "\n;", "\n;x", "'", '"', "\n" + "b" * r.choice([1, 2040, 2047, 2048, 2049])])
    k = r.random()
    if k < 0.12:
        body = ";" * r.choice([2046, 2047, 2048, 2049, 3000])
    elif k < 0.2:
        body = "a" + ";" * r.choice([2046, 2047, 2048, 3000])
    elif k < 0.25:
        body = "a b" + ";" * r.choice([2046, 2047, 2048])
    else:
        body = long_line(r, ver)
    return head + body + tail


def medium_text(r, ver):
    """several short lines mixing the protocol-relevant shapes"""
    parts = []
    for _ in range(r.randint(1, 5)):
        parts.append(r.choice(["", "a", ";", ";a", "\\", "a\\", "a\\ ", "\\\\", "> ", "> \\", ">", "'''", '"""', "' ", '" ', "a b", " ", "_x", "#c",
                                "data_x", "loop_", "[", "{a}", "?", ".", "a'b", 'a"b']))
    return "\n".join(parts)


def rand_string(r, ver):
    k = r.random()
    if k < 0.012:
        # a carriage return (open finding F-cr-altered: written raw, read back as LF)
        s = short_text(r, ver) or "a"
        p = r.randrange(len(s) + 1)
        return s[:p] + r.choice(["\r", "\r\n", "\r"]) + s[p:]
    if k < 0.02 and ver != 1:
        # a character CIF 2.0 does not allow (open finding F-disallowed-char-written)
        s = short_text(r, ver).replace("\r", "") or "a"
        p = r.randrange(len(s) + 1)
        return s[:p] + chr(r.choice([1, 8, 11, 12, 0x1f, 0x7f, 0x80, 0x9f, 0xfdd0, 0xfdef])) + s[p:]
    if k < 0.5:
        return short_text(r, ver)
    if k < 0.7:
        return medium_text(r, ver)
    return boundary_text(r, ver)


def rand_name(r):
    k = r.random()
    if k < 0.6:
        n = r.choice([2, 3, 5, 10])
    elif k < 0.9:
        n = r.choice([2030, 2036, 2037, 2038, 2039, 2040, 2041, 2042, 2043, 2044, 2045, 2046, 2047, 2048])
    else:
        n = r.randint(2, 2048)
    return "_" + "n" * (n - 1)


def rand_value_tokens(r, ver):
    k = r.random()
    if k < 0.06:
        return ["M%d:%s" % (1 if r.random() < 0.3 else 0, hexs(r.choice(cifdesc.NUMBERS + ["1" * r.choice([5, 2040, 2047, 2048, 2049, 3000])])))]
    if k < 0.09:
        return [r.choice(["U", "N"])]
    if k < 0.17:
        def text(rr):
            return rand_string(rr, ver) if rr.random() < 0.3 else short_text(rr, ver)
        return cifdesc.rand_value(r, 2, 3, True, text)
    s = rand_string(r, ver)
    q = 1 if r.random() < 0.55 else 0
    if q == 0 and not cifdesc.unquotable(s):
        q = 1
    return ["C%d:%s" % (q, hexs(s))]


VERSION = 2          # family `writeval11` (tools/gen/writeval11.py) is this module with VERSION = 1


def table_at_column(r, ver):
    """a table whose first key starts at a chosen column near the end of the line (the data name sets the column)"""
    name = "_" + "n" * (r.randint(2020, 2047) - 1)
    keys = ["a'b\"c", "\U0001f600", "k", "k" * r.randint(1, 30), "\U0001f600" * r.randint(1, 6), "x'y\"" + "z" * r.randint(0, 12), ""]
    toks = ["{"]
    seen = set()
    for _ in range(r.randint(1, 3)):
        k = r.choice(keys)
        if k in seen:
            continue
        seen.add(k)
        toks += ["K:" + hexs(k)] + r.choice([["U"], ["N"], ["M0:" + hexs("12")], ["C1:" + hexs("v")], ["C0:" + hexs("v")], ["{", "}"], ["[", "]"]])
    return name, toks + ["}"]


KEY_LENGTHS = [2036, 2037, 2038, 2039, 2040, 2041, 2042, 2043, 2044, 2045, 2046, 2047, 2048, 2049]
SQ, DQ = "'", '"'


def boundary_key(r):
    """a table key on the boundary of the predicate `keyPresented` (Lemmas/WriterKeys.lean; C02_total_iff): one line of
    LINE-12 ... LINE+1 units holding none / one / both kinds of quote characters (so that it is quoted with ', with ", or triple
    quoted), possibly ending in a quote or holding a triple delimiter; or several lines with a first / last line of LINE-6 ... LINE-2
    units (the opening delimiter filling the line, the closing delimiter leaving / not leaving a column for the colon)"""
    k = r.random()
    if k < 0.6:
        n = r.choice(KEY_LENGTHS)
        head = r.choice(["", "", SQ, DQ, SQ + DQ, DQ + SQ, "a" + SQ + "b" + DQ + "c", SQ * 2, DQ * 2, SQ * 3, DQ * 3, SQ * 3 + DQ * 3])
        tail = r.choice(["", "", "", SQ, DQ, SQ * 2, " "])
        fill = r.choice(["k", "k", "k", " ", ";", "\U0001f600"])
        room = max(0, n - len(head) - len(tail))
        if fill == "\U0001f600":
            body = fill * (room // 2) + "k" * (room % 2)
        else:
            body = fill * room
        return head + body + tail
    first = r.choice([0, 1, 7, 2042, 2043, 2044, 2045, 2046, 2049])
    last = r.choice([0, 1, 7, 2042, 2043, 2044, 2045, 2046, 2049])
    mid = r.choice([[], [], [""], ["m" * r.choice([1, 2047, 2048, 2049])]])
    q = r.choice(["", "", SQ, DQ, SQ + DQ, SQ * 3, DQ * 3])
    lines = [q + "f" * max(0, first - len(q))] + mid + ["l" * last + r.choice(["", "", "", SQ, DQ])]
    return "\n".join(lines)


def key_boundary_table(r):
    """a table with a boundary key at a start column chosen through the length of the data name (so that the key starts a
    line, or ends in the last columns of the current one)"""
    name = "_" + "n" * (r.choice([2, 2, 10, 1000, 2030, 2036, 2040, 2043, 2046, 2047]) - 1)
    toks = ["{"]
    seen = set()
    for _ in range(r.choice([1, 1, 1, 2])):
        key = boundary_key(r) if r.random() < 0.8 else r.choice(["k", "", "a" + SQ + "b" + DQ + "c"])
        if key in seen:
            continue
        seen.add(key)
        toks += ["K:" + hexs(key)] + r.choice([["U"], ["N"], ["M0:" + hexs("12")], ["C1:" + hexs("v w")], ["C0:" + hexs("v")], ["{", "}"], ["[", "U", "]"]])
    return name, toks + ["}"]


def generate_for(ver, family, seed, tier):
    r = rng(seed, family)
    n = 1200 if tier == "quick" else 60000
    for _ in range(n):
        if ver != 1 and r.random() < 0.05:
            name, toks = table_at_column(r, ver)
            yield "writeval %d %s %s" % (ver, hexs(name), " ".join(toks))
            continue
        if ver != 1 and r.random() < 0.06:
            name, toks = key_boundary_table(r)
            yield "writeval %d %s %s" % (ver, hexs(name), " ".join(toks))
            continue
        yield "writeval %d %s %s" % (ver, hexs(rand_name(r)), " ".join(rand_value_tokens(r, ver)))


def generate(seed, tier):
    return generate_for(VERSION, FAMILY, seed, tier)


def _split(req):
    t = req.split(" ")
    ver = int(t[1])
    # the CIF the request describes, in the token language (for the refusal witnesses)
    toks = ["B:0062", "L:-:1", t[2], "P"] + t[3:] + ["Z", "E"]
    return ver, toks


def oracle(req, impl):
    ver, toks = _split(req)
    return W.check_output(ver, toks, W.parse_obs(impl))


def agree(impl, model, req=None):
    return W.agree_obs(impl, model)


def nontrivial(req, impl):
    d = W.parse_obs(impl)
    return bool(d) and d.get("b") == 0 and d.get("rc") == 0


def classify(req, impl):
    ver, _ = _split(req)
    return "v%d:%s" % (ver, W.presentation(W.parse_obs(impl)))


def finding_class(req, impl, model, why):
    ver, toks = _split(req)
    return W.known_class(ver, toks, W.parse_obs(impl))


def shrink(req):
    """shorten the string value (runs first), then the data name"""
    t = req.split(" ")
    if len(t) == 4 and t[3][:1] == "C" and t[3][2:3] == ":":
        units = unhexs(t[3][3:]) or []
        n = len(units)
        step = n // 2
        seen = 0
        while step >= 1 and seen < 400:
            for s in range(0, n, step):
                c = units[:s] + units[s + step:]
                seen += 1
                yield " ".join(t[:3] + [t[3][:3] + hexs(c)])
            step //= 2
    name = unhexs(t[2]) or []
    if len(name) > 2:
        for k in (2, len(name) // 2, len(name) - 1):
            yield " ".join(t[:2] + [hexs(name[:k])] + t[3:])
