"""helpers shared by the C10 families (numb, todbl, todig, initnumb): exact integer/rational arithmetic used by the
implementation-level oracles.  Nothing here looks at the Lean model or at the C sources."""
import math, re
from fractions import Fraction

NUM_RE = re.compile(r"([+-]?)(\d+\.?\d*|\.\d+)(?:[eE]([+-]?\d+))?(?:\((\d+)\))?\Z")
CIF_INVALID_NUMBER = 72
CIF_ARGUMENT_ERROR = 6
EXP_SAT = 100000000          # exponents of this magnitude are "far beyond the range of double": only "no crash" is demanded


def kv(line):
    """`a=b` tokens of an observation line -> dict (tokens without `=` are ignored)"""
    out = {}
    for t in line.split():
        if "=" in t:
            k, v = t.split("=", 1)
            out[k] = v
    return out


def ascii_of_hex(h):
    if h in ("-", ""):
        return ""
    if h == "~":
        return None
    return "".join(chr(int(h[i:i + 4], 16)) for i in range(0, len(h), 4))


def hex_of_ascii(s):
    return "".join("%04x" % ord(c) for c in s) or "-"


# ---- doubles as integers -------------------------------------------------------------------------------------------

def dbl_token(x):
    """Python float -> canonical wire token"""
    if x != x:
        return "nan"
    if x in (float("inf"), float("-inf")):
        return "+inf" if x > 0 else "-inf"
    if x == 0:
        return "-0:0" if math.copysign(1, x) < 0 else "+0:0"
    f, e = math.frexp(abs(x))
    m = int(f * (1 << 53))
    e -= 53
    if e < -1074:
        m >>= (-1074 - e)
        e = -1074
    return ("-" if x < 0 else "+") + "%d:%d" % (m, e)


def tok(neg, m, e):
    return ("-" if neg else "+") + "%d:%d" % (m, e)


def parse_dbl(t):
    """wire token -> ('fin', neg, m, e) | ('inf', neg) | ('nan',) | None"""
    if t == "nan":
        return ("nan",)
    if t in ("+inf", "-inf"):
        return ("inf", t[0] == "-")
    mm = re.fullmatch(r"([+-])(\d+):(-?\d+)", t)
    if not mm:
        return None
    return ("fin", mm.group(1) == "-", int(mm.group(2)), int(mm.group(3)))


def frac_of(d):
    """exact value of a finite parsed double"""
    _, neg, m, e = d
    v = Fraction(m) * (Fraction(2) ** e)
    return -v if neg else v


def rhe(x, y):
    """round-half-even of x / y for integers x >= 0, y > 0"""
    q, r = divmod(x, y)
    if 2 * r > y or (2 * r == y and q % 2 == 1):
        q += 1
    return q


def rhe_frac(fr):
    return rhe(fr.numerator, fr.denominator)


def rne(num, den):
    """the double nearest to num/den (> 0), ties to even, as if the exponent range were unbounded:
    (m, e) with 2^52 <= m < 2^53"""
    # e with 2^52 <= num/den / 2^e < 2^53
    e = (num.bit_length() - den.bit_length()) - 53
    while True:
        lo = (den << (e + 52)) if e + 52 >= 0 else None
        # compare num/den with 2^(e+52) and 2^(e+53)
        def ge(k):   # num/den >= 2^k ?
            return num >= (den << k) if k >= 0 else (num << (-k)) >= den
        if not ge(e + 52):
            e -= 1
        elif ge(e + 53):
            e += 1
        else:
            break
    m = rhe(num, den << e) if e >= 0 else rhe(num << (-e), den)
    if m == (1 << 53):
        m, e = 1 << 52, e + 1
    return m, e


def is_normal(m, e):
    """canonical (m, e) denotes a normal finite double"""
    return (1 << 52) <= m < (1 << 53) and -1074 <= e <= 971


def rne_token(num, den, neg=False):
    """expected canonical token for num/den when it lies in the normal range, else None (no claim made)"""
    if num == 0:
        return tok(neg, 0, 0)
    m, e = rne(num, den)
    if is_normal(m, e):
        return tok(neg, m, e)
    return None


def digits_value_token(digits, scale, neg=False):
    """expected double for the digit string at the given scale (normal range or zero), else None"""
    n = int(digits) if digits else 0
    if n == 0:
        return tok(neg, 0, 0)
    if scale >= 0:
        if scale > 5000:
            return None
        return rne_token(n, 10 ** scale, neg)
    if -scale > 5000:
        return None
    return rne_token(n * 10 ** (-scale), 1, neg)


def floor_log10(fr):
    """exact floor(log10(fr)) for a positive Fraction"""
    n, d = fr.numerator, fr.denominator
    k = len(str(n)) - len(str(d))
    while Fraction(10) ** k > fr:
        k -= 1
    while Fraction(10) ** (k + 1) <= fr:
        k += 1
    return k


def scaled_round(fr, scale):
    """round-half-even of fr * 10^scale (fr >= 0)"""
    if scale >= 0:
        return rhe(fr.numerator * 10 ** scale, fr.denominator)
    return rhe(fr.numerator, fr.denominator * 10 ** (-scale))


def parse_number_text(s):
    """exact reading of an accepted number text: (neg, mantissa_digits_without_point, frac_len, exp, su or None)"""
    m = NUM_RE.match(s)
    if not m:
        return None
    sign, mant, ex, su = m.groups()
    if "." in mant:
        ip, fp = mant.split(".")
    else:
        ip, fp = mant, ""
    return (sign == "-", ip + fp, len(fp), int(ex) if ex else 0, su)


def rand_double(r, kind=None):
    """(neg, m, e) of a random finite double; kinds concentrate on interesting regions"""
    kind = kind or r.choice(["any", "any", "mid", "mid", "mid", "int", "small", "huge", "subn", "pow10", "simple"])
    neg = r.random() < 0.3
    if kind == "any":
        m = r.getrandbits(52) | (1 << 52)
        e = r.randint(-1074, 971)
    elif kind == "mid":
        m = r.getrandbits(52) | (1 << 52)
        e = r.randint(-90, -20)
    elif kind == "int":
        m = r.getrandbits(r.randint(1, 53)) | 1
        e = r.randint(0, 12)
    elif kind == "small":
        m = r.getrandbits(52) | (1 << 52)
        e = r.randint(-1074, -1000)
    elif kind == "huge":
        m = r.getrandbits(52) | (1 << 52)
        e = r.randint(900, 971)
    elif kind == "subn":
        m = r.getrandbits(r.randint(1, 52)) | 1
        e = -1074
    elif kind == "pow10":
        k = r.randint(-30, 30)
        x = float("1e%d" % k)
        x = math.nextafter(x, r.choice([0.0, math.inf])) if r.random() < 0.7 else x
        t = parse_dbl(dbl_token(x))
        return (neg, t[2], t[3])
    else:  # simple decimal fractions
        x = float("%d.%0*d" % (r.randint(0, 999), r.randint(1, 6), r.randint(0, 999)))
        if x == 0:
            x = 0.5
        t = parse_dbl(dbl_token(x))
        return (neg, t[2], t[3])
    # canonicalise
    while m and m < (1 << 52) and e > -1074:
        m <<= 1
        e -= 1
    return (neg, m, e)


def carry_ripple_case(r):
    """(double token triple, scale): a value whose round-up at `scale` turns the rounding limb (base 10^9) into 10^9 and
    ripples through a full limb of nines into a third limb, e.g. 1999999999.96 at scale 1 -> 20000000000.
    digits: a | 999999999 | k nines | d >= 5 ...   with the k nines at the top of a base-10^9 limb"""
    a = r.choice([1, 1, 2, 7, 12, 99, 120])
    k = r.randint(1, 3)
    d = r.randint(5, 9)
    j = r.choice([-1, -1, -1, 0, -2, 1])              # rounding limb holds decimal places 9j+8 .. 9j
    top = 9 * j + 8
    digs = str(a) + "9" * 9 + "9" * k + str(d) + str(r.randint(0, 9))
    # the first of the k nines sits at place `top`; the last digit of `digs` at place top - (k - 1) - 2
    last_place = top - (k - 1) - 2
    x = float(digs + "e%d" % last_place)
    scale = -(top - (k - 1))
    t = parse_dbl(dbl_token(x))
    return (r.random() < 0.3, t[2], t[3]), scale


def nines_case(r):
    """integer part ending in 999999999 (or a longer run of nines) with a fraction that rounds up, at small scales"""
    kind = r.randint(0, 3)
    if kind == 0:
        x = float("%d999999999.%s" % (r.randint(1, 9999), r.choice(["5", "6", "96", "996", "9996", "51", "4999", "95"])))
    elif kind == 1:
        x = float("%d.%s" % (10 ** r.randint(9, 15) - 1, r.choice(["5", "6", "96", "996"])))
    elif kind == 2:
        x = 999999999999999999.0 * r.choice([1, 1, 2, 10, 0.1])     # rounds to 1e18-ish as a double; limb boundaries above
    else:
        x = float("%d999999999999.%s" % (r.randint(1, 99), r.choice(["6", "96"])))
    t = parse_dbl(dbl_token(x))
    return (r.random() < 0.3, t[2], t[3]), r.choice([0, 0, 1, 1, 2, 3, 4, -1, -9, -3])


# ---- systematic neighbourhood of the powers of two (both tiers; deterministic) -----------------------------------------------------
# For every binade boundary 2^k of a spread of k: decimal texts of 2^k + f*ulp (ulp of the binade above) and 2^k - f*ulp_below
# (the binade below, where the ulp halves) for f = just below 1/2, exactly 1/2, just above 1/2 (by one unit in the N-th
# significant digit, N = 17..40, and by a single non-zero digit 1..37 places beyond the exact tie), 3/4, and 1 - epsilon.
# Seeded changes C10_5 (normalisation loop ends at > 2^52 instead of >= 2^52: texts strictly between 2^k and the next double, at or
# past the half-way point, came out as 2^k) and C10_6 (tail scan of is_zero stops one limb early: tie + one far digit).

POW2_KS = sorted(set(list(range(-60, 61)) + [-1074, -1073, -1072, -1060, -1030, -1023, -1022, -1021, -1000, -900, -768, -537, -400,
                                             -300, -200, -128, -100, -64, 64, 100, 128, 200, 300, 400, 537, 768, 900, 1000, 1021, 1022, 1023]))


def _exact_dec(fr):
    """positive Fraction with a denominator 2^a -> (digit string, scale) of its exact decimal expansion (no trailing zeros past the point)"""
    a = fr.denominator.bit_length() - 1
    return str(fr.numerator * 5 ** a), a


def _n_digits(fr, n, up):
    """fr cut to n significant digits, towards zero (up = 0) or that + 1 unit in the last place (up = 1) -> (digits, scale)"""
    e = floor_log10(fr)
    scale = n - 1 - e
    v = fr * Fraction(10) ** scale
    q = v.numerator // v.denominator
    return str(q + up), scale


def pow2_neighbourhood(level=2):
    """(digits, scale, tag) triples; level 2 = the full set (family todbl), 1 = the reduced set (family numb)"""
    pads_one = (0, 8, 17, 18, 19, 27, 36) if level == 2 else (18, 27)
    pads_nine = (1, 18, 30) if level == 2 else (19,)
    ns_tie = (17, 18, 21, 30, 40) if level == 2 else (17, 21)
    ns_34 = (17, 25, 40) if level == 2 else (20,)
    ns_eps = (17, 25, 40) if level == 2 else (17,)
    for k in POW2_KS:
        base = Fraction(2) ** k
        ulp_up = Fraction(2) ** (max(k, -1022) - 52)
        ulp_dn = Fraction(2) ** (max(k - 1, -1022) - 52)
        d, s = _exact_dec(base)
        yield d, s, "2^%d" % k
        for sign, ulp in ((1, ulp_up), (-1, ulp_dn)):
            tie = base + sign * ulp / 2
            if tie <= 0:
                continue
            d, s = _exact_dec(tie)
            yield d, s, "tie"
            for z in pads_one:
                if len(d) + z + 1 <= 2048:
                    yield d + "0" * z + "1", s + z + 1, "tie+far digit"
            for z in pads_nine:
                if len(d) + z <= 2048:
                    yield str(int(d) - 1).rjust(len(d), "0") + "9" * z, s + z, "tie-far"
            for n in ns_tie:
                if n < len(d.lstrip("0")):
                    for up in (0, 1):
                        dd, ss = _n_digits(tie, n, up)
                        yield dd, ss, "tie cut to %d digits %+d" % (n, up)
            t34 = base + sign * ulp * 3 / 4
            d, s = _exact_dec(t34)
            yield d, s, "3/4"
            for n in ns_34:
                if n < len(d.lstrip("0")):
                    for up in (0, 1):
                        dd, ss = _n_digits(t34, n, up)
                        yield dd, ss, "3/4 cut"
            nxt = base + sign * ulp            # the neighbouring double; 1 - epsilon = one unit in the n-th digit short of it
            if nxt > 0:
                d, s = _exact_dec(nxt)
                yield d, s, "neighbour"
                for n in ns_eps:
                    dd, ss = _n_digits(nxt, n, 0)
                    q = int(dd)
                    exact = Fraction(q) / Fraction(10) ** ss == nxt
                    if sign > 0:
                        yield str(q - 1 if exact else q), ss, "1-eps"
                    else:
                        yield str(q + 1), ss, "1-eps"


def text_of_digits(d, s):
    """a decimal text for digits * 10^-scale: plain when that is short, otherwise mantissa and exponent"""
    if s <= 0:
        return d + "0" * (-s) if -s <= 25 else d + "e" + str(-s)
    if s < len(d):
        return d[:-s] + "." + d[-s:]
    if s - len(d) <= 25:
        return "0." + "0" * (s - len(d)) + d
    return d[0] + "." + d[1:] + "e-" + str(s - len(d) + 1) if len(d) > 1 else d + "e-" + str(s)
