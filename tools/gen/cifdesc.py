"""random values / CIFs in the token language of harness/cifio.h (shared by several families)"""
import os, sys
sys.path.insert(0, os.path.dirname(os.path.abspath(__file__)))
from common import hexs

# syntactically significant characters first; a few non-ASCII ones that are stable under NFC and case folding
SIGNIFICANT = list("abdegloptsv_#$'\";:\\?.[]{} \t\n") + ["é", "中", "�", "\U0001f600"]
PLAIN = list("abcxyz019+-.")
NUMBERS = ["0", "1", "-1", "+2", "1.5", "-0.25", ".5", "5.", "1e3", "1.0E-2", "12(3)", "1.234(56)", "-1.5e+10(2)",
           "007", "0.0(0)", "1e-5(1)", "9007199254740993", "123456789012345678901234567890", "1.e5"]


def rand_text(r, maxlen=8, alphabet=None):
    al = alphabet or (SIGNIFICANT if r.random() < 0.7 else PLAIN)
    n = r.choice([0, 1, 1, 2, 3, 4, maxlen])
    return "".join(r.choice(al) for _ in range(r.randint(0, n) if n else 0))


def rand_key(r):
    return rand_text(r, 5, list("abAB _'\"é:;"))


def rand_value(r, depth=2, width=3, allow_numb=True, text=rand_text):
    """returns a list of tokens"""
    k = r.random()
    if depth > 0 and k < 0.18:
        out = ["["]
        for _ in range(r.randint(0, width)):
            out += rand_value(r, depth - 1, width, allow_numb, text)
        return out + ["]"]
    if depth > 0 and k < 0.32:
        out = ["{"]
        keys = set()
        for _ in range(r.randint(0, width)):
            key = rand_key(r)
            if key in keys:
                continue
            keys.add(key)
            out += ["K:" + hexs(key)] + rand_value(r, depth - 1, width, allow_numb, text)
        return out + ["}"]
    if k < 0.40:
        return ["U"]
    if k < 0.46:
        return ["N"]
    if allow_numb and k < 0.60:
        return ["M%d:%s" % (1 if r.random() < 0.15 else 0, hexs(r.choice(NUMBERS)))]
    s = text(r)
    q = 1 if r.random() < 0.6 else 0
    if q == 0 and not unquotable(s):
        q = 1
    return ["C%d:%s" % (q, hexs(s))]


RESERVED_PREFIXES = ("data_", "save_", "loop_", "stop_", "global_")


def unquotable(s):
    """strings that cif_value_set_quoted(NOT_QUOTED) accepts as whitespace-delimited CIF 2.0 values (conservative:
    returning False only forces the generator to make the value quoted)"""
    if not s or s in ("?", "."):
        return False          # '?' and '.' unquoted would turn into unk / na
    if any(c in " \t\n\r[]{}" for c in s) or any(ord(c) < 0x21 or ord(c) == 0x7f for c in s):
        return False
    if s[0] in "'\"#$_;":
        return False
    low = s.lower()
    if low.startswith(RESERVED_PREFIXES) or low in ("loop_", "stop_", "global_"):
        return False
    return True


def rand_name(r, used, pool=None):
    pool = pool or ["_a", "_b", "_c", "_d", "_e", "_item.x", "_item.y", "_Q", "_été"]
    for _ in range(40):
        n = r.choice(pool)
        if n.lower() not in used:
            used.add(n.lower())
            return n
    n = "_n%d" % len(used)
    used.add(n)
    return n


def rand_loop(r, used, scalar, value=rand_value, maxnames=3, maxpackets=3):
    n = r.randint(1, maxnames)
    names = [rand_name(r, used) for _ in range(n)]
    if scalar:
        toks = ["L:-:%d" % n] + [hexs(x) for x in names] + ["P"]
        for _ in names:
            toks += value(r)
        return toks + ["Z"]
    cat = r.choice(["~", hexs("cat"), hexs("c2")])
    toks = ["L:%s:%d" % (cat, n)] + [hexs(x) for x in names]
    for _ in range(r.randint(1, maxpackets)):
        toks.append("P")
        for _ in names:
            toks += value(r)
    return toks + ["Z"]


def rand_body(r, depth, value=rand_value, maxloops=3, maxframes=2):
    used = set()
    toks = []
    if depth > 0:
        codes = set()
        for _ in range(r.randint(0, maxframes)):
            c = r.choice(["f1", "f2", "F3", "s"])
            if c.lower() in codes:
                continue
            codes.add(c.lower())
            toks += ["F:" + hexs(c)] + rand_body(r, depth - 1, value, maxloops, maxframes) + ["E"]
    have_scalar = False
    for _ in range(r.randint(0, maxloops)):
        scalar = (not have_scalar) and r.random() < 0.5
        have_scalar |= scalar
        toks += rand_loop(r, used, scalar, value)
    return toks


def rand_cif(r, maxblocks=3, depth=1, value=rand_value):
    toks = []
    codes = set()
    for _ in range(r.randint(1, maxblocks)):
        c = r.choice(["a", "b", "Blk", "d1", "é"])
        if c.lower() in codes:
            continue
        codes.add(c.lower())
        toks += ["B:" + hexs(c)] + rand_body(r, depth, value) + ["E"]
    return toks
