"""family `ladder` (C17): allocation / release pattern of dup_ustrings, cif_value_clone, cif_value_insert_element_at,
cif_value_set_element_at, cif_loop_get_names under one failed allocation, for every fault position of every generated shape"""
import os, sys
sys.path.insert(0, os.path.dirname(os.path.abspath(__file__)))
from common import rng

FAMILY = "ladder"
HARNESS = {"source": "x_ladder.c", "exclude_objs": ["loop"], "leak_clean": True}
ENV = {"VERIF_LEAKCHECK": "1"}
RULE = ("deser: every generated list shape without numbers x every fault position; packet: 0..9 names, each already normalised or respelled (13 fixed + random flag strings) x every fault position; "
        "copychar: 6 target shapes x fault positions 0..2; dup: n = 0..12 x every fault position 0..n+2; names: n = 1..8 stored item names x every fault position 0..2n+2; clone / insert / set: value shapes (scalars, numbers with and without su, "
        "lists nested <= 3, width <= 4; random beyond the enumerated small ones) x every fault position 0..(allocations+1); "
        "non-trivial = a fault position that is reached; oracle: on failure nothing allocated in the call stays live, no "
        "block is released twice, result is CIF_MEMORY_ERROR/CIF_ERROR; on success rc = 0")


def nallocs(sh):
    """number of allocation requests of cif_value_clone for a shape given as nested python lists / strings"""
    if sh == "S":
        return 1
    if sh == "C":
        return 2
    if sh == "M0":
        return 3
    if sh == "M1":
        return 4
    return 2 + sum(nallocs(e) for e in sh)


TARGETS = [["C", "M1"], "S", "C", "M0", [], [["C"], "S", "M1"]]


def toks(sh):
    if isinstance(sh, str):
        return [sh]
    out = ["["]
    for e in sh:
        out += toks(e)
    return out + ["]"]


def rand_shape(r, depth):
    k = r.random()
    if depth > 0 and k < 0.4:
        return [rand_shape(r, depth - 1) for _ in range(r.randint(0, 4))]
    return r.choice(["S", "C", "C", "M0", "M1"])


def rand_nonum(r, depth):
    if depth > 0 and r.random() < 0.4:
        return [rand_nonum(r, depth - 1) for _ in range(r.randint(0, 4))]
    return r.choice(["S", "C", "C"])


def generate(seed, tier):
    r = rng(seed, FAMILY)
    for n in range(0, 13 if tier == "quick" else 40):
        for k in range(0, n + 3):
            yield "ladder dup %d %d" % (n, k)
    for n in range(1, 9 if tier == "quick" else 30):
        for k in range(0, 2 * n + 3):
            yield "ladder names %d %d" % (n, k)
    # cif_packet_create: at most 9 names, so that no uthash bucket can reach the expansion threshold of 10 entries
    flagsets = ["-", "n", "r", "nn", "nr", "rn", "rr", "nrn", "rrn", "nnnn", "rnrnr", "rrrrrrrrr", "nnnnnnnnn"]
    flagsets += ["".join(r.choice("nr") for _ in range(r.randint(1, 9))) for _ in range(6 if tier == "quick" else 80)]
    for fl in flagsets:
        n = 0 if fl == "-" else len(fl)
        total = 1 + 3 * n + 1 + n + (2 if n else 0) + fl.count("r")
        for k in range(0, total + 2):
            yield "ladder packet %s %d" % (fl, k)
    for tsh in TARGETS:
        for k in range(0, 3):
            yield "ladder copychar %s %d" % (" ".join(toks(tsh)), k)
    shapes = ["S", "C", "M0", "M1", [], ["C"], ["C", "M1"], [[]], [["C"], "S"], ["M0", ["C", ["M1"]], "C"]]
    shapes += [[], ["S"], ["C", "S", "C"], [[], "C"], ["C", ["C", ["C", "S"]], [], "C"]]
    shapes += [rand_shape(r, 3) for _ in range(40 if tier == "quick" else 600)]
    shapes += [[rand_nonum(r, 2) for _ in range(r.randint(0, 4))] for _ in range(12 if tier == "quick" else 150)]
    for sh in shapes:
        n = nallocs(sh)
        for k in range(0, n + 2):
            yield "ladder clone %s %d" % (" ".join(toks(sh)), k)
        if len(toks(sh)) < 30:
            for full in (0, 1):
                for k in range(0, n + 3):
                    yield "ladder insert %d %s %d" % (full, " ".join(toks(sh)), k)
        if isinstance(sh, list) and "M" not in " ".join(toks(sh)):
            # blob of a list without numbers: the requests are a subset of the clone's (no top object, no array for an
            # empty list), so 0..n+1 covers every fault position
            for k in range(0, n + 2):
                yield "ladder deser %s %d" % (" ".join(toks(sh)), k)
        # replace an existing element (of a few different shapes) by a clone of sh: the clone is built in a scratch object
        # (n requests), fault positions 0..n+1
        for tsh in (TARGETS if len(toks(sh)) < 12 else TARGETS[:2]):
            for k in range(0, n + 2):
                yield "ladder set %s %s %d" % (" ".join(toks(tsh)), " ".join(toks(sh)), k)


def _f(obs, name):
    for t in obs.split():
        if t.startswith(name + "="):
            return t[len(name) + 1:]
    return None


def finding_class(req, impl, model, why):
    """open finding F31 (cif_packet_create_norm): when uthash cannot allocate its table for the first entry, the failure
    handler applies the hash macros to a head entry whose hh.tbl is NULL.  Matched only at the fault position where the
    pinned model predicts undefined behaviour (rc=U) and only for a sanitizer report from map.c / packet.c."""
    t = req.split()
    if len(t) == 4 and t[1] == "packet" and model and " rc=U " in model + " " and impl.startswith("SAN:ubsan"):
        return "packet/uthash-table-alloc-fails/null-table-deref"
    return None


def nontrivial(req, impl):
    return _f(impl, "fails") not in (None, "-")


def classify(req, impl):
    return req.split()[1] + (":fault" if nontrivial(req, impl) else ":nofault")


def oracle(req, impl):
    if not impl.startswith("ld "):
        return None
    if "!LEAK" in impl:
        return "memory leaked"
    for bad in ("later-insert=", "unreadable@", "size="):
        if bad in impl:
            return "the caller's list is not usable as a list after the call: " + impl.split(bad, 1)[1].split()[0].join([bad, ""])
    for mark in ("!PNAME", "!PCOUNT", "!PITEM", "!NOPACKET", "!TEXT", "!NEWVALUE"):
        if mark in impl:
            return "after success the created packet / the character value is not what was requested: " + mark
    if "!NAMES" in impl or "setup-failed" in impl:
        return "cif_loop_get_names: wrong number of names / set-up failed"
    for mark, what in (("!COUNT", "the list lost or gained elements"), ("!ELEM", "the target element is no longer retrievable"),
                       ("!NEWVALUE", "after success the target element does not equal the source")):
        if mark in impl:
            return "cif_value_set_element_at: " + what
    rc, fails, live, frees = _f(impl, "rc"), _f(impl, "fails"), _f(impl, "live"), _f(impl, "frees")
    if frees and frees != "-":
        ids = frees.split(",")
        if len(ids) != len(set(ids)):
            return "a block was released twice: frees=%s" % frees
    if fails == "-":
        return None if rc == "0" else "no allocation failed but the call returned %s" % rc
    if rc != "E":
        return "an allocation failed but the call returned %s" % rc
    if live != "-":
        return "allocation failure: blocks %s allocated during the call were not released" % live
    return None
