"""family `ladder` (C17): allocation / release pattern of dup_ustrings, cif_value_clone, cif_value_insert_element_at,
cif_value_set_element_at, cif_loop_get_names under one failed allocation, for every fault position of every generated shape"""
import os, sys
sys.path.insert(0, os.path.dirname(os.path.abspath(__file__)))
from common import rng

FAMILY = "ladder"
HARNESS = {"source": "x_ladder.c", "exclude_objs": ["loop", "parser"], "leak_clean": True}
ENV = {"VERIF_LEAKCHECK": "1"}
RULE = ("allloops: cif_container_get_all_loops on 1..8 loops with / without category x every fault position; loophdr: parse_loop on a header of n = 1..6 (9) names + a refused duplicate x every fault position; getpackets: 1, 2, 3, 9 names and 10 names of one uthash bucket x every fault position; nextpacket: packets of 1..10 items with unknown / "
        "text / number / list / table (nested) values, handed over or dropped x every fault position; vclone / vdeser: cif_value_clone / cif_value_deserialize of value trees with tables at any depth (12 hand-picked: empty tables, "
        "table in list in table, a bucket expansion inside a nested table; 25 / 400 random trees of depth <= 3) x every fault position; "
        "namesnorm: n = 1..5 names x every fault position; deser of table blobs: 0, 1, 3 and 11 (one bucket) keys x value "
        "shapes x every fault position; mapset / mapdel / tclone: tables and packets with 0..10 keys sharing a uthash bucket (first bucket expansion at the 10th) "
        "and a table of 144 ordinary keys (first natural expansion), key new / present / present in another spelling, value "
        "NULL or of 4 shapes, every fault position; deser: every generated list shape without numbers x every fault position; packet: 0..9 names, each already normalised or respelled (13 fixed + random flag strings) x every fault position; "
        "copychar: 6 target shapes x fault positions 0..2; dup: n = 0..12 x every fault position 0..n+2; names: n = 1..8 stored item names x every fault position 0..2n+2; clone / insert / set: value shapes (scalars, numbers with and without su, "
        "lists nested <= 3, width <= 4; random beyond the enumerated small ones) x every fault position 0..(allocations+1); "
        "non-trivial = a fault position that is reached; oracle: on failure nothing allocated in the call stays live, no "
        "block is released twice, result is CIF_MEMORY_ERROR/CIF_ERROR; on success rc = 0")


def nallocs(sh):
    """number of allocation requests of cif_value_clone for a shape given as nested python lists / strings"""
    if sh == "S":
        return 1
    if sh == "C":
        return 2
    if sh == "M0":
        return 3
    if sh == "M1":
        return 4
    return 2 + sum(nallocs(e) for e in sh)


TARGETS = [["C", "M1"], "S", "C", "M0", [], [["C"], "S", "M1"]]


def toks(sh):
    if isinstance(sh, str):
        return [sh]
    out = ["["]
    for e in sh:
        out += toks(e)
    return out + ["]"]


def rand_shape(r, depth):
    k = r.random()
    if depth > 0 and k < 0.4:
        return [rand_shape(r, depth - 1) for _ in range(r.randint(0, 4))]
    return r.choice(["S", "C", "C", "M0", "M1"])


_M = 0xffffffff


def _jen_mix(a, b, c):
    a = (a - b) & _M; a = (a - c) & _M; a ^= (c >> 13)
    b = (b - c) & _M; b = (b - a) & _M; b ^= (a << 8) & _M
    c = (c - a) & _M; c = (c - b) & _M; c ^= (b >> 13)
    a = (a - b) & _M; a = (a - c) & _M; a ^= (c >> 12)
    b = (b - c) & _M; b = (b - a) & _M; b ^= (a << 16) & _M
    c = (c - a) & _M; c = (c - b) & _M; c ^= (b >> 5)
    a = (a - b) & _M; a = (a - c) & _M; a ^= (c >> 3)
    b = (b - c) & _M; b = (b - a) & _M; b ^= (a << 10) & _M
    c = (c - a) & _M; c = (c - b) & _M; c ^= (b >> 15)
    return a, b, c


def jen_hash(text):
    """uthash's HASH_JEN over the UTF-16LE bytes of a key (only used to CRAFT keys that share a bucket; the Lean model has
    its own transcription and the real uthash decides what actually happens)"""
    key = []
    for ch in text:
        key += [ord(ch) & 255, ord(ch) >> 8]
    h = 0xfeedbeef; i = j = 0x9e3779b9; k = len(key); p = 0
    while k >= 12:
        w = lambda o: sum(key[p + o + t] << (8 * t) for t in range(4))
        i = (i + w(0)) & _M; j = (j + w(4)) & _M; h = (h + w(8)) & _M
        i, j, h = _jen_mix(i, j, h); p += 12; k -= 12
    g = lambda n: key[p + n] if n < k else 0
    h = (h + len(key) + (g(10) << 24) + (g(9) << 16) + (g(8) << 8)) & _M
    j = (j + (g(7) << 24) + (g(6) << 16) + (g(5) << 8) + g(4)) & _M
    i = (i + (g(3) << 24) + (g(2) << 16) + (g(1) << 8) + g(0)) & _M
    return _jen_mix(i, j, h)[2]


def colliding(prefix, bucket, nbits, count):
    out, n = [], 0
    while len(out) < count:
        t = "%s%d" % (prefix, n); n += 1
        if jen_hash(t) & ((1 << nbits) - 1) == bucket:
            out.append(t)
    return out


def hx(t):
    return "".join("%04x" % ord(c) for c in t)


def keytok(orig, norm=None):
    return hx(orig) if norm is None or norm == orig else hx(orig) + ":" + hx(norm)


def map_requests(r, tier):
    """cif_map_set_item / remove / cif_value_clone_table: maps of several sizes (empty; below, at and just after uthash's
    first bucket expansion, reached with keys crafted to share a bucket, and — tables — with 144 ordinary keys, where the
    first natural expansion happens), key new / present in the same spelling / present in another spelling, value NULL
    or of several shapes, every fault position"""
    tcoll = colliding("k", 3, 5, 12)                 # table keys sharing bucket 3 of 32
    pcoll = colliding("_p", 7, 5, 12)                # item names sharing bucket 7 of 32 (already lower case)
    vals = ["~", "S", "C", "M1", ["C", ["S"]]]
    for kind, coll, fresh, resp in (("T", tcoll, "zz", ("e" + chr(0x301), chr(0xe9))), ("P", pcoll, "_zz", ("_ZZ", "_zz"))):
        sets = [[], coll[:1], coll[:3], coll[:8], coll[:9], coll[:10]]
        for keys in sets:
            kt = " ".join(keytok(k) for k in keys)
            cases = [(fresh, None)]                                   # a new key
            if keys:
                cases.append((keys[0], None))                           # present, same spelling
            if len(keys) in (1, 9):
                cases.append((coll[len(keys)], None))                   # a new key sharing the bucket (9 -> expansion)
            for (ko, kn) in cases:
                for v in (vals if len(keys) in (0, 1, 9) else vals[:3]):
                    vt = v if isinstance(v, str) else " ".join(toks(v))
                    nv = 0 if v == "~" else nallocs(v)
                    for k in range(0, (3 if kind == "P" else 1) + 2 + nv + 3 + 2):
                        yield " ".join(("ladder mapset %s %d %s %s %s %d" % (kind, len(keys), kt, keytok(ko, kn), vt, k)).split())
        # present under another spelling: the item is respelled
        for v in vals:
            vt = v if isinstance(v, str) else " ".join(toks(v))
            nv = 0 if v == "~" else nallocs(v)
            for k in range(0, (3 if kind == "P" else 1) + 1 + nv + 2):
                yield " ".join(("ladder mapset %s 2 %s %s %s %s %d" % (kind, keytok(coll[0]), keytok(resp[1]), keytok(resp[0], resp[1]), vt, k)).split())
        for keys in ([], coll[:1], coll[:2], coll[:10]):
            kt = " ".join(keytok(k) for k in keys)
            for key in ([fresh] + keys[:1] + keys[-1:]):
                for keep in (0, 1):
                    for k in range(0, (3 if kind == "P" else 1) + 2):
                        yield " ".join(("ladder mapdel %s %d %s %s %d %d" % (kind, len(keys), kt, keytok(key), keep, k)).split())
    big = ["r%d" % i for i in range(145)]               # the 145th ordinary key triggers the first natural expansion
    for n in ((144,) if tier == "quick" else (143, 144, 145, 317)):
        ks = ["r%d" % i for i in range(n + 1)]
        for k in range(0, 7):
            yield "ladder mapset T %d %s %s ~ %d" % (n, " ".join(hx(x) for x in ks[:n]), hx(ks[n]), k)
    for keys, shapes in (([], ["S"]), (tcoll[:1], ["S", "C", "M1", ["C"]]), (tcoll[:3], ["S", "C", ["C", "M0"]]),
                         (tcoll[:11], ["S", "C"])):
        for sh in shapes:
            st = sh if isinstance(sh, str) else " ".join(toks(sh))
            total = 1 + len(keys) * (3 + nallocs(sh)) + (2 if keys else 0) + (1 if len(keys) >= 10 else 0)
            for k in range(0, total + 2):
                yield " ".join(("ladder tclone T %d %s %s %d" % (len(keys), " ".join(keytok(x) for x in keys), st, k)).split())


# ---- arbitrary value trees (Model/LadderTree): tables are ("T", [(key, value), …]) ---------------------------------

def vtoks(sh):
    if isinstance(sh, str):
        return [sh]
    if isinstance(sh, tuple):
        out = ["{"]
        for k, v in sh[1]:
            out += [hx(k)] + vtoks(v)
        return out + ["}"]
    out = ["["]
    for e in sh:
        out += vtoks(e)
    return out + ["]"]


def vbound(sh):
    """an upper bound of the number of requests of cif_value_clone (and so of cif_value_deserialize) for a tree: the exact
    count without bucket expansions plus one per 9 entries of a table (an expansion needs at least 10 items)"""
    if isinstance(sh, str):
        return nallocs(sh)
    if isinstance(sh, tuple):
        es = sh[1]
        return 1 + sum(3 + vbound(v) for _, v in es) + (2 if es else 0) + len(es) // 9
    return 2 + sum(vbound(e) for e in sh)


def has_table(sh):
    if isinstance(sh, tuple):
        return True
    return (not isinstance(sh, str)) and any(has_table(e) for e in sh)


def rand_tree(r, depth, pool):
    x = r.random()
    if depth > 0 and x < 0.25:
        return [rand_tree(r, depth - 1, pool) for _ in range(r.randint(0, 3))]
    if depth > 0 and x < 0.55:
        keys = r.sample(pool, r.randint(0, 3))
        return ("T", [(k, rand_tree(r, depth - 1, pool)) for k in keys])
    return r.choice(["S", "C", "C", "M0", "M1"])


def tree_requests(r, tier):
    """cif_value_clone / cif_value_deserialize of values with tables at any depth: hand-picked trees (empty tables, tables in
    lists in tables, 11 keys of one uthash bucket inside a NESTED table so that the bucket expansion happens there) and
    random trees, every fault position"""
    coll = colliding("k", 3, 5, 12)
    T = lambda *kv: ("T", list(kv))
    trees = [T(), T(("a", "S")), T(("a", "C"), ("b", "M1")), [T(("a", "C"))], ["C", T(("a", [T(("b", "M0"))])), "S"],
             T(("a", T(("b", T(("c", "C")))))), T(("a", []), ("b", T())), [T(), T()],
             T(("a", ["C", T(("b", "M1"), ("c", []))]), ("d", T(("a", "S")))),
             T(("x", T(*[(k, "S") for k in coll[:11]]))),            # expansion in a nested table (10th item of one bucket)
             [T(*[(k, "C") for k in coll[:10]])],                    # … in a table that is a list element
             T((coll[0], T(*[(k, "S") for k in coll[:10]])), (coll[1], "C"))]
    if tier != "quick":
        trees += [T(*[(k, T((coll[0], "C"))) for k in coll[:11]]),  # expansion of the OUTER table while inner tables exist
                  T(*[("r%d" % i, "S") for i in range(40)])]     # (MAXEV = 400 events per window bounds the size)
    pool = coll[:6] + ["a", "b", "zz", "e" + chr(0x301)]
    n_rand = 25 if tier == "quick" else 400
    while n_rand > 0:
        t = rand_tree(r, 3, pool)
        if has_table(t) and vbound(t) <= 90:
            trees.append(t); n_rand -= 1
    for t in trees:
        tt = " ".join(vtoks(t))
        for k in range(0, vbound(t) + 2):
            yield "ladder vclone %s %d" % (tt, k)
        if not isinstance(t, str):
            for k in range(0, vbound(t) + 1):
                yield "ladder vdeser %s %d" % (tt, k)
    # the table-free shapes go through the general model too
    for sh in ["S", "C", "M1", [], ["C", "M0"], [[], ["C", ["M1"]], "S"]]:
        for k in range(0, nallocs(sh) + 2):
            yield "ladder vclone %s %d" % (" ".join(toks(sh)), k)
        if isinstance(sh, list):
            for k in range(0, nallocs(sh) + 1):
                yield "ladder vdeser %s %d" % (" ".join(toks(sh)), k)


def iter_requests(r, tier):
    """cif_loop_get_packets (name set) and cif_pktitr_next_packet (packet assembly).  The order of the names in the iterator's
    array is SQLite's, so only name sets whose uthash behaviour does not depend on the insertion order are used: up to 9
    names (no bucket can reach the expansion threshold) and exactly 10 names of one bucket (expansion at the 10th insertion)."""
    pcoll = colliding("_p", 7, 5, 10)
    sets = [["_a"], ["_a", "_b"], ["_a", "_b", "_c.d"], ["_n%d" % i for i in range(9)], pcoll]
    if tier != "quick":
        sets += [["_n%d" % i for i in range(5)], pcoll[:7]]
    for names in sets:
        n = len(names)
        total = 1 + 5 * n + 1 + n + 2 + (1 if n >= 10 else 0)
        for k in range(0, total + 2):
            yield "ladder getpackets %d %s %d" % (n, " ".join(hx(x) for x in names), k)
    T = lambda *kv: ("T", list(kv))
    vals = ["S", "C", "M0", "M1", ["C", "M1"], T(("a", "C")), ["S", T(("k", ["C"]), ("b", T()))], []]
    packets = [[("_a", v)] for v in vals]
    packets += [[("_a", "C"), ("_b", "M1")], [("_a", ["C"]), ("_b", "S"), ("_c", T(("x", "M0")))],
                [(nm, "C") for nm in pcoll], [("_n%d" % i, vals[i % len(vals)]) for i in range(9)]]
    for _ in range(4 if tier == "quick" else 60):
        packets.append([("_r%d" % i, rand_tree(r, 2, ["a", "b", "zz"])) for i in range(r.randint(1, 5))])
    for p in packets:
        n = len(p)
        body = " ".join("%s %s" % (hx(nm), " ".join(vtoks(v))) for nm, v in p)
        total = 1 + 2 * n + 2 + (1 if n >= 10 else 0) + sum(vbound(v) for _, v in p)
        for keep in (0, 1):
            for k in range(0, total + 2):
                yield "ladder nextpacket %d %d %s %d" % (keep, n, body, k)


def rand_nonum(r, depth):
    if depth > 0 and r.random() < 0.4:
        return [rand_nonum(r, depth - 1) for _ in range(r.randint(0, 4))]
    return r.choice(["S", "C", "C"])


def generate(seed, tier):
    r = rng(seed, FAMILY)
    for n in range(0, 13 if tier == "quick" else 40):
        for k in range(0, n + 3):
            yield "ladder dup %d %d" % (n, k)
    for n in range(1, 9 if tier == "quick" else 30):
        for k in range(0, 2 * n + 3):
            yield "ladder names %d %d" % (n, k)
    for n in range(1, 6 if tier == "quick" else 20):
        for k in range(0, 5 * n + 3):
            yield "ladder namesnorm %d %d" % (n, k)
    # blobs of tables (entry values: scalars, text, numbers, lists of such); 11 keys of one bucket: expansion while reading
    tk = colliding("k", 3, 5, 11)
    for keys, vshapes in (([], ["S"]), (tk[:1], ["S", "C", "M1", ["C", "M0"]]), (tk[:3], ["C", ["S", ["C"]]]), (tk, ["S"])):
        for vs in vshapes:
            n1 = nallocs(vs)                       # entry object + components = the clone's count
            total = len(keys) * (2 + n1) + (2 if keys else 0) + (1 if len(keys) >= 10 else 0)
            body = " ".join("%s %s" % (hx(x), vs if isinstance(vs, str) else " ".join(toks(vs))) for x in keys)
            for k in range(0, total + 2):
                yield " ".join(("ladder deser { %s } %d" % (body, k)).split())
    for q in map_requests(r, tier):
        yield q
    for q in tree_requests(r, tier):
        yield q
    for q in iter_requests(r, tier):
        yield q
    # cif_container_get_all_loops: one loop per flag (c = with category, n = without)
    for fl in ["c", "n", "cc", "cn", "nc", "ccc", "cnc", "nnn", "ccccc"] + ["".join(r.choice("cn") for _ in range(r.randint(1, 8))) for _ in range(4 if tier == "quick" else 40)]:
        for k in range(0, len(fl) + fl.count("c") + 3):
            yield "ladder allloops %s %d" % (fl, k)
    # parse_loop_header + parse_loop's release of the name list: n distinct names and a refused repetition of the first
    # (harness/alloc.h records at most MAXEV = 400 events per window: n <= 9 keeps requests + releases below that)
    for n in (range(1, 7) if tier == "quick" else range(1, 10)):
        total = sum(5 + 3 * i for i in range(n)) + 8
        for k in range(0, total + 2):
            yield "ladder loophdr %d %d" % (n, k)
    # cif_packet_create: at most 9 names, so that no uthash bucket can reach the expansion threshold of 10 entries
    flagsets = ["-", "n", "r", "nn", "nr", "rn", "rr", "nrn", "rrn", "nnnn", "rnrnr", "rrrrrrrrr", "nnnnnnnnn"]
    flagsets += ["".join(r.choice("nr") for _ in range(r.randint(1, 9))) for _ in range(6 if tier == "quick" else 80)]
    for fl in flagsets:
        n = 0 if fl == "-" else len(fl)
        total = 1 + 3 * n + 1 + n + (2 if n else 0) + fl.count("r")
        for k in range(0, total + 2):
            yield "ladder packet %s %d" % (fl, k)
    for tsh in TARGETS:
        for k in range(0, 3):
            yield "ladder copychar %s %d" % (" ".join(toks(tsh)), k)
    shapes = ["S", "C", "M0", "M1", [], ["C"], ["C", "M1"], [[]], [["C"], "S"], ["M0", ["C", ["M1"]], "C"]]
    shapes += [[], ["S"], ["C", "S", "C"], [[], "C"], ["C", ["C", ["C", "S"]], [], "C"]]
    shapes += [rand_shape(r, 3) for _ in range(40 if tier == "quick" else 600)]
    shapes += [[rand_nonum(r, 2) for _ in range(r.randint(0, 4))] for _ in range(12 if tier == "quick" else 150)]
    for sh in shapes:
        n = nallocs(sh)
        for k in range(0, n + 2):
            yield "ladder clone %s %d" % (" ".join(toks(sh)), k)
        if len(toks(sh)) < 30:
            for full in (0, 1):
                for k in range(0, n + 3):
                    yield "ladder insert %d %s %d" % (full, " ".join(toks(sh)), k)
        if isinstance(sh, list):
            # blob of a list: the requests are a subset of the clone's (no top object, no array for an empty list), so
            # 0..n+1 covers every fault position
            for k in range(0, n + 2):
                yield "ladder deser %s %d" % (" ".join(toks(sh)), k)
        # replace an existing element (of a few different shapes) by a clone of sh: the clone is built in a scratch object
        # (n requests), fault positions 0..n+1
        for tsh in (TARGETS if len(toks(sh)) < 12 else TARGETS[:2]):
            for k in range(0, n + 2):
                yield "ladder set %s %s %d" % (" ".join(toks(tsh)), " ".join(toks(sh)), k)


def _f(obs, name):
    for t in obs.split():
        if t.startswith(name + "="):
            return t[len(name) + 1:]
    return None


def finding_class(req, impl, model, why):
    """no class of this family is an open finding any more (the node leak of cif_loop_get_names_internal, the NULL table of
    cif_packet_create_norm and the entry released while linked in cif_map_set_item / cif_value_clone_table are repaired in /repo:
    0850ab1, 07fe35a, 7285a53), so nothing is keyed and every failure is reported as a VIOLATION"""
    return None


def nontrivial(req, impl):
    return _f(impl, "fails") not in (None, "-")


def classify(req, impl):
    return req.split()[1] + (":fault" if nontrivial(req, impl) else ":nofault")


def oracle(req, impl):
    if not impl.startswith("ld "):
        return None
    if impl.rstrip().endswith(" overflow") or " overflow " in impl:
        return "harness limit: more than MAXEV events in the window (the request is too large for this executor)"
    if "!LEAK" in impl:
        return "memory leaked"
    for bad in ("later-insert=", "unreadable@", "size="):
        if bad in impl:
            return "the caller's list is not usable as a list after the call: " + impl.split(bad, 1)[1].split()[0].join([bad, ""])
    for mark, what in (("!NOCLONE", "cif_value_clone returned CIF_OK without a clone"), ("!CLONESET", "cif_value_clone failed but set *clone")):
        if mark in impl:
            return what
    for mark, what in (("!NOITER", "cif_loop_get_packets returned CIF_OK without an iterator"), ("!ITERSET", "cif_loop_get_packets failed but set *iterator"),
                       ("!RETRY", "cif_loop_get_packets did not succeed when repeated with memory available"), ("!ITERUSE", "the iterator is not usable"),
                       ("!PACKETSET", "cif_pktitr_next_packet failed but set *packet"),
                       ("!NOLOOPS", "cif_container_get_all_loops returned CIF_OK without loops"), ("!LOOPUSE", "a loop handle returned by cif_container_get_all_loops is not usable"),
                       ("!LOOPCOUNT", "cif_container_get_all_loops returned the wrong number of loops"), ("!LOOPSSET", "cif_container_get_all_loops failed but set *loops"), ("!PVALUE", "the packet read through the iterator does not hold the stored value")):
        if mark in impl:
            return what
    for mark in ("!PNAME", "!PCOUNT", "!PITEM", "!NOPACKET", "!TEXT", "!NEWVALUE"):
        if mark in impl:
            return "after success the created packet / the character value is not what was requested: " + mark
    if "!NAMES" in impl or "setup-failed" in impl:
        return "cif_loop_get_names: wrong number of names / set-up failed"
    for mark, what in (("!COUNT", "the list lost or gained elements"), ("!ELEM", "the target element is no longer retrievable"),
                       ("!NEWVALUE", "after success the target element does not equal the source")):
        if mark in impl:
            return "cif_value_set_element_at: " + what
    rc, fails, live, frees = _f(impl, "rc"), _f(impl, "fails"), _f(impl, "live"), _f(impl, "frees")
    if frees and frees != "-":
        ids = frees.split(",")
        if len(ids) != len(set(ids)):
            return "a block was released twice: frees=%s" % frees
    t = req.split()
    if "!ITEM" in impl:
        return "an item of the map cannot be retrieved after the call"
    if fails == "-":
        if t[1] == "loophdr":
            # the refused duplicate name ends the parse with the callback's code; the header's name list must be gone
            if rc != "41":
                return "no allocation failed but parse_loop returned %s instead of the refused CIF_DUP_ITEMNAME" % rc
            return None if live == "-" else "parse_loop left blocks %s of the header live" % live
        if t[1] == "mapdel" and rc == "43":
            # CIF_NOSUCH_ITEM is the documented answer for a key that is not in the map
            keys = [x.split(":")[-1] for x in t[4:4 + int(t[3])]]
            return None if t[4 + int(t[3])].split(":")[-1] not in keys else "the key is in the map but the call returned CIF_NOSUCH_ITEM"
        return None if rc == "0" else "no allocation failed but the call returned %s" % rc
    if rc != "E":
        return "an allocation failed but the call returned %s" % rc
    if live != "-":
        if t[1] == "mapset" and "," not in live and ":" in t[4 + int(t[3])]:
            # an existing item set under another spelling: the copy of the new spelling already belongs to the item when
            # the clone of the value fails; it is owned by the map (released with it: no !LEAK), not lost
            return None
        return "allocation failure: blocks %s allocated during the call were not released" % live
    return None
