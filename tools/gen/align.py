"""family `align` (C08, implementation-level oracle only — no model): documents padded with whitespace / comments so that every
interesting unit lands on chosen byte offsets relative to the 4096-byte read buffer of ustream_read_chars and to the scan buffer
of parser.c, parsed by the real cif_parse from an in-memory file, compared with the unpadded LF form (harness/x_align.c)."""
import os, sys
sys.path.insert(0, os.path.dirname(os.path.abspath(__file__)))
from common import hexs, rng

FAMILY = "align"
HARNESS = {"source": "x_align.c", "leak_clean": True}
RULE = ("for each of ~20 constructs (CR LF / CR terminators, text fields, quoted strings with embedded quotes, triple quotes, "
        "multi-byte UTF-8 and supplementary characters, data names, keywords, list/table delimiters, comments): the construct "
        "placed at every byte offset 4090..4100, 8186..8196 and around 131072 / 129150 / 131200 (scan-buffer limits), with "
        "terminator styles LF / CR LF / CR / mixed, padding by blank lines / comment lines / empty lines, UTF-8 and UTF-16LE; "
        "single tokens (text field, quoted string) of 70 000 and 140 000 units at several alignments. oracle: canonical content "
        "dump, return code and (code, line) error log equal those of the unpadded LF form (line numbers shifted by the padding). "
        "non-trivial = every case")

V2 = "#\\#CIF_2.0\n"
# (name, cif2?, head-after-magic, tail) — the tail starts with the interesting unit
CONSTRUCTS = [
    ("eol", False, "data_t\n_a 1\n", "\n_b 2\n\n_c 3\n"),
    ("text", False, "data_t\n_a\n", ";first\nsecond line\n ;not the end\n;\n_b 2\n"),
    ("text-empty-lines", False, "data_t\n_a\n", ";\n\n\nx\n\n;\n_b 2\n"),
    ("squote", False, "data_t\n_a\n", "'it's a value' _b \"dq \"\"x\" \n"),
    ("oneil", False, "data_t\n_a\n", "'O'Neil'\n"),
    ("oneil-eof", False, "data_t\n_a\n", "'O'Neil'"),
    ("dquote-embedded", False, "data_t\n_a\n", "\"a\"b\"c\" _b 2\n"),
    ("name", False, "data_t\n", "_a_long_name 1 _b 2\n"),
    ("loop", False, "data_t\n", "loop_ _a _b 1 2 3 4\n"),
    ("block", False, "data_t\n_a 1\n", "data_u _b 2 save_f _c 3 save_ _d 4\n"),
    ("comment", False, "data_t\n_a 1\n", "# a comment ; ' \" [ {\n_b 2\n"),
    ("unterminated", False, "data_t\n_a\n", "'no end\n_b 2\n"),
    ("folded", True, "data_t\n_a\n", ";\\\nab\\\ncd\\\\\n;\n_b 2\n"),
    ("triple", True, "data_t\n_a\n", "'''x'y''z\nsecond''' _b \"\"\"q\"\"\"\n"),
    ("list", True, "data_t\n_a\n", "[1 2 {'k':v 'l':[x y]} 'q']\n"),
    ("utf8-2", True, "data_t\n_a\n", "éèü _b 2\n"),
    ("utf8-3", True, "data_t\n_a\n", "中文字 _b 2\n"),
    ("utf8-4", True, "data_t\n_a\n", "\U0001F600\U0001F601x _b '\U00010000'\n"),
    ("bad-char", True, "data_t\n_a\n", "a￾b\x07c _b 2\n"),
]
SUFFIX = "_z end\n"

# constructs whose END matters: (name, head-after-magic, body ending with the closing delimiter, rest).  In CIF 2.0 the scanner
# looks one character ahead after a closing delimiter (for the ':' of a table key, for a third quote, for the whitespace that
# must follow); when that delimiter is the last character buffered the look-ahead refills the scan buffer, and at the offsets
# where the buffer has just become full it is compacted / doubled at that very moment.
END_CONSTRUCTS = [
    ("text-value", "data_t\n_a\n", ";line one\nline two\n;", "\n_b 2\n"),
    ("text-in-list", "data_t\n_a [\n", ";tf\nmore\n;", "\n 'q' ]\n_b 2\n"),
    ("triple-value", "data_t\n_a\n", "'''abc\ndef'''", " _b 2\n"),
    ("triple-dq-value", "data_t\n_a\n", '"""x y"""', "\n_b 2\n"),
    ("quoted-value", "data_t\n_a\n", "'quoted v'", " _b 2\n"),
    ("dquoted-value", "data_t\n_a\n", '"dq"', "\n_b 2\n"),
    ("quoted-key", "data_t\n_a {\n", "'key'", ":v 'k2':'w'}\n_b 2\n"),
    ("triple-key", "data_t\n_a {\n", "'''tk'''", ":[1 2]}\n_b 2\n"),
    ("unquoted-value", "data_t\n_a\n", "plain_value", "\n_b 2\n"),
    ("name", "data_t\n", "_a_name", " 1 _b 2\n"),
]


def scan_consts():
    consts = {}
    path = os.path.join(os.path.dirname(os.path.abspath(__file__)), "..", "..", "lean", "CifModel", "Gen", "ParseConsts.lean")
    try:
        import re
        for k, v in re.findall(r"^def (\w+) : Nat := (\d+)", open(path).read(), re.M):
            consts[k] = int(v)
    except OSError:
        pass
    return consts


def scan_buffer_points():
    """byte offsets (ASCII / LF input, 4096-byte reads) at which the scan buffer of parser.c is compacted or doubled: the first
    multiple of the read size at which fewer than BUF_MIN_FILL units of room remain, and its multiples — derived from the
    constants the translator extracts from the sources"""
    consts = {}
    path = os.path.join(os.path.dirname(os.path.abspath(__file__)), "..", "..", "lean", "CifModel", "Gen", "ParseConsts.lean")
    try:
        import re
        for k, v in re.findall(r"^def (\w+) : Nat := (\d+)", open(path).read(), re.M):
            consts[k] = int(v)
    except OSError:
        pass
    size = consts.get("bufSizeInitial", 131200)
    minfill = consts.get("bufMinFill", 2050)
    read = consts.get("byteBufferSize", 4096)
    first = ((size - minfill) // read + 1) * read
    return [first, 2 * first], read


def req(enc, style, n, head, pad, tail):
    return "align %s %s %d %s %s %s" % (enc, style, n, head, pad, tail)


def generate(seed, tier):
    r = rng(seed, FAMILY)
    thorough = tier != "quick"
    near = list(range(4090, 4101)) + list(range(8186, 8197)) if thorough else [4093, 4094, 4095, 4096, 4097, 4098, 8190, 8191, 8192, 8193, 8194]
    far = [129148, 129150, 129152, 131070, 131071, 131072, 131073, 131074, 131198, 131200, 131202, 262143, 262144, 262145]
    for name, v2, head, tail in CONSTRUCTS:
        h = hexs((V2 if v2 else "") + head)
        t = hexs(tail + ("" if name.endswith("-eof") else SUFFIX))
        for n in near:
            for style in ("lf", "crlf", "cr", "mix"):
                pads = "scb" if thorough else r.choice(["sc", "cb", "sb"])
                for pad in pads:
                    yield req("utf8", style, n, h, pad, t)
            yield req("utf16le", r.choice(["crlf", "cr", "mix"]), n, h, r.choice("scb"), t)
        for n in (far if thorough else r.sample(far, 5)):
            yield req("utf8", r.choice(["lf", "crlf", "cr", "mix"]), n, h, r.choice("sc"), t)
        # the very first characters of the input (get_first_char reads up to two units on its own): blank / comment lines in front
        # of a document without magic code, in every terminator style
        if not v2:
            for lead in ("\n", "\n\n", "\n \n", "\n#x\n", " \n"):
                for style in ("lf", "crlf", "cr", "mix"):
                    yield req("utf8", style, len(lead) + len(head) + 40, hexs(lead + head), "s", t)
                    # only the TAIL is re-spelled by the executor: the whole document as tail, no head, no padding, so that the very
                    # first terminator of the input is a CR / CR LF too
                    yield req("utf8", style, 0, "-", "s", hexs(lead + head + tail + ("" if name.endswith("-eof") else SUFFIX)))
                yield req("utf16le", r.choice(["crlf", "cr"]), len(lead) + len(head) + 40, hexs(lead + head), "s", t)
        # every delimiter / terminator / non-ASCII character INSIDE the construct on the buffer boundaries as well
        spots = [len(tail[:i].encode("utf-8")) for i, ch in enumerate(tail) if ch in ";'\"[]{}\n_#:\\" or ord(ch) > 126]
        for k in (spots if thorough else r.sample(spots, min(6, len(spots)))):
            for boundary in (4096, 8192):
                for d in ((-1, 0, 1) if thorough else (r.choice((-1, 0, 1)),)):
                    if boundary - k + d > len(head) + 12:
                        yield req("utf8", r.choice(["lf", "crlf", "cr", "mix"]), boundary - k + d, h, r.choice("scb"), t)
        # a tail that ends exactly one read-buffer further: the final fill is a short one
        yield req("utf8", "crlf", 4096 - len(tail.encode("utf-8")), h, "s", t)
    # the END of a value / key / name on the offsets where the scan buffer is compacted or doubled, and on the read-buffer boundaries
    points, read = scan_buffer_points()
    for name, head, body, rest in END_CONSTRUCTS:
        h = hexs(V2 + head)
        t = hexs(body + rest + SUFFIX)
        blen = len(body.encode("utf-8"))
        for b in points + [read, 2 * read]:
            big = b > 4 * read
            for d in (range(-6, 7) if thorough else ((-2, -1, 0, 1, 2) if big else (-1, 0, 1))):
                yield req("utf8", "lf", b - blen + d, h, "s" if (d % 2 == 0) else "c", t)
            if thorough:
                yield req("utf8", "crlf", b - blen - body.count("\n"), h, "s", t)
    # one token that outgrows the scan buffer, starting `start` bytes into the file.  With 4096-byte reads the buffer (doubled
    # once the token fills more than half of it) holds 2*first - start units when exactly `leave = 2*size - 2*first + start`
    # units of room remain; for leave >= BUF_MIN_FILL nothing is moved, the next 4096-byte read does not fit, the buffer is filled
    # to its very last unit (a surrogate pair can be cut there) and — if that read is the last of the file — the rest of the
    # final chunk has to be delivered by one more call.
    consts = scan_consts()
    size, minfill = consts.get("bufSizeInitial", 131200), consts.get("bufMinFill", 2050)
    first = points[0]
    lo, hi = minfill - (2 * size - 2 * first), read - 1 - (2 * size - 2 * first)          # 1794 .. 3839 for the shipped constants
    starts = [lo, lo + 1, (lo + hi) // 2, hi - 1, hi] if thorough else [lo, r.randint(lo + 1, hi - 1), hi]
    line = "x" * 69 + "\n"
    hl = hexs(V2 + "data_t\n_a\n")

    def long_text(total_units, supp_at=None):
        """a text field of exactly total_units units (delimiters included); optionally a supplementary character whose lead
        surrogate is the unit number supp_at of the token"""
        segs = [hexs(";")]
        used = 1
        closing = "\n;"
        if supp_at is not None:
            k, f = divmod(supp_at - used, 70)
            segs.append("R%d:%s" % (k, hexs(line)))
            segs.append(hexs("x" * f + "\U0001F600\U0001F601 zz\n"))
            used += 70 * k + f + 2 + 2 + 4
        k, f = divmod(total_units - used - len(closing), 70)
        segs.append("R%d:%s" % (k, hexs(line)))
        segs.append(hexs("y" * f + closing))
        return "+".join(segs)
    for start in starts:
        leave = 2 * size - 2 * first + start
        # (a) the supplementary character on the last unit of the full buffer (token-relative offset 2*size - 1) and around it
        for d in ((-2, -1, 0, 1) if thorough else (-1, 0)):
            yield req("utf8", "lf", start, hl, "s", long_text(2 * size + 3000, 2 * size - 1 + d) + "+" + hexs("\n_b 2\n" + SUFFIX))
        # (b) the file ends m bytes after the boundary 2*first: the final chunk fits (m <= leave) or does not (m > leave)
        for m in ([leave - 1, leave, leave + 1, leave + 2, (leave + read) // 2, read - 1] if thorough else [leave, leave + 1, leave + 100, (leave + read) // 2, read - 1]):
            if m < 12 or m >= read:
                continue
            tail_rest = "\n_b 2\n"
            total_units = 2 * first + m - start - len(tail_rest)
            yield req("utf8", "lf", start, hl, "c", long_text(total_units) + "+" + hexs(tail_rest))
        # (c) the same one level down: a token of more than half the initial buffer (>= size/2) that is moved / doubled once
        yield req("utf8", r.choice(["lf", "crlf"]), start, hl, "s", long_text(size // 2 + 700) + "+" + hexs("\n_b 2\n" + SUFFIX))
        yield req("utf8", "lf", start, hl, "s", long_text(size + 100, size // 2 + 5) + "+" + hexs("\n_b 2\n" + SUFFIX))
    # random offsets
    for _ in range(3000 if thorough else 300):
        name, v2, head, tail = r.choice(CONSTRUCTS)
        n = r.choice([r.randint(100, 9000), 4096 * r.randint(1, 40) + r.randint(-3, 3)])
        yield req(r.choice(["utf8", "utf8", "utf16le"]), r.choice(["lf", "crlf", "cr", "mix"]), n,
                  hexs((V2 if v2 else "") + head), r.choice("scb"), hexs(tail + SUFFIX))
    # single tokens larger than half / all of the scan buffer (compaction, then doubling)
    h2 = hexs(V2 + "data_t\n_a\n")
    line = "x" * 69 + "\n"
    for units in (70000, 140000):
        k = units // 70
        for n in ([0, 1, 4095, 61000, 129000] if thorough else [0, 4095, 129000]):
            for style in ("lf", "crlf", "cr"):
                yield req("utf8", style, n, h2, "s", hexs(";") + "+R%d:%s+" % (k, hexs(line)) + hexs(";\n_b 2\n"))
        yield req("utf8", "lf", 4095, hexs(V2 + "data_t\n_a\n"), "c", hexs("'") + "+R%d:%s+" % (units, hexs("y")) + hexs("' _b 2\n"))
        yield req("utf16le", "crlf", 4094, h2, "s", hexs(";") + "+R%d:%s+" % (k, hexs(line)) + hexs(";\n_b 2\n"))


def oracle(req_, impl):
    if not impl.startswith("al "):
        return None
    if " same=1" in " " + impl:
        return None
    return "the parse of the padded / re-spelled document differs from the parse of the unpadded LF form: " + impl[:300]


def agree(impl, model, req_=None):
    return True                      # no model for this family: the oracle is the whole check


def finding_class(req_, impl, model, why):
    return None


def nontrivial(req_, impl):
    return True


def classify(req_, impl):
    t = req_.split(" ")
    n = int(t[3])
    where = "none" if n == 0 else ("4096" if abs(n - 4096) <= 6 else "8192" if abs(n - 8192) <= 6 else "scanbuf" if n > 100000 else "other")
    return "%s/%s/%s/%s" % (t[1], t[2], where, "long" if "+R" in t[6] else "short")


def shrink(req_):
    t = req_.split(" ")
    for style in ("lf",):
        if t[2] != style:
            yield " ".join(t[:2] + [style] + t[3:])
    for n in (0, 4096):
        if int(t[3]) != n and n < int(t[3]):
            yield " ".join(t[:3] + [str(n)] + t[4:])
