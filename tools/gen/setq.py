"""family `setq` (C18): cif_value_set_quoted / cif_value_try_quoted against the model and against the CIF 2.0 rule for
whitespace-delimited values"""
import itertools, os, re, sys
sys.path.insert(0, os.path.dirname(os.path.abspath(__file__)))
from common import hexs, unhexs, rng
import reserved as _res

FAMILY = "setq"
HARNESS = {"source": "x_setq.c", "leak_clean": True}
RULE = ("exhaustive: every string of length <= 3 (quick) / <= 4 (thorough) over [ ] { } SP TAB LF CR ? . _ a ' ; # $ d as a quoted "
        "character value x {set_quoted, try_quoted} x target flag; every kind (unk, na, list, table, number, unquoted char) x "
        "flag x function; reserved words in case mixtures; seeded strings with arbitrary units; non-trivial = quoted char value "
        "asked to become unquoted; oracle: set_quoted(NOT_QUOTED) returns CIF_OK iff the text is a CIF 2.0 whitespace-delimited "
        "string or is '?' / '.', with the documented resulting kind/flag/text, and a refused call leaves the value unchanged")

ALPHA = [ord(c) for c in "[]{} \t\n\r?._a';#$d"]
WS = " \t\n\r"
BR = "[]{}"
ARG = 6


def cif2_wsdelim(s):
    """wsdelim-string of the CIF 2.0 grammar: lead-char restrict-char*, not of reserved form ('?' and '.' are handled apart)"""
    if not s or any(c in WS + BR for c in s):
        return False
    if s[0] in "\"#$'_":
        return False
    return not _res.SPEC.match(s)


def generate(seed, tier):
    r = rng(seed, FAMILY)
    for spec in ["unk", "na", "lst", "tbl", "numb:0:0031002e0035", "numb:1:0031002e0035", "numb:0:0031", "chr:0:0061", "chr:0:00610020", "chr:0:-",
                 "chr:0:003f", "chr:1:003f", "chr:1:002e", "chr:0:002e", "chr:1:-"]:
        for q in (0, 1):
            for l in (0, 1):
                yield "setq %s %d %d" % (spec, q, l)
    for n in range(0, (4 if tier == "thorough" else 3) + 1):
        for s in itertools.product(ALPHA, repeat=n):
            h = hexs(list(s))
            yield "setq chr:1:%s 0 0" % h
            yield "setq chr:1:%s 0 1" % h
            if n <= 2:
                yield "setq chr:1:%s 1 0" % h
                yield "setq chr:0:%s 1 1" % h
                yield "setq chr:0:%s 0 0" % h
    for w in _res.WORDS:
        for m in _res.mixtures(w):
            for suf in ("", "x", "[", " "):
                for l in (0, 1):
                    yield "setq chr:1:%s 0 %d" % (hexs(m + suf), l)
    for _ in range(1500 if tier == "quick" else 15000):
        n = r.randrange(1, 9)
        s = [r.choice(ALPHA) if r.random() < 0.5 else r.randrange(1, 0x10000) for _ in range(n)]
        yield "setq chr:1:%s 0 %d" % (hexs(s), r.randrange(2))


def fields(impl):
    t = impl.split()
    if not t or t[0] != "sq" or len(t) != 5:
        return None
    return {k: v for k, v in (x.split("=", 1) for x in t[1:])}


def oracle(req, impl):
    f = fields(impl)
    if f is None:
        return None
    _, spec, q, lenient = req.split()
    q, lenient = int(q), int(lenient)
    rc, kind, fq, text = int(f["rc"]), int(f["kind"]), int(f["q"]), f["text"]
    p = spec.split(":")
    if p[0] != "chr":
        # documented: unk / na become the quoted strings "?" / "." when asked quoted; lists and tables cannot be quoted
        want = {"unk": (0, 0, 1, "003f") if q else (0, 5, 0, "~"), "na": (0, 0, 1, "002e") if q else (0, 4, 0, "~"),
                "lst": (ARG, 2, 0, "~") if q else (0, 2, 0, "~"), "tbl": (ARG, 3, 0, "~") if q else (0, 3, 0, "~"),
                "numb": (0, 1, q, p[2] if len(p) > 2 else "")}[p[0]]
        if (rc, kind, fq, text) != want:
            return "%s asked %s: got rc=%d kind=%d q=%d text=%s, documented %s" % (p[0], "quoted" if q else "unquoted", rc, kind, fq, text, want)
        return None
    vq, h = int(p[1]), p[2]
    s = "".join(chr(u) for u in unhexs(h))
    if q == 1 or vq == 0:
        if (rc, kind, fq, text) != (0, 0, q, h):
            return "flag change to %d on a char value that needs no test: rc=%d kind=%d q=%d text=%s" % (q, rc, kind, fq, text)
        return None
    # quoted -> unquoted
    if s == "?":
        want = (0, 5, 0, "~")
    elif s == ".":
        want = (0, 4, 0, "~")
    elif cif2_wsdelim(s):
        want = (0, 0, 0, h)
    else:
        only_brackets = bool(s) and not any(c in WS for c in s) and any(c in BR for c in s) and s[0] not in "\"#$'_" and not _res.SPEC.match(s)
        want = (0 if (lenient and only_brackets) else ARG, 0, 1, h)       # refused (or, try_quoted on brackets: OK but left quoted)
    if (rc, kind, fq, text) != want:
        return "%s(NOT_QUOTED) on %r: got rc=%d kind=%d q=%d text=%s, CIF 2.0 rule gives %s" % (
            "try_quoted" if lenient else "set_quoted", s, rc, kind, fq, text, want)
    return None


def nontrivial(req, impl):
    t = req.split()
    return t[1].startswith("chr:1:") and t[2] == "0"


def classify(req, impl):
    f = fields(impl)
    if f is None:
        return "no-answer"
    return "rc=%s kind=%s q=%s" % (f["rc"], f["kind"], f["q"])


def finding_class(req, impl, model, why):
    return None
