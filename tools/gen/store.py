"""family `store` (C04, C05): whole API histories on up to three managed CIFs.

Request language and observation format: harness/x_store.c.  The generator keeps a light shadow of the documented data
model only to CHOOSE ops (which names exist, which handles are stale): about half of the ops are constructed to fail,
each failure kind with the offending element at every position.  The oracle restates C04/C05 on the implementation's
observation alone (return codes, query results, autocommit flag, canonical dumps) and never looks at the model.
"""
import os, re, sys, unicodedata
sys.path.insert(0, os.path.dirname(os.path.abspath(__file__)))
from common import hexs, unhexs, rng
import cifdesc
import storecontract

FAMILY = "store"
HARNESS = {"source": "x_store.c", "leak_clean": True, "extra_sources": ["x_store_body.h", "cifio.h"]}
RULE = ("random API histories (quick: <= 40 ops, thorough: <= 120 ops) over <= 3 CIFs, <= 4 blocks, frame nesting <= 3, "
        "names from a small pool with case/normalisation variants and invalid forms, live and stale handles, ~50% of the "
        "ops constructed to fail (each failure kind x each offending position), some inside an open iterator; plus every combination of "
        "{nested-savepoint call inside an open iterator} x {1..3 successful updates} x {failing iterator call} x {close, abort}; "
        "non-trivial = at least one failing op and one successful modification; oracle = C05 (failed op: every dump and "
        "autocommit flag unchanged) + C04 invariants and op-specific post-conditions on the dumps")

OK, FINISHED, ERROR, INVALID_HANDLE, INTERNAL, ARGUMENT, MISUSE = 0, 1, 2, 4, 5, 6, 7
DUP_BLOCK, INVALID_BLOCK, NOSUCH_BLOCK, DUP_FRAME, INVALID_FRAME, NOSUCH_FRAME = 11, 12, 13, 21, 22, 23
CAT_NOT_UNIQUE, INVALID_CATEGORY, NOSUCH_LOOP, RESERVED_LOOP, WRONG_LOOP, EMPTY_LOOP, NULL_LOOP = 31, 32, 33, 34, 35, 36, 37
DUP_ITEM, INVALID_ITEM, NOSUCH_ITEM, AMBIGUOUS_ITEM, INVALID_PACKET = 41, 42, 43, 44, 52

F30_CLASS = None      # F30 (packets that omit items) is repaired in /repo (e266ec6): a recurrence is a violation
F32_CLASS = "set_category-null-takes-scalar-category"   # F34, fixed by 95b7b25: no open entry any more


def norm(s):
    """cif_normalize: NFC . casefold . NFD — for the pool below Python's unicodedata and ICU agree"""
    return unicodedata.normalize("NFC", unicodedata.normalize("NFD", s).casefold())


def valid_name(s, item):
    if item:
        if not (s.startswith("_") and len(s) > 1):
            return False
    elif not s:
        return False
    return not any(ord(c) <= 0x20 or 0x7f <= ord(c) < 0xa0 for c in s)


def name_tok(s, item, lenient=False):
    """lenient (mkblock / mkframe only): the call is the `_internal(..., lenient = 1)` one — no validity check, the code is still
    normalised (what the parser calls after its error callback accepted CIF_INVALID_BLOCKCODE / CIF_INVALID_FRAMECODE)"""
    if s is None:
        return "~"
    return "%s/%s/%d%s" % (hexs(s), hexs(norm(s)), 1 if valid_name(s, item) else 0, "/L" if lenient else "")


def cat_tok(c):
    return "~" if c is None else hexs(c)


CODES_OK = ["b1", "B1", "blk", "BLK", "é1", "É1", "é1", "d", "x.y"]
CODES_BAD = ["", "a b", "a\tb", "b\u007f"]
ITEMS_OK = ["_a", "_A", "_b", "_B", "_c", "_é", "_É", "_é", "_d.x", "_D.X", "_q"]
ITEMS_BAD = ["a", "_", "_a b", "", "_a\n"]
CATS = [None, "cat", "CAT", "c2"]


def rand_value_toks(r):
    k = r.random()
    if k < 0.75:
        return cifdesc.rand_value(r, depth=0)
    return cifdesc.rand_value(r, depth=1, width=2)


# ---------------------------------------------------------------------------------------------------------------------
# shadow used only to choose ops

class SCont:
    def __init__(self, cif, parent, orig, depth):
        self.cif, self.parent, self.orig, self.key, self.depth = cif, parent, orig, norm(orig), depth
        self.frames, self.loops, self.alive = {}, [], True

    def items(self):
        d = {}
        for l in self.loops:
            for k in l.names:
                d[k] = l
        return d

    def kill(self):
        self.alive = False
        for l in self.loops:
            l.alive = False
        for f in self.frames.values():
            f.kill()


class SLoop:
    def __init__(self, cont, cat, names):
        self.cont, self.cat, self.alive, self.npk = cont, cat, True, 0
        self.names = dict((norm(n), n) for n in names)


class History:
    def __init__(self, r, maxlen, fail_rate=0.5):
        self.r, self.toks, self.nops = r, [], 0
        self.cifs = []          # per slot: dict key -> SCont, or None
        self.chs, self.lhs, self.its = [], [], []     # shadow objects or None; lhs: (SLoop, ch index)
        self.open_it = {}       # cif slot -> iterator index
        self.fail_rate = fail_rate
        self.op("cif+")
        self.cifs.append({})
        n = r.randint(max(4, maxlen // 3), maxlen)
        while self.nops < n:
            self.one()

    # -- emit helpers
    def op(self, *t):
        self.toks += [str(x) for x in t]
        self.nops += 1

    avoid = None    # a CIF slot the generator stays away from (g_session: the CIF an iterator is open on)

    def live_cifs(self):
        return [i for i, c in enumerate(self.cifs) if c is not None and i != self.avoid]

    def live_chs(self, want_alive=True):
        return [i for i, c in enumerate(self.chs) if c is not None and self.cifs[c.cif] is not None and c.alive == want_alive
                and not getattr(c, "hdead", False) and c.cif != self.avoid]

    def live_lhs(self, want_alive=True):
        out = []
        for i, e in enumerate(self.lhs):
            if e is None:
                continue
            l, ch = e
            if self.chs[ch] is None or self.cifs[l.cont.cif] is None or l.cont.cif == self.avoid:
                continue
            if l.alive == want_alive:
                out.append(i)
        return out

    def in_tx(self, cif):
        return cif in self.open_it

    def value(self):
        return rand_value_toks(self.r)

    def pick_code(self, used_keys, fresh):
        pool = [c for c in CODES_OK if (norm(c) in used_keys) != fresh]
        return self.r.choice(pool) if pool else None

    # -- one op
    def one(self):
        r = self.r
        if not self.live_cifs():
            self.op("cif+"); self.cifs.append({}); return
        fail = r.random() < self.fail_rate
        kinds = (self.FAIL_KINDS if fail else self.GOOD_KINDS)
        for _ in range(12):
            k = r.choice(kinds)
            if getattr(self, k)():
                return
        self.g_mkblock()

    # ---- ops intended to succeed ----------------------------------------------------------------------------------
    def g_newcif(self):
        if len(self.live_cifs()) >= 3 or self.r.random() < 0.5:
            return False
        self.op("cif+"); self.cifs.append({})
        return True

    def g_delcif(self):
        lc = self.live_cifs()
        if len(lc) < 2 or self.r.random() < 0.8:
            return False
        c = self.r.choice(lc)
        self.op("cif-", c)
        for b in self.cifs[c].values():
            b.kill()
        self.cifs[c] = None
        self.open_it.pop(c, None)
        return True

    def g_mkblock(self):
        c = self.r.choice(self.live_cifs())
        if self.in_tx(c) or len(self.cifs[c]) >= 4:
            return False
        code = self.pick_code(self.cifs[c].keys(), True)
        if code is None:
            return False
        self.op("mkblock", c, name_tok(code, False))
        b = SCont(c, None, code, 0)
        self.cifs[c][b.key] = b
        self.chs.append(b)
        return True

    def g_getblock(self):
        c = self.r.choice(self.live_cifs())
        if not self.cifs[c]:
            return False
        b = self.r.choice(list(self.cifs[c].values()))
        variant = self.r.choice([x for x in CODES_OK + CODES_BAD if norm(x) == b.key])
        self.op("getblock", c, name_tok(variant, False))
        self.chs.append(b)
        return True

    def g_mkframe(self):
        hs = self.live_chs()
        if not hs:
            return False
        h = self.r.choice(hs)
        p = self.chs[h]
        if self.in_tx(p.cif) or p.depth >= 3 or len(p.frames) >= 3:
            return False
        code = self.pick_code(p.frames.keys(), True)
        if code is None:
            return False
        self.op("mkframe", h, name_tok(code, False))
        f = SCont(p.cif, p, code, p.depth + 1)
        p.frames[f.key] = f
        self.chs.append(f)
        return True

    def g_mkblock_len(self):
        """lenient creation (cif_create_block_internal, lenient = 1): any code that is not in use, valid or not"""
        c = self.r.choice(self.live_cifs())
        if self.in_tx(c) or len(self.cifs[c]) >= 5:
            return False
        pool = [x for x in CODES_BAD * 2 + CODES_OK if norm(x) not in self.cifs[c]]
        if not pool:
            return False
        code = self.r.choice(pool)
        self.op("mkblock", c, name_tok(code, False, True))
        b = SCont(c, None, code, 0)
        self.cifs[c][b.key] = b
        self.chs.append(b)
        return True

    def g_mkframe_len(self):
        hs = self.live_chs()
        if not hs:
            return False
        h = self.r.choice(hs)
        p = self.chs[h]
        if self.in_tx(p.cif) or p.depth >= 3 or len(p.frames) >= 4:
            return False
        pool = [x for x in CODES_BAD * 2 + CODES_OK if norm(x) not in p.frames]
        if not pool:
            return False
        code = self.r.choice(pool)
        self.op("mkframe", h, name_tok(code, False, True))
        f = SCont(p.cif, p, code, p.depth + 1)
        p.frames[f.key] = f
        self.chs.append(f)
        return True

    def f_mk_len(self):
        """a lenient creation that must fail: the (normalised) code is in use — also an invalid one created leniently before"""
        hs = [h for h in self.live_chs() if self.chs[h].frames]
        cs = [c for c in self.live_cifs() if self.cifs[c] and not self.in_tx(c)]
        if hs and (not cs or self.r.random() < 0.5):
            h = self.r.choice(hs)
            p = self.chs[h]
            if self.in_tx(p.cif):
                return False
            f = self.r.choice(list(p.frames.values()))
            code = self.r.choice([x for x in CODES_OK + CODES_BAD if norm(x) == f.key])
            self.op("mkframe", h, name_tok(code, False, True))
        elif cs:
            c = self.r.choice(cs)
            b = self.r.choice(list(self.cifs[c].values()))
            code = self.r.choice([x for x in CODES_OK + CODES_BAD if norm(x) == b.key])
            self.op("mkblock", c, name_tok(code, False, True))
        else:
            return False
        self.chs.append(None)
        return True

    def g_getframe(self):
        # (a frame created leniently under an invalid code cannot be looked up: cif_container_get_frame validates)
        hs = [h for h in self.live_chs() if any(valid_name(f.orig, False) for f in self.chs[h].frames.values())]
        if not hs:
            return False
        h = self.r.choice(hs)
        f = self.r.choice([f for f in self.chs[h].frames.values() if valid_name(f.orig, False)])
        variant = self.r.choice([x for x in CODES_OK if norm(x) == f.key])
        self.op("getframe", h, name_tok(variant, False))
        self.chs.append(f)
        return True

    def fresh_items(self, cont, n):
        used = set(cont.items().keys())
        out = []
        pool = ITEMS_OK[:]
        self.r.shuffle(pool)
        for x in pool:
            if norm(x) not in used:
                used.add(norm(x)); out.append(x)
            if len(out) == n:
                break
        return out

    def iter_blocks(self, cont):
        """True when an iterator is open on a loop of this container (the documentation leaves outside access to that
        loop undefined: the generator stays away from the whole container)"""
        it = self.open_it.get(cont.cif)
        return it is not None and self.its[it] is not None and self.its[it]["loop"].cont is cont

    def g_mkloop(self):
        hs = self.live_chs()
        if not hs:
            return False
        h = self.r.choice(hs)
        c = self.chs[h]
        if self.iter_blocks(c):
            return False
        names = self.fresh_items(c, self.r.randint(1, 3))
        if not names:
            return False
        cat = self.r.choice(CATS)
        self.op("mkloop", h, cat_tok(cat), len(names), *[name_tok(n, True) for n in names])
        l = SLoop(c, cat, names)
        c.loops.append(l)
        self.lhs.append((l, h))
        return True

    def g_setval_new(self):
        hs = [h for h in self.live_chs() if not self.in_tx(self.chs[h].cif)]
        if not hs:
            return False
        h = self.r.choice(hs)
        c = self.chs[h]
        names = self.fresh_items(c, 1)
        if not names:
            return False
        v = ["~"] if self.r.random() < 0.1 else self.value()
        self.op("setval", h, name_tok(names[0], True), *v)
        sc = [l for l in c.loops if l.cat == ""]
        if sc:
            sc[0].names[norm(names[0])] = names[0]
            sc[0].npk = 1
        else:
            l = SLoop(c, "", names); l.npk = 1
            c.loops.append(l)
        return True

    def g_setval_old(self):
        hs = [h for h in self.live_chs() if not self.in_tx(self.chs[h].cif) and self.chs[h].items()]
        if not hs:
            return False
        h = self.r.choice(hs)
        c = self.chs[h]
        k = self.r.choice(list(c.items().keys()))
        variant = self.r.choice([x for x in ITEMS_OK if norm(x) == k])
        self.op("setval", h, name_tok(variant, True), *self.value())
        return True

    def g_addpkt(self):
        ls = [l for l in self.live_lhs() if not self.iter_blocks(self.lhs[l][0].cont)]
        if not ls:
            return False
        li = self.r.choice(ls)
        l = self.lhs[li][0]
        if l.cat == "" and l.npk >= 1:
            return False
        keys = list(l.names.keys())
        self.r.shuffle(keys)
        if self.r.random() < 0.04 and len(keys) > 1:
            keys = keys[:self.r.randint(1, len(keys) - 1)]          # a packet that omits items (F30 territory)
        toks = []
        for k in keys:
            variant = self.r.choice([x for x in ITEMS_OK if norm(x) == k] or [l.names[k]])
            toks += [name_tok(variant, True)] + self.value()
        self.op("addpkt", li, len(keys), *toks)
        l.npk += 1
        return True

    def g_additem(self):
        ls = [l for l in self.live_lhs() if not self.iter_blocks(self.lhs[l][0].cont)]
        if not ls:
            return False
        li = self.r.choice(ls)
        l = self.lhs[li][0]
        names = self.fresh_items(l.cont, 1)
        if not names:
            return False
        v = ["~"] if self.r.random() < 0.2 else self.value()
        self.op("additem", li, name_tok(names[0], True), *v)
        l.names[norm(names[0])] = names[0]
        return True

    def g_rmitem(self):
        hs = [h for h in self.live_chs() if not self.in_tx(self.chs[h].cif) and self.chs[h].items()]
        if not hs or self.r.random() < 0.4:
            return False
        h = self.r.choice(hs)
        c = self.chs[h]
        k = self.r.choice(list(c.items().keys()))
        l = c.items()[k]
        variant = self.r.choice([x for x in ITEMS_OK if norm(x) == k])
        self.op("rmitem", h, name_tok(variant, True))
        del l.names[k]
        if not l.names:
            l.alive = False
            c.loops.remove(l)
        return True

    def g_query(self):
        r = self.r
        k = r.choice(["blocks", "frames", "code", "isblock", "loops", "getval", "getcat", "names", "catloop", "itemloop"])
        if k == "blocks":
            self.op("blocks", r.choice(self.live_cifs())); return True
        if k in ("frames", "code", "isblock", "loops"):
            hs = self.live_chs() + self.live_chs(False)
            if not hs:
                return False
            self.op(k, r.choice(hs)); return True
        if k in ("getcat", "names"):
            ls = self.live_lhs() + self.live_lhs(False)
            if not ls:
                return False
            self.op(k, r.choice(ls)); return True
        hs = self.live_chs()
        if not hs:
            return False
        h = r.choice(hs)
        c = self.chs[h]
        if k == "catloop":
            cats = [l.cat for l in c.loops if l.cat is not None] + ["", "nocat"]
            self.op("catloop", h, cat_tok(r.choice(cats)))
            # the shadow cannot know whether the call succeeds (duplicate categories): the entry is marked unknown
            self.lhs.append(None)
            return True
        pool = [x for x in ITEMS_OK if norm(x) in c.items()] or ITEMS_OK
        nm = r.choice(pool)
        if k == "itemloop":
            self.op("itemloop", h, name_tok(nm, True))
            l = c.items().get(norm(nm))
            self.lhs.append((l, h) if l else None)
            return True
        self.op("getval", h, name_tok(nm, True))
        return True

    def g_setcat(self):
        ls = [l for l in self.live_lhs() if self.lhs[l][0].cat != ""]
        if not ls or self.r.random() < 0.5:
            return False
        li = self.r.choice(ls)
        cat = self.r.choice(["cat", "k9", None, "CAT"])
        self.op("setcat", li, cat_tok(cat))
        self.lhs[li][0].cat = cat
        return True

    def g_prune(self):
        hs = [h for h in self.live_chs() if not self.iter_blocks(self.chs[h])]
        if not hs or self.r.random() < 0.7:
            return False
        h = self.r.choice(hs)
        c = self.chs[h]
        self.op("prune", h)
        for l in [l for l in c.loops if l.npk == 0]:
            l.alive = False
            c.loops.remove(l)
        return True

    def g_ldestroy(self):
        ls = [l for l in self.live_lhs() if not self.iter_blocks(self.lhs[l][0].cont)]
        if not ls or self.r.random() < 0.6:
            return False
        li = self.r.choice(ls)
        l = self.lhs[li][0]
        self.op("ldestroy", li)
        l.alive = False
        if l in l.cont.loops:
            l.cont.loops.remove(l)
        self.lhs[li] = None
        return True

    def g_cdestroy(self):
        hs = self.live_chs()
        if not hs or self.r.random() < 0.7:
            return False
        h = self.r.choice(hs)
        c = self.chs[h]
        it = self.open_it.get(c.cif)
        if it is not None:
            return False            # stay away from destroying anything while an iterator is open on that CIF
        self.op("cdestroy", h)
        c.kill()
        if c.parent is None:
            self.cifs[c.cif].pop(c.key, None)
        else:
            c.parent.frames.pop(c.key, None)
        self.kill_handle(h)
        return True

    def kill_handle(self, h):
        self.chs[h] = None
        for i, e in enumerate(self.lhs):
            if e is not None and e[1] == h:
                self.lhs[i] = None

    def emit_next(self, it, l):
        """cif_pktitr_next_packet — without a packet of the caller's, or with one that is empty / holds a subset of the loop's
        names / holds foreign names too / spells the names differently; then the packet is asked for every name of the loop"""
        r = self.r
        k = r.random()
        if k < 0.45:
            self.op("itnext", it)
            return
        keys = list(l.names.keys())
        variants = lambda kk: [x for x in ITEMS_OK if norm(x) == kk] or [l.names[kk]]
        if k < 0.55:
            mine = []
        elif k < 0.7:
            r.shuffle(keys); mine = [r.choice(variants(kk)) for kk in keys[:r.randint(1, len(keys))]]
        elif k < 0.85:
            r.shuffle(keys); mine = [r.choice(variants(kk)) for kk in keys[:r.randint(0, len(keys))]] + ["_zz", "_yy.1"][:r.randint(1, 2)]
            r.shuffle(mine)
        else:
            mine = [r.choice(variants(kk)) for kk in keys]
        toks = []
        for nme in mine:
            toks += [name_tok(nme, True)] + self.value()
        probes = [r.choice(variants(kk)) for kk in l.names] + ["_zz"]
        self.op("itnextp", it, len(mine), *(toks + [len(probes)] + [name_tok(x, True) for x in probes]))

    def g_iter(self):
        """open an iterator, make a few calls (iterator calls and calls on OTHER containers), close or abort"""
        r = self.r
        ls = [l for l in self.live_lhs() if self.lhs[l][0].npk > 0 and not self.in_tx(self.lhs[l][0].cont.cif)]
        if not ls or r.random() < 0.5:
            return False
        li = r.choice(ls)
        l = self.lhs[li][0]
        self.op("itopen", li)
        it = len(self.its)
        self.its.append({"loop": l, "lh": li})
        self.open_it[l.cont.cif] = it
        for step in range(r.randint(1, 7)):
            k = r.random()
            if k < 0.35 or (step == 0 and k < 0.85):
                self.emit_next(it, l)
            elif k < 0.5:
                keys = list(l.names.keys()); r.shuffle(keys)
                keys = keys[:r.randint(1, len(keys))]
                toks = []
                for kk in keys:
                    toks += [name_tok(l.names[kk], True)] + self.value()
                if r.random() < 0.25:       # an item of another loop at a random position
                    pos = r.randint(0, len(keys))
                    bad = [name_tok("_zz", True)] + self.value()
                    toks = self.splice_pair(toks, pos, bad)
                    keys = keys + ["_zz"]
                self.op("itupd", it, len(keys), *toks)
            elif k < 0.68:
                self.op("itrem", it)
                l.npk = max(0, l.npk - 1)
            else:
                # any other op (both intended-good and intended-bad) while the transaction is open
                kinds = self.FAIL_KINDS if r.random() < 0.6 else self.GOOD_KINDS
                kk = r.choice([x for x in kinds if x not in ("g_iter", "g_delcif", "f_iter_misuse", "g_cross", "g_session", "g_iter_sp")])
                getattr(self, kk)()
        self.op("itclose" if r.random() < 0.6 else "itabort", it)
        self.its[it] = None
        del self.open_it[l.cont.cif]
        return True

    def g_session(self):
        """an iterator session embedded in the history and IN CONTRACT (Model/StoreContract): while the iterator is open only its own
        calls (and a refused second get_packets) work on its CIF; the calls in between go to OTHER CIFs (one is created when there is
        none); ops came before, and the history goes on afterwards — this is what C04_refines_hist / C06_delivers_in_history speak about"""
        r = self.r
        if self.open_it or self.avoid is not None:
            return False
        ls = [l for l in self.live_lhs() if self.lhs[l][0].npk > 0]
        if not ls or r.random() < 0.4:
            return False
        li = r.choice(ls)
        l = self.lhs[li][0]
        c = l.cont.cif
        self.op("itopen", li)
        it = len(self.its)
        self.its.append({"loop": l, "lh": li})
        self.open_it[c] = it
        self.avoid = c
        try:
            for step in range(r.randint(3, 10)):
                k = r.random()
                if step == 0 or k < 0.3:
                    self.emit_next(it, l)
                elif k < 0.42:
                    keys = list(l.names.keys()); r.shuffle(keys)
                    keys = keys[:r.randint(1, len(keys))]
                    toks = []
                    for kk in keys:
                        toks += [name_tok(l.names[kk], True)] + self.value()
                    self.op("itupd", it, len(keys), *toks)
                elif k < 0.52:
                    self.op("itrem", it)
                    l.npk = max(0, l.npk - 1)
                elif k < 0.57:
                    self.op("itopen", li); self.its.append(None)          # refused: one iterator at a time per CIF
                else:
                    if not self.live_cifs():
                        self.op("cif+"); self.cifs.append({})
                    kinds = self.FAIL_KINDS if r.random() < 0.3 else self.GOOD_KINDS
                    for _ in range(12):
                        kk = r.choice([x for x in kinds if x not in ("g_iter", "f_iter_misuse", "g_cross", "g_session", "g_iter_sp")])
                        if getattr(self, kk)():
                            break
                    else:
                        self.g_mkblock()
        finally:
            self.avoid = None
        self.op("itclose" if r.random() < 0.6 else "itabort", it)
        self.its[it] = None
        del self.open_it[c]
        return True

    def g_scalar_nopkt(self):
        """a scalar loop made by cif_container_create_loop (category "", no packet), then set_value of a NEW item: the item joins the
        scalar loop, which gets its one packet (unknown value for the older items)"""
        hs = [h for h in self.live_chs() if not self.in_tx(self.chs[h].cif) and not any(l.cat == "" for l in self.chs[h].loops)]
        if not hs or self.r.random() < 0.5:
            return False
        h = self.r.choice(hs)
        c = self.chs[h]
        names = self.fresh_items(c, self.r.randint(2, 3))
        if len(names) < 2:
            return False
        self.op("mkloop", h, cat_tok(""), len(names) - 1, *[name_tok(n, True) for n in names[:-1]])
        l = SLoop(c, "", names[:-1])
        c.loops.append(l)
        self.lhs.append((l, h))
        if self.r.random() < 0.5:
            # a REJECTED packet for the still-empty scalar loop first (an item of no loop at the first / last position): the valid
            # calls that follow must behave as if it had never been made (row counter included)
            li = len(self.lhs) - 1
            bad = [name_tok("_zz9", True)] + self.value()
            good = [name_tok(names[0], True)] + self.value()
            self.op("addpkt", li, 2, *((bad + good) if self.r.random() < 0.5 else (good + bad)))
        self.op("setval", h, name_tok(names[-1], True), *self.value())
        l.names[norm(names[-1])] = names[-1]
        l.npk = 1
        return True

    def g_iter_sp(self):
        """inside ONE open iterator: next; a call on the SAME CIF that works through a nested savepoint and only reads or fails softly
        (get_names, get_all_loops, get_value, add_packet with a foreign item, create_loop / add_item with a duplicate name — each
        leaves a `savepoint s` on SQLite's stack: `rollback to s` keeps it); 1..3 SUCCESSFUL updates; a FAILING iterator call
        (foreign item at the first / middle / last position: CIF_WRONG_LOOP; update / remove without current packet: CIF_MISUSE);
        next, update, close or abort.  The failed call must not undo the successful updates (C05; seeded change C05_sp)."""
        r = self.r
        ls = [l for l in self.live_lhs() if self.lhs[l][0].npk > 0 and not self.in_tx(self.lhs[l][0].cont.cif)
              and self.lhs[l][0].names]
        if not ls or r.random() < 0.3:
            return False
        li = r.choice(ls)
        l, h = self.lhs[li]
        names = list(l.names.values())
        self.op("itopen", li)
        it = len(self.its)
        self.its.append({"loop": l, "lh": li})
        self.open_it[l.cont.cif] = it
        self.op("itnext", it)
        kind = r.choice(["names", "loops", "getval", "addpkt-fail", "mkloop-fail", "additem-fail"])
        if kind == "names":
            self.op("names", li)
        elif kind == "loops":
            self.op("loops", h)
        elif kind == "getval":
            self.op("getval", h, name_tok(r.choice(names), True))
        elif kind == "addpkt-fail":
            self.op("addpkt", li, 2, name_tok(names[0], True), *(self.value() + [name_tok("_zz9", True)] + self.value()))
        elif kind == "mkloop-fail":
            self.op("mkloop", h, cat_tok("c9"), 2, name_tok("_new9", True), name_tok(names[0], True))
            self.lhs.append(None)
        else:
            self.op("additem", li, name_tok(names[-1], True), *self.value())

        def upd(use):
            toks = []
            for nme in use:
                toks += [name_tok(nme, True)] + self.value()
            self.op("itupd", it, len(use), *toks)
        for g in range(r.randint(1, 3)):
            upd(names[: 1 + (g % len(names))])
        fk = r.choice(["wrong-first", "wrong-middle", "wrong-last", "misuse-update", "misuse-remove"])
        if fk.startswith("wrong"):
            toks = []
            for nme in names:
                toks += [name_tok(nme, True)] + self.value()
            pos = {"wrong-first": 0, "wrong-middle": (len(names) + 1) // 2, "wrong-last": len(names)}[fk]
            toks = self.splice_pair(toks, pos, [name_tok("_zz9", True)] + self.value())
            self.op("itupd", it, len(names) + 1, *toks)
        elif fk == "misuse-update":
            self.op("itrem", it); l.npk = max(0, l.npk - 1)
            upd(names[:1])
        else:
            self.op("itrem", it); l.npk = max(0, l.npk - 1)
            self.op("itrem", it)
        self.op("itnext", it)
        upd(names)
        self.op("itclose" if r.random() < 0.6 else "itabort", it)
        self.its[it] = None
        del self.open_it[l.cont.cif]
        return True

    def g_emptied(self):
        """a loop that HELD packets and lost all of them through an iterator (next, remove … close): afterwards it is a loop without
        packets like one that never had any — cif_container_prune removes it, cif_loop_get_packets answers CIF_EMPTY_LOOP, a packet
        added to it is its only packet (row counters must not leak out of the removals)"""
        r = self.r
        ls = [l for l in self.live_lhs() if 1 <= self.lhs[l][0].npk <= 4 and not self.in_tx(self.lhs[l][0].cont.cif)
              and self.lhs[l][0].names and self.lhs[l][0].cat != ""]
        if not ls or r.random() < 0.4:
            return False
        li = r.choice(ls)
        l, h = self.lhs[li]
        self.op("itopen", li)
        it = len(self.its)
        self.its.append({"loop": l, "lh": li})
        self.open_it[l.cont.cif] = it
        for _ in range(l.npk):
            self.op("itnext", it)
            self.op("itrem", it)
        self.op("itnext", it)
        self.op("itclose", it)
        self.its[it] = None
        del self.open_it[l.cont.cif]
        l.npk = 0
        what = r.choice(["prune", "prune", "addpkt", "itopen", "loops"])
        if what == "prune":
            self.op("prune", h)
            for x in [x for x in l.cont.loops if x.npk == 0]:
                x.alive = False
                l.cont.loops.remove(x)
            self.op("loops", h)
        elif what == "addpkt":
            self.full_packet(li, l)
            self.full_packet(li, l)
        elif what == "itopen":
            self.op("itopen", li); self.its.append(None)
        else:
            self.op("loops", h)
        return True

    def ensure_loop_handle(self, h, loop):
        """index of a live loop handle on `loop` made from container handle h (an itemloop call if there is none)"""
        for i, e in enumerate(self.lhs):
            if e is not None and e[0] is loop and e[1] == h and self.chs[h] is not None:
                return i
        nm = list(loop.names.values())[0]
        self.op("itemloop", h, name_tok(nm, True))
        self.lhs.append((loop, h))
        return len(self.lhs) - 1

    def full_packet(self, li, loop):
        toks = []
        for k in loop.names:
            toks += [name_tok(loop.names[k], True)] + self.value()
        self.op("addpkt", li, len(loop.names), *toks)
        loop.npk += 1

    def g_cross(self):
        """cross-container coincidences: two containers of ONE CIF holding the same item names in loops with DIFFERENT loop
        numbers (loops created in opposite orders), the same row numbers in use, then an iterator session (next, remove /
        update) and name- or loop-keyed calls (set_value, remove_item, add_item, loop_destroy) in one of them.  A statement
        that forgets `container_id` in a name / loop_num predicate shows in the other loops / the other container."""
        r = self.r
        hs = [h for h in self.live_chs() if not self.in_tx(self.chs[h].cif)]
        if not hs:
            return False
        h1 = r.choice(hs)
        c1 = self.chs[h1]
        # (1) at least two non-scalar loops with packets in c1
        good = [l for l in c1.loops if l.cat != "" and l.names]
        while len(good) < 2:
            names = self.fresh_items(c1, r.randint(1, 2))
            if not names:
                break
            self.op("mkloop", h1, cat_tok(r.choice(CATS)), len(names), *[name_tok(n, True) for n in names])
            l = SLoop(c1, None, names); c1.loops.append(l); self.lhs.append((l, h1)); good.append(l)
        if len(good) < 2:
            return False
        for l in good:
            if l.npk == 0:
                li = self.ensure_loop_handle(h1, l)
                for _ in range(r.randint(1, 2)):
                    self.full_packet(li, l)
        # (2) another container in the same CIF
        others = [h for h in hs if self.chs[h].cif == c1.cif and self.chs[h] is not c1]
        if others and r.random() < 0.7:
            h2 = r.choice(others)
        else:
            par = h1 if (c1.depth < 3 and len(c1.frames) < 3 and r.random() < 0.6) else None
            if par is not None:
                code = self.pick_code(c1.frames.keys(), True)
                if code is None:
                    return False
                self.op("mkframe", h1, name_tok(code, False))
                f = SCont(c1.cif, c1, code, c1.depth + 1); c1.frames[f.key] = f; self.chs.append(f)
            else:
                if len(self.cifs[c1.cif]) >= 4:
                    return False
                code = self.pick_code(self.cifs[c1.cif].keys(), True)
                if code is None:
                    return False
                self.op("mkblock", c1.cif, name_tok(code, False))
                f = SCont(c1.cif, None, code, 0); self.cifs[c1.cif][f.key] = f; self.chs.append(f)
            h2 = len(self.chs) - 1
        c2 = self.chs[h2]
        # (3) mirror c1's loops into c2 in the opposite order (so that loop numbers of same-named items differ)
        have = c2.items()
        for l in reversed(good):
            names = [l.names[k] for k in l.names if k not in have]
            if not names:
                continue
            variant = [r.choice([x for x in ITEMS_OK if norm(x) == norm(n)] or [n]) for n in names]
            self.op("mkloop", h2, cat_tok(r.choice(CATS)), len(variant), *[name_tok(n, True) for n in variant])
            m = SLoop(c2, None, variant); c2.loops.append(m); self.lhs.append((m, h2))
            for _ in range(r.randint(1, 2)):
                self.full_packet(len(self.lhs) - 1, m)
        # (4) iterator session on one loop of c1 (or of c2)
        hx, cx = (h1, c1) if r.random() < 0.7 else (h2, c2)
        cand = [l for l in cx.loops if l.npk > 0 and l.cat != "" and l.names]
        if cand:
            l = r.choice(cand)
            li = self.ensure_loop_handle(hx, l)
            self.op("itopen", li)
            it = len(self.its)
            self.its.append(None)
            for _ in range(r.randint(1, 3)):
                self.emit_next(it, l)
                k = r.random()
                if k < 0.5:
                    self.op("itrem", it); l.npk = max(0, l.npk - 1)
                elif k < 0.85:
                    keys = list(l.names.keys()); r.shuffle(keys)
                    keys = keys[:r.randint(1, len(keys))]
                    toks = []
                    for kk in keys:
                        toks += [name_tok(l.names[kk], True)] + self.value()
                    self.op("itupd", it, len(keys), *toks)
            if r.random() < 0.75:
                self.op("itclose", it)
            else:
                self.op("itabort", it)
        # (5) name- / loop-keyed calls in one of the two containers
        for _ in range(r.randint(1, 3)):
            hx, cx = (h1, c1) if r.random() < 0.5 else (h2, c2)
            items = cx.items()
            if not items:
                break
            key = r.choice(list(items.keys()))
            l = items[key]
            k = r.random()
            if k < 0.35:
                self.op("setval", hx, name_tok(l.names[key], True), *self.value())
            elif k < 0.55:
                self.op("rmitem", hx, name_tok(l.names[key], True))
                del l.names[key]
                if not l.names:
                    l.alive = False; cx.loops.remove(l)
            elif k < 0.75:
                names = self.fresh_items(cx, 1)
                if names:
                    li = self.ensure_loop_handle(hx, l)
                    self.op("additem", li, name_tok(names[0], True), *self.value())
                    l.names[norm(names[0])] = names[0]
            elif k < 0.9:
                li = self.ensure_loop_handle(hx, l)
                self.full_packet(li, l)
            else:
                li = self.ensure_loop_handle(hx, l)
                self.op("ldestroy", li)
                l.alive = False
                if l in cx.loops:
                    cx.loops.remove(l)
                self.lhs[li] = None
        return True

    def splice_pair(self, toks, pos, pair):
        """insert (NAME VALUE…) `pair` before the pos-th (NAME VALUE…) group of toks"""
        groups, cur = [], []
        for t in toks:
            if "/" in t and cur:
                groups.append(cur); cur = []
            cur.append(t)
        if cur:
            groups.append(cur)
        groups.insert(min(pos, len(groups)), pair)
        return [t for g in groups for t in g]

    # ---- ops constructed to fail ------------------------------------------------------------------------------------
    def f_mkblock(self):
        c = self.r.choice(self.live_cifs())
        k = self.r.random()
        if k < 0.45 and self.cifs[c]:
            code = self.pick_code(self.cifs[c].keys(), False)          # duplicate (any spelling)
        elif k < 0.9:
            code = self.r.choice(CODES_BAD)
        else:
            code = None
        self.op("mkblock", c, name_tok(code, False))
        self.chs.append(None)
        return True

    def f_mkframe(self):
        hs = self.live_chs() + self.live_chs(False)
        if not hs:
            return False
        h = self.r.choice(hs)
        p = self.chs[h]
        k = self.r.random()
        if k < 0.5 and p.frames and p.alive:
            code = self.pick_code(p.frames.keys(), False)
        elif not p.alive:
            code = self.r.choice(CODES_OK)                              # stale parent handle
        else:
            code = self.r.choice(CODES_BAD + [None])
        self.op("mkframe", h, name_tok(code, False))
        self.chs.append(None)
        return True

    def f_lookup(self):
        r = self.r
        if r.random() < 0.5:
            c = r.choice(self.live_cifs())
            code = self.pick_code(self.cifs[c].keys(), True) or "zz"
            if r.random() < 0.3:
                code = r.choice(CODES_BAD[1:])
            self.op("getblock", c, name_tok(code, False))
            self.chs.append(None)
            return True
        hs = self.live_chs() + self.live_chs(False)
        if not hs:
            return False
        h = r.choice(hs)
        code = self.pick_code(self.chs[h].frames.keys() if self.chs[h].alive else [], True) or "zz"
        if r.random() < 0.3:
            code = r.choice(CODES_BAD + [None])
        self.op("getframe", h, name_tok(code, False))
        self.chs.append(None)
        return True

    def f_mkloop(self):
        """duplicate / invalid name at the first, a middle or the last position; the same name twice; no name;
        a second scalar loop; a stale container handle"""
        r = self.r
        hs = self.live_chs()
        if not hs:
            return False
        h = r.choice(hs)
        c = self.chs[h]
        if self.iter_blocks(c):
            return False
        k = r.random()
        n = r.randint(1, 4)
        names = self.fresh_items(c, n)
        if not names:
            return False
        pos = r.choice([0, len(names) - 1, r.randint(0, len(names) - 1)])
        cat = r.choice(CATS)
        if k < 0.3 and c.items():
            key = r.choice(list(c.items().keys()))
            names[pos] = r.choice([x for x in ITEMS_OK if norm(x) == key])
        elif k < 0.55:
            names[pos] = r.choice(ITEMS_BAD)
        elif k < 0.7 and len(names) > 1:
            src = names[(pos + 1) % len(names)]
            names[pos] = r.choice([x for x in ITEMS_OK if norm(x) == norm(src)])
        elif k < 0.8:
            names = []
        elif k < 0.9 and any(l.cat == "" for l in c.loops):
            cat = ""
        else:
            st = self.live_chs(False)
            if not st:
                return False
            h = r.choice(st)
        self.op("mkloop", h, cat_tok(cat), len(names), *[name_tok(x, True) for x in names])
        self.lhs.append(None)
        return True

    def f_addpkt(self):
        """foreign item first / middle / last; empty packet; second packet for the scalar loop; stale loop handle"""
        r = self.r
        k = r.random()
        if k < 0.15:
            st = self.live_lhs(False)
            if st:
                li = r.choice(st)
                l = self.lhs[li][0]
                nm = (list(l.names.values()) or ["_a"])[0]
                self.op("addpkt", li, 1, name_tok(nm, True), *self.value())
                return True
        ls = [l for l in self.live_lhs() if not self.iter_blocks(self.lhs[l][0].cont)]
        if not ls:
            return False
        li = r.choice(ls)
        l = self.lhs[li][0]
        if k < 0.3:
            self.op("addpkt", li, 0)
            return True
        if k < 0.5:
            sc = [i for i in ls if self.lhs[i][0].cat == "" and self.lhs[i][0].npk >= 1]
            if not sc:
                return False
            li = r.choice(sc)
            l = self.lhs[li][0]
            toks = []
            for kk in l.names:
                toks += [name_tok(l.names[kk], True)] + self.value()
            self.op("addpkt", li, len(l.names), *toks)
            return True
        keys = list(l.names.keys())
        r.shuffle(keys)
        toks = []
        for kk in keys:
            toks += [name_tok(l.names[kk], True)] + self.value()
        others = [x for x in ITEMS_OK if norm(x) not in l.names]
        if not others:
            return False
        pos = r.choice([0, len(keys), r.randint(0, len(keys))])
        toks = self.splice_pair(toks, pos, [name_tok(r.choice(others), True)] + self.value())
        self.op("addpkt", li, len(keys) + 1, *toks)
        return True

    def f_item(self):
        r = self.r
        k = r.choice(["additem-dup", "additem-bad", "setval-bad", "setval-null", "getval", "rmitem", "itemloop", "stale"])
        if k.startswith("additem"):
            ls = [l for l in self.live_lhs() if not self.iter_blocks(self.lhs[l][0].cont)] + self.live_lhs(False)
            if not ls:
                return False
            li = r.choice(ls)
            l = self.lhs[li][0]
            if k == "additem-dup" and l.cont.items():
                key = r.choice(list(l.cont.items().keys()))
                nm = r.choice([x for x in ITEMS_OK if norm(x) == key])
            else:
                nm = r.choice(ITEMS_BAD)
            self.op("additem", li, name_tok(nm, True), *self.value())
            return True
        hs = self.live_chs() + (self.live_chs(False) if k == "stale" else [])
        if not hs:
            return False
        h = r.choice(hs)
        c = self.chs[h]
        missing = [x for x in ITEMS_OK if norm(x) not in c.items()] or ["_zz"]
        if k in ("setval-bad", "setval-null"):
            self.op("setval", h, name_tok(None if k == "setval-null" else r.choice(ITEMS_BAD), True), *self.value())
        elif k == "getval":
            self.op("getval", h, name_tok(r.choice(missing + ITEMS_BAD), True))
        elif k == "rmitem":
            self.op("rmitem", h, name_tok(r.choice(missing + ITEMS_BAD + [None]), True))
        elif k == "itemloop":
            self.op("itemloop", h, name_tok(r.choice(missing + ITEMS_BAD + [None]), True))
            self.lhs.append(None)
        else:
            which = r.choice(["setval", "loops", "prune", "cdestroy", "frames"])
            if which == "setval":
                self.op("setval", h, name_tok(r.choice(ITEMS_OK), True), *self.value())
            elif which == "cdestroy":
                if self.in_tx(c.cif):
                    return False
                self.op("cdestroy", h)
                self.kill_handle(h)
            else:
                self.op(which, h)
        return True

    def f_setcat(self):
        r = self.r
        ls = self.live_lhs() + self.live_lhs(False)
        if not ls:
            return False
        li = r.choice(ls)
        l = self.lhs[li][0]
        if l.cat == "":
            cat = r.choice(["x", "", "cat"] + ([None] if r.random() < 0.15 else []))     # None: F32
        else:
            cat = "" if l.alive else r.choice(["x", None])
        self.op("setcat", li, cat_tok(cat))
        return True

    def f_stale_loop(self):
        st = self.live_lhs(False)
        if not st:
            return False
        li = self.r.choice(st)
        k = self.r.choice(["names", "ldestroy", "itopen", "setcat", "additem"])
        if k == "itopen":
            self.op("itopen", li); self.its.append(None)
        elif k == "setcat":
            self.op("setcat", li, cat_tok("q"))
        elif k == "additem":
            self.op("additem", li, name_tok("_q", True), *self.value())
        else:
            self.op(k, li)
        return True

    def f_iter_misuse(self):
        """empty loop; update / remove before the first packet and after a removal; second iterator"""
        r = self.r
        ls = [l for l in self.live_lhs() if not self.in_tx(self.lhs[l][0].cont.cif)]
        if not ls:
            return False
        li = r.choice(ls)
        l = self.lhs[li][0]
        self.op("itopen", li)
        it = len(self.its)
        self.its.append(None)
        if l.npk == 0:
            return True
        nm = list(l.names.values())[0]
        self.op("itupd", it, 1, name_tok(nm, True), *self.value())
        self.op("itrem", it)
        self.op("itopen", li); self.its.append(None)
        self.op("itnext", it)
        if r.random() < 0.5:
            self.op("itrem", it)
            self.op("itrem", it)
            self.op("itupd", it, 1, name_tok(nm, True), *self.value())
            l.npk -= 1
            self.op("itclose", it)
        else:
            self.op("itupd", it, 1, name_tok(nm, True), *self.value())
            self.op("itabort", it)
        return True

    GOOD_KINDS = (["g_mkblock"] * 3 + ["g_mkblock_len", "g_mkframe_len"] + ["g_getblock"] * 2 + ["g_mkframe"] * 3 + ["g_getframe"] * 2 + ["g_mkloop"] * 6 + ["g_setval_new"] * 4
                  + ["g_setval_old"] * 3 + ["g_addpkt"] * 8 + ["g_additem"] * 2 + ["g_rmitem"] * 3 + ["g_query"] * 6 + ["g_setcat"]
                  + ["g_prune", "g_ldestroy", "g_cdestroy", "g_cdestroy", "g_newcif", "g_delcif"] + ["g_iter"] * 3 + ["g_cross"] * 4 + ["g_session"] * 6 + ["g_scalar_nopkt"] + ["g_iter_sp"] * 4 + ["g_emptied"] * 3)
    FAIL_KINDS = (["f_mkblock"] * 2 + ["f_mk_len"] + ["f_mkframe"] * 2 + ["f_lookup"] * 2 + ["f_mkloop"] * 6 + ["f_addpkt"] * 6 + ["f_item"] * 5
                  + ["f_setcat"] * 2 + ["f_stale_loop"] * 2 + ["f_iter_misuse"])


def savepoint_histories(tier):
    """EVERY combination of {nested-savepoint call inside an open iterator} x {1..3 successful updates} x {failing iterator call}
    x {close, abort} (tools/gen/iter.py `savepoint_sessions`), as histories of this family: C05's oracle (a failed call changes
    nothing the dumps show, inside the iterator's transaction too) sees each of them; quick: one loop shape per combination, in
    rotation; thorough: three shapes each"""
    import importlib
    I = importlib.import_module("iter")
    shapes = [("l2x3", 2, 3, False, False), ("s2", 2, 1, True, False), ("l3x1", 3, 1, False, False)]
    gens = []
    for shp in shapes:
        pre, names = I.setup(*shp)
        gens.append(list(I.savepoint_sessions(pre, names)))
    for k in range(len(gens[0])):
        for j, g in enumerate(gens):
            if tier != "quick" or j == k % len(gens):
                yield "store " + g[k].split(" ", 1)[1]


def generate(seed, tier):
    r = rng(seed, FAMILY)
    n, maxlen = (1500, 40) if tier == "quick" else (12000, 120)
    for req in savepoint_histories(tier):
        yield req
    for _ in range(n):
        yield "store " + " ".join(History(r, maxlen).toks)


# ---------------------------------------------------------------------------------------------------------------------
# reading requests and observations

def parse_request(req):
    """-> list of ops: dicts {op, args…} with names as (orig, key, valid) and values as token strings"""
    t = req.split(" ")[1:]
    pos = [0]

    def tok():
        pos[0] += 1
        return t[pos[0] - 1]

    def name():
        x = tok()
        if x == "~":
            return None
        o, k, v = x.split("/")[:3]          # a 4th field "L" marks a lenient creation (see name_tok)
        return ("".join(map(chr, unhexs(o))), "".join(map(chr, unhexs(k))), v == "1")

    def cat():
        x = tok()
        return None if x == "~" else "".join(map(chr, unhexs(x)))

    def value():
        x = tok()
        if x in ("[", "{"):
            depth, out = 1, [x]
            while depth:
                y = tok()
                out.append(y)
                if y in ("[", "{"):
                    depth += 1
                elif y in ("]", "}"):
                    depth -= 1
            return " ".join(out)
        return x

    def packet():
        n = int(tok())
        out = []
        for _ in range(n):
            nm = name(); v = value()
            out.append((nm, v))
        return out

    ops = []
    while pos[0] < len(t):
        o = tok()
        d = {"op": o}
        if o == "cif+":
            pass
        elif o in ("cif-", "blocks"):
            d["c"] = int(tok())
        elif o in ("mkblock", "getblock"):
            d["c"] = int(tok()); d["name"] = name()
        elif o in ("mkframe", "getframe", "itemloop", "getval", "rmitem"):
            d["h"] = int(tok()); d["name"] = name()
        elif o in ("frames", "cdestroy", "code", "isblock", "loops", "prune"):
            d["h"] = int(tok())
        elif o == "mkloop":
            d["h"] = int(tok()); d["cat"] = cat(); n = int(tok()); d["names"] = [name() for _ in range(n)]
        elif o == "catloop":
            d["h"] = int(tok()); d["cat"] = cat()
        elif o == "setval":
            d["h"] = int(tok()); d["name"] = name(); d["value"] = value()
        elif o in ("ldestroy", "getcat", "names", "itopen"):
            d["l"] = int(tok())
        elif o == "setcat":
            d["l"] = int(tok()); d["cat"] = cat()
        elif o == "additem":
            d["l"] = int(tok()); d["name"] = name(); d["value"] = value()
        elif o == "addpkt":
            d["l"] = int(tok()); d["pkt"] = packet()
        elif o in ("itnext", "itrem", "itclose", "itabort"):
            d["i"] = int(tok())
        elif o == "itupd":
            d["i"] = int(tok()); d["pkt"] = packet()
        elif o == "itnextp":
            d["i"] = int(tok()); d["pkt"] = packet(); m = int(tok()); d["probes"] = [name() for _ in range(m)]
        else:
            raise ValueError("unknown op " + o)
        ops.append(d)
    return ops


class Bad(Exception):
    pass


def parse_dump(toks):
    """canonical dump tokens -> list of containers {code, frames, loops:[{cat,names,packets}]}"""
    pos = [0]

    def value():
        x = toks[pos[0]]; pos[0] += 1
        if x in ("[", "{"):
            depth, out = 1, [x]
            while depth:
                y = toks[pos[0]]; pos[0] += 1
                out.append(y)
                if y in ("[", "{"):
                    depth += 1
                elif y in ("]", "}"):
                    depth -= 1
            return " ".join(out)
        if x.startswith("!") or x == "~":
            raise Bad("value marker %s in dump" % x)
        return x

    def body(code):
        c = {"code": code, "frames": [], "loops": []}
        while True:
            if pos[0] >= len(toks):
                raise Bad("dump ends inside a container")
            x = toks[pos[0]]
            if x == "E":
                pos[0] += 1
                return c
            if x.startswith("F:"):
                pos[0] += 1
                c["frames"].append(body(ustr(x[2:])))
            elif x.startswith("L:"):
                pos[0] += 1
                if "!" in x:
                    raise Bad("loop marker %s in dump" % x)
                cathex, n = x[2:].rsplit(":", 1)
                n = int(n)
                l = {"cat": None if cathex == "~" else ustr(cathex), "names": [ustr(toks[pos[0] + i]) for i in range(n)], "packets": []}
                pos[0] += n
                while toks[pos[0]] == "P":
                    pos[0] += 1
                    l["packets"].append([value() for _ in range(n)])
                if toks[pos[0]] != "Z":
                    raise Bad("marker %s in loop dump" % toks[pos[0]])
                pos[0] += 1
                c["loops"].append(l)
            else:
                raise Bad("marker %s in dump" % x)

    out = []
    while pos[0] < len(toks):
        x = toks[pos[0]]
        if not x.startswith("B:"):
            raise Bad("marker %s in dump" % x)
        pos[0] += 1
        out.append(body(ustr(x[2:])))
    return out


def ustr(h):
    u = unhexs(h)
    return None if u is None else "".join(map(chr, u))


SLOT = re.compile(r"^(\d+):(=?)$")


def parse_answer(ans):
    """-> list of steps {rc (int|None), out [tokens], ac str, dumps {slot: text}} with `=` expanded; None if unparsable"""
    if not ans.startswith("st"):
        return None
    steps = []
    last = {}
    for part in ans.split(" | ")[1:]:
        if part.startswith("bad-op"):
            return None
        if " ; ac=" not in part:
            return None
        head, tail = part.split(" ; ac=", 1)
        ht = head.split(" ")
        rc = ht[0][3:]
        tt = tail.split(" ")
        dumps, cur = {}, None
        for x in tt[1:]:
            m = SLOT.match(x)
            if m:
                cur = int(m.group(1))
                dumps[cur] = last.get(cur, "") if m.group(2) else ""
                if m.group(2):
                    cur = None
            elif cur is not None:
                dumps[cur] = (dumps[cur] + " " + x) if dumps[cur] else x
        last = dict(dumps)
        steps.append({"rc": None if rc == "-" else int(rc), "out": [x for x in ht[1:] if x != ""], "ac": tt[0], "dumps": dumps})
    return steps


# ---------------------------------------------------------------------------------------------------------------------
# the oracle: C04 / C05 on the implementation's observation

QUERIES = {"blocks", "frames", "code", "isblock", "loops", "getval", "getcat", "names", "catloop", "itemloop", "getblock",
           "getframe", "itnext", "itnextp"}


def find_path(cif, path):
    """container reached from the block list by a path of normalised codes"""
    level, c = cif, None
    for key in path:
        c = next((x for x in level if norm(x["code"]) == key), None)
        if c is None:
            return None
        level = c["frames"]
    return c


def loop_of(cont, key):
    for l in cont["loops"]:
        for i, n in enumerate(l["names"]):
            if norm(n) == key:
                return l, i
    return None, None


def check_invariants(cif, where):
    def cont(c, path):
        seen = {}
        nsc = 0
        for l in c["loops"]:
            if l["cat"] == "":
                nsc += 1
                if len(l["packets"]) > 1:
                    return "%s: the scalar loop of %s holds %d packets" % (where, path, len(l["packets"]))
            for n in l["names"]:
                k = norm(n)
                if k in seen:
                    return "%s: item %r occurs twice in container %s" % (where, n, path)
                seen[k] = 1
        if nsc > 1:
            return "%s: %d scalar loops in container %s" % (where, nsc, path)
        codes = set()
        for f in c["frames"]:
            k = norm(f["code"])
            if k in codes:
                return "%s: frame code %r twice in %s" % (where, f["code"], path)
            codes.add(k)
            e = cont(f, path + "/" + f["code"])
            if e:
                return e
        return None
    codes = set()
    for b in cif:
        k = norm(b["code"])
        if k in codes:
            return "%s: block code %r twice" % (where, b["code"])
        codes.add(k)
        e = cont(b, b["code"])
        if e:
            return e
    return None


def strip(cif, path):
    """deep copy of cif without the container at path"""
    import copy
    c2 = copy.deepcopy(cif)
    level = c2
    for key in path[:-1]:
        c = next((x for x in level if norm(x["code"]) == key), None)
        if c is None:
            return c2
        level = c["frames"]
    for i, x in enumerate(level):
        if norm(x["code"]) == path[-1]:
            del level[i]
            break
    return c2


def scalar_names(c, path, out):
    for l in c["loops"]:
        for n in l["names"]:
            out[(path, norm(n))] = (l["cat"] == "")
    for f in c["frames"]:
        scalar_names(f, path + (norm(f["code"]),), out)


def violations(req, impl):
    """all violations of C04/C05 visible in one observation: list of (class or None, text)"""
    try:
        ops = parse_request(req)
    except Exception as e:
        return [(None, "request does not parse: %s" % e)]
    steps = parse_answer(impl)
    if steps is None:
        return []                 # crashes / bad-op are handled by the framework (model answers bad-op as well)
    out = []
    if len(steps) != len(ops):
        return [(None, "observation has %d steps for %d ops" % (len(steps), len(ops)))]
    ch_cif, ch_path, ch_made = [], [], []        # per container-handle entry (request-derived): slot, path of keys, created here?
    lh_ch, it_lh = [], []
    partial_pkts = []                            # (path, set of keys omitted, keys given) of successful packets omitting items
    prev = {"ac": "", "dumps": {}}
    parsed_cache = {}
    # the rules that state DOCUMENTED BEHAVIOUR (the op-specific post-conditions, the scalar category, get_value's code) speak about
    # histories that keep to the documented contract: they are applied up to the first op that does not (the model driver's family
    # `storecontract`, i.e. Model/StoreContract inContractHist); the structural rules (C05: a failed call changes nothing; invariants of
    # every dump; independence of CIFs; queries change nothing) are applied to every op of every history
    oc_from = storecontract.first_out_of_contract(req)

    def P(text):
        if text not in parsed_cache:
            parsed_cache[text] = parse_dump(text.split(" ") if text else [])
        return parsed_cache[text]

    for k, (op, st) in enumerate(zip(ops, steps)):
        o, rc = op["op"], st["rc"]
        where = "op %d (%s rc=%s)" % (k, o, rc)
        # ---- bookkeeping of handle tables (as the request dictates)
        target = None
        if o in ("mkblock", "getblock"):
            target = op["c"]
            ok = rc == 0
            ch_cif.append(op["c"]); ch_path.append((op["name"][1],) if (ok and op["name"]) else None); ch_made.append(o == "mkblock")
        elif o in ("mkframe", "getframe"):
            h = op["h"]
            target = ch_cif[h] if h < len(ch_cif) else None
            pp = ch_path[h] if h < len(ch_path) else None
            ch_cif.append(target)
            ch_path.append(pp + (op["name"][1],) if (rc == 0 and pp is not None and op["name"]) else None); ch_made.append(o == "mkframe")
        elif "h" in op:
            target = ch_cif[op["h"]] if op["h"] < len(ch_cif) else None
        elif "l" in op:
            hh = lh_ch[op["l"]] if op["l"] < len(lh_ch) else None
            target = ch_cif[hh] if hh is not None and hh < len(ch_cif) else None
        elif "i" in op:
            ll = it_lh[op["i"]] if op["i"] < len(it_lh) else None
            hh = lh_ch[ll] if ll is not None and ll < len(lh_ch) else None
            target = ch_cif[hh] if hh is not None and hh < len(ch_cif) else None
        elif "c" in op:
            target = op["c"]
        if o in ("mkloop", "catloop", "itemloop"):
            lh_ch.append(op["h"])
        if o == "itopen":
            it_lh.append(op["l"])
        try:
            before = dict((c, P(t)) for c, t in prev["dumps"].items())
            after = dict((c, P(t)) for c, t in st["dumps"].items())
        except Bad as e:
            out.append((None, "%s: %s" % (where, e)))
            prev = st
            continue
        # ---- C04 invariants on every dump
        for c, cif in after.items():
            if st["dumps"][c] != prev["dumps"].get(c):
                e = check_invariants(cif, where)
                if e:
                    out.append((None, e))
        # ---- C05: a failed (or not executed) call changes nothing, anywhere
        common = [c for c in st["dumps"] if c in prev["dumps"]]
        if rc != 0 and o not in ("cif+", "cif-"):
            for c in common:
                if st["dumps"][c] != prev["dumps"][c]:
                    out.append((None, "%s: the failed call changed CIF %d: %s  ->  %s" % (where, c, prev["dumps"][c][:300], st["dumps"][c][:300])))
            if st["ac"] != prev["ac"]:
                out.append((None, "%s: the failed call changed the autocommit status %s -> %s" % (where, prev["ac"], st["ac"])))
        # ---- independence of CIFs; queries change nothing
        for c in common:
            if c != target and st["dumps"][c] != prev["dumps"][c]:
                out.append((None, "%s: a call on CIF %s changed CIF %d" % (where, target, c)))
            if o in QUERIES and st["dumps"][c] != prev["dumps"][c]:
                out.append((None, "%s: a query changed CIF %d" % (where, c)))
        if o not in ("itopen", "itclose", "itabort", "cif+", "cif-") and st["ac"] != prev["ac"]:
            out.append((None, "%s: autocommit status changed %s -> %s" % (where, prev["ac"], st["ac"])))
        in_contract = oc_from is None or k < oc_from
        if in_contract and rc == 0 and target in after and target in before:
            B, A = before[target], after[target]
            path = None
            if "h" in op and op["h"] < len(ch_path):
                path = ch_path[op["h"]]
            elif "l" in op and op["l"] < len(lh_ch) and lh_ch[op["l"]] < len(ch_path):
                path = ch_path[lh_ch[op["l"]]]
            # ---- the scalar category is neither given nor taken (per item that exists before and after)
            sb, sa = {}, {}
            for b in B:
                scalar_names(b, (norm(b["code"]),), sb)
            for a in A:
                scalar_names(a, (norm(a["code"]),), sa)
            for key in sb:
                if key in sa and sb[key] != sa[key] and o not in ("cdestroy", "mkblock", "mkframe", "itabort"):
                    cls = F32_CLASS if (o == "setcat" and op["cat"] is None and sb[key]) else None
                    out.append((cls, "%s: item %r %s the scalar loop" % (where, key[1], "left" if sb[key] else "entered")))
                    break
            # ---- op-specific post-conditions
            if o == "mkblock":
                if not any(b["code"] == op["name"][0] for b in A):
                    out.append((None, "%s: no block with the spelling %r afterwards" % (where, op["name"][0])))
                if len(A) != len(B) + 1:
                    out.append((None, "%s: %d blocks before, %d after" % (where, len(B), len(A))))
            elif o == "mkframe" and path is not None:
                pc = find_path(A, path)
                # (pc None: the handle outlived its container — outside the property's quantifier)
                if pc is not None and not any(f["code"] == op["name"][0] for f in pc["frames"]):
                    out.append((None, "%s: no frame with the spelling %r afterwards" % (where, op["name"][0])))
            elif o == "code":
                h = op["h"]
                if ch_path[h] is not None and st["out"]:
                    got = ustr(st["out"][0])
                    if norm(got) != ch_path[h][-1]:
                        out.append((None, "%s: code %r does not match the container's key" % (where, got)))
            elif o == "mkloop" and path is not None:
                pc = find_path(A, path)
                want = sorted(n[0] for n in op["names"])
                if pc is not None and not any(sorted(l["names"]) == want and l["cat"] == op["cat"] and not l["packets"] for l in pc["loops"]):
                    out.append((None, "%s: no empty loop with category %r and names %r afterwards" % (where, op["cat"], want)))
            elif o == "setval" and path is not None and op["name"]:
                pb, pa = find_path(B, path), find_path(A, path)
                key = op["name"][1]
                want = "U" if op["value"] == "~" else op["value"]
                if pa is not None and pb is not None:
                    lb, ib = loop_of(pb, key)
                    la, ia = loop_of(pa, key)
                    if la is None:
                        out.append((None, "%s: item is not in the container afterwards" % where))
                    else:
                        if any(p[ia] != want for p in la["packets"]):
                            cls = F30_CLASS if omitted(partial_pkts, path, key) else None
                            out.append((cls, "%s: not every packet carries the value: %r" % (where, la["packets"])))
                        if lb is None and not (la["cat"] == "" and len(la["packets"]) == 1 and la["names"][ia] == op["name"][0]):
                            out.append((None, "%s: a new item must become a scalar with one value, spelled as given: %r" % (where, la)))
                        if lb is None and len(la["names"]) > 1 and len(la["packets"]) == 1:
                            sb_loop = next((l for l in pb["loops"] if l["cat"] == ""), None)
                            if sb_loop is not None and not sb_loop["packets"]:
                                # set_value added the scalar loop's only packet through cif_loop_add_packet, naming just the
                                # new item: the same omission as F30
                                partial_pkts.append((path, set(norm(n) for n in sb_loop["names"]), set([key])))
                        if lb is not None and len(lb["packets"]) != len(la["packets"]):
                            out.append((None, "%s: number of packets changed %d -> %d" % (where, len(lb["packets"]), len(la["packets"]))))
            elif o == "rmitem" and path is not None and op["name"]:
                pb, pa = find_path(B, path), find_path(A, path)
                key = op["name"][1]
                if pa is not None and pb is not None:
                    lb, ib = loop_of(pb, key)
                    if loop_of(pa, key)[0] is not None:
                        out.append((None, "%s: the item is still there" % where))
                    if lb is not None:
                        rest = [n for n in lb["names"] if norm(n) != key]
                        if not rest:
                            if len(pa["loops"]) != len(pb["loops"]) - 1:
                                out.append((None, "%s: removing the last item must remove the loop (%d -> %d loops)" % (where, len(pb["loops"]), len(pa["loops"]))))
                        else:
                            la, _ = loop_of(pa, norm(rest[0]))
                            wantp = [[v for j, v in enumerate(p) if j != ib] for p in lb["packets"]]
                            if la is None or la["names"] != rest or la["packets"] != wantp:
                                cls = F30_CLASS if (la is not None and la["names"] == rest and omitted(partial_pkts, path, None)) else None
                                out.append((cls, "%s: the remaining items must keep their packets: %r -> %r" % (where, lb, la)))
            elif o == "cdestroy" and path is not None:
                if find_path(B, path) is not None:
                    if A != strip(B, path):
                        out.append((None, "%s: destroying the container must remove exactly its subtree" % where))
            elif o == "ldestroy" and path is not None:
                pb, pa = find_path(B, path), find_path(A, path)
                if pb is not None and pa is not None:
                    gone = [l for l in pb["loops"] if l not in pa["loops"]]
                    if len(pa["loops"]) != len(pb["loops"]) - 1 or len(gone) != 1 or pa["frames"] != pb["frames"]:
                        out.append((None, "%s: destroying a loop must remove exactly that loop" % where))
            elif o == "addpkt" and path is not None:
                pb, pa = find_path(B, path), find_path(A, path)
                pk = {}
                for nm, v in op["pkt"]:
                    pk[nm[1]] = v
                if pb is not None and pa is not None and pk:
                    key0 = next(iter(pk))
                    lb, _ = loop_of(pb, key0)
                    la, _ = loop_of(pa, key0)
                    if lb is None or la is None or la["names"] != lb["names"]:
                        out.append((None, "%s: the loop of the packet's items changed shape" % where))
                    else:
                        new = [pk.get(norm(n), "U") for n in la["names"]]
                        if la["packets"] != lb["packets"] + [new]:
                            out.append((None, "%s: the loop must gain exactly the packet %r: %r -> %r" % (where, new, lb["packets"], la["packets"])))
                        om = [norm(n) for n in la["names"] if norm(n) not in pk]
                        if om:
                            partial_pkts.append((path, set(om), set(pk)))
            elif o == "additem" and path is not None and op["name"]:
                pa = find_path(A, path)
                if pa is not None:
                    la, ia = loop_of(pa, op["name"][1])
                    want = "U" if op["value"] == "~" else op["value"]
                    if la is None or la["names"][ia] != op["name"][0] or any(p[ia] != want for p in la["packets"]):
                        out.append((None, "%s: the new item must carry the value in every packet: %r" % (where, la)))
            elif o == "prune" and path is not None:
                pb, pa = find_path(B, path), find_path(A, path)
                if pb is not None and pa is not None:
                    if pa["loops"] != [l for l in pb["loops"] if l["packets"]]:
                        out.append((None, "%s: prune must remove exactly the loops without packets" % where))
            # ---- frame rule: a call that works on ONE loop changes at most that loop of its container and nothing else in the
            #      whole CIF (other loops of the container, its frames, every other container)
            if o in FRAME_OPS:
                fpath = path
                if "i" in op and op["i"] < len(it_lh) and it_lh[op["i"]] < len(lh_ch) and lh_ch[it_lh[op["i"]]] < len(ch_path):
                    fpath = ch_path[lh_ch[it_lh[op["i"]]]]
                if fpath is not None:
                    pb, pa = find_path(B, fpath), find_path(A, fpath)
                    if pb is not None and pa is not None:
                        if without_loops(B, fpath) != without_loops(A, fpath):
                            out.append((None, "%s: the call changed something outside the loops of its container: %s  ->  %s" % (
                                where, prev["dumps"][target][:400], st["dumps"][target][:400])))
                        gone = [l for l in pb["loops"] if l not in pa["loops"]]
                        came = [l for l in pa["loops"] if l not in pb["loops"]]
                        if len(gone) > 1 or len(came) > 1:
                            out.append((None, "%s: the call changed more than one loop of its container: %r  ->  %r" % (where, gone, came)))
        if o == "itclose" and rc == 0 and target in after and target in before and st["dumps"][target] != prev["dumps"][target]:
            out.append((None, "%s: closing the iterator changed the content: %s  ->  %s" % (where, prev["dumps"][target][:300], st["dumps"][target][:300])))
        if in_contract and o == "getval" and path_of(op, ch_path) is not None and op["name"] and target in after:
            pa = find_path(after[target], path_of(op, ch_path))
            if pa is not None and rc in (0, AMBIGUOUS_ITEM, NOSUCH_ITEM):
                la, ia = loop_of(pa, op["name"][1]) if op["name"][2] else (None, None)
                n = len(la["packets"]) if la else 0
                want = 0 if n == 1 else (AMBIGUOUS_ITEM if n > 1 else NOSUCH_ITEM)
                if rc != want:
                    cls = F30_CLASS if omitted(partial_pkts, path_of(op, ch_path), op["name"][1]) else None
                    out.append((cls, "%s: %d packets hold the item, the call returned %d" % (where, n, rc)))
                elif rc in (0, AMBIGUOUS_ITEM) and st["out"] and " ".join(st["out"]) not in [p[ia] for p in la["packets"]]:
                    cls = F30_CLASS if omitted(partial_pkts, path_of(op, ch_path), op["name"][1]) else None
                    out.append((cls, "%s: the value returned is not a value of the item" % where))
        if o == "cdestroy" and rc == 0 and op["h"] < len(ch_path) and ch_path[op["h"]] is not None:
            # every handle on that container or on something inside it has outlived its container: outside C04's quantifier
            dead, cifno = ch_path[op["h"]], ch_cif[op["h"]]
            for i in range(len(ch_path)):
                if ch_path[i] is not None and ch_cif[i] == cifno and ch_path[i][:len(dead)] == dead:
                    ch_path[i] = None
        prev = st
    return out


FRAME_OPS = {"setval", "rmitem", "addpkt", "additem", "mkloop", "ldestroy", "setcat", "itupd", "itrem"}


def without_loops(cif, path):
    """deep copy of the CIF with the loops of the container at `path` blanked"""
    import copy
    c2 = copy.deepcopy(cif)
    c = find_path(c2, path)
    if c is not None:
        c["loops"] = []
    return c2


def path_of(op, ch_path):
    h = op.get("h")
    return ch_path[h] if h is not None and h < len(ch_path) else None


def omitted(partial_pkts, path, key):
    """was a packet added to a loop of this container that omitted `key` (or, key None, omitted anything)?"""
    return any(p == path and (key is None or key in om) for p, om, _ in partial_pkts)


def _chosen(req, impl):
    v = violations(req, impl)
    if not v:
        return None
    unknown = [x for x in v if x[0] is None]
    return unknown[0] if unknown else v[0]


def oracle(req, impl):
    c = _chosen(req, impl)
    return None if c is None else c[1]


def finding_class(req, impl, model, why):
    c = _chosen(req, impl)
    return c[0] if c else None


def nontrivial(req, impl):
    steps = parse_answer(impl)
    if not steps:
        return False
    fails = sum(1 for s in steps if s["rc"] not in (0, None))
    changes = sum(1 for a, b in zip(steps, steps[1:]) if a["dumps"] != b["dumps"])
    return fails >= 1 and changes >= 2


def classify(req, impl):
    steps = parse_answer(impl)
    if not steps:
        return "unparsed"
    n = len(steps)
    fails = sum(1 for s in steps if s["rc"] not in (0, None))
    intx = sum(1 for s in steps if "0" in s["ac"])
    fs = storecontract.features(req)
    # what the in-contract part exercises (three-way compared with the documented model): set_value on a loop with >= 2 packets (M),
    # of a new item (N: creating / joining the scalar loop), an iterator session with calls on other CIFs meanwhile and calls after it
    feat = "sv=" + ("M" if "M" in fs else "") + ("N" if any(x in fs for x in "CJP") else "") + \
           (" session-embedded" if all(x in fs for x in "OXEA") else "")
    return "ops<=%d fail%%=%d in-tx=%s %s %s" % ((n + 9) // 10 * 10, (100 * fails // max(1, n)) // 25 * 25, "y" if intx else "n",
                                                storecontract.label(req), feat)


def model_request(req, impl):
    """the request goes to the model unchanged; it is recorded so that the contract verdicts are computed in one batch"""
    return storecontract.record(req)


def shrink(req):
    """drop single ops (handle indexes are positional: only ops that append no handle entry can go, or trailing ops)"""
    try:
        ops = parse_request(req)
    except Exception:
        return
    t = req.split(" ")
    # recover token spans per op by re-walking
    spans, pos = [], 1
    for i in range(len(ops)):
        end = _op_end(t, pos)
        spans.append((pos, end))
        pos = end
    n = len(spans)
    for cut in (n // 2, n // 4, 1):
        if cut >= 1 and n - cut >= 1:
            yield " ".join(t[:spans[n - cut][0]])
    appenders = {"mkblock", "getblock", "mkframe", "getframe", "mkloop", "catloop", "itemloop", "itopen", "cif+"}
    for i in range(n - 1, -1, -1):
        if t[spans[i][0]] not in appenders:
            yield " ".join(t[:spans[i][0]] + t[spans[i][1]:])


OPWORDS = {"cif+", "cif-", "mkblock", "getblock", "blocks", "mkframe", "getframe", "frames", "cdestroy", "code", "isblock", "mkloop",
           "catloop", "itemloop", "loops", "prune", "getval", "setval", "rmitem", "ldestroy", "getcat", "setcat", "names", "additem",
           "addpkt", "itopen", "itnext", "itnextp", "itupd", "itrem", "itclose", "itabort"}


def _op_end(t, pos):
    j = pos + 1
    while j < len(t) and t[j] not in OPWORDS:
        j += 1
    return j
