"""family `numb` (C10): cif_value_parse_numb and the char->numb coercion of cif_value_get_number / cif_value_get_su"""
import os, re, sys
sys.path.insert(0, os.path.dirname(os.path.abspath(__file__)))
from common import hexs, unhexs, rng
import numbcommon as nc

FAMILY = "numb"
HARNESS = {"source": "x_numb.c", "extra_sources": ["x_numb_dbl.h"], "leak_clean": True}
RULE = ("non-trivial = a distinct text that the numeric syntax accepts; oracle (implementation only): acceptance = Python "
        "regex of the CIF numeric syntax, rejects return CIF_INVALID_NUMBER and leave the value object unchanged; "
        "digits/scale/su denote exactly (rational arithmetic) the number written; value and su are the doubles nearest "
        "(ties to even, exact integer computation) to digits*10^-scale and su*10^-scale when those are zero or in the "
        "normal range, and equal glibc strtod computed in the executor")

ALPHA = "0123456789" * 3 + "..++--eE()" * 2 + " x"


def req_p(s):
    return "numb p " + hexs(s)


def req_c(q, s):
    return "numb c %d %s" % (q, hexs(s))


def tie_texts(r):
    """exact ties between adjacent doubles, printed exactly, and the same +-1 in the last digit"""
    out = []
    m = (r.getrandbits(52) | (1 << 52))
    m = m | 1 if r.random() < 0.5 else m & ~1          # odd and even truncated mantissas
    e = r.randint(-60, 60)
    # (2m+1) * 2^(e-1)
    num = 2 * m + 1
    ex = e - 1
    if ex >= 0:
        s = str(num * (1 << ex))
        out.append(s)
        out.append(str(int(s) + 1))
        out.append(str(int(s) - 1))
        out.append(s + ".000")
    else:
        # num / 2^-ex = num * 5^-ex / 10^-ex
        k = -ex
        digs = str(num * 5 ** k)
        if len(digs) <= k:
            digs = "0" * (k - len(digs) + 1) + digs
        s = digs[:-k] + "." + digs[-k:]
        out.append(s)
        out.append(s[:-1] + str((int(s[-1]) + 1) % 10) if s[-1] != "9" else s + "1")
        out.append(s + "0000001")
        pad = r.choice([10, 100, 700, 2000 - len(s)])
        if pad > 0:
            out.append(s + "0" * pad + "1")
            out.append(digs[:-k] + "." + str(int(digs[-k:]) - 1).rjust(k, "0") + "9" * pad)
    return out


def rand_valid(r):
    kind = r.randint(0, 11)
    sign = r.choice(["", "", "+", "-"])
    if kind == 0:      # plain integers incl. leading zeros
        mant = "0" * r.choice([0, 0, 1, 3]) + str(r.getrandbits(r.randint(1, 70)))
    elif kind == 1:    # limb boundaries: 9k, 9k+-1 digits
        n = 9 * r.randint(1, 6) + r.choice([-1, 0, 1])
        mant = "".join(r.choice("0123456789") for _ in range(n)).lstrip("0") or "1"
        if r.random() < 0.5:
            p = r.randint(0, len(mant))
            mant = mant[:p] + "." + mant[p:]
    elif kind == 2:    # 17-40 digit mantissas
        n = r.randint(17, 40)
        mant = str(r.randint(10 ** (n - 1), 10 ** n - 1))
        p = r.randint(0, n)
        mant = mant[:p] + "." + mant[p:]
    elif kind == 3:    # spellings
        mant = r.choice([".5", "1.", "007", "0.0", "0", "00.", ".0", "0.", "000.000", "5.0", "0.05", "10", "1.0e0"[:3]])
    elif kind == 4:    # long
        n = r.choice([100, 500, 2040, 2047, 2048, 2049, 2060])
        mant = str(r.randint(1, 9)) + "".join(r.choice("0123456789") for _ in range(n - 1))
        if r.random() < 0.5:
            p = r.randint(0, n)
            mant = mant[:p] + "." + mant[p:]
    elif kind == 5:    # binade boundaries 2^k and neighbours
        k = r.randint(-40, 80)
        v = 2 ** k if k >= 0 else None
        if v:
            mant = str(v + r.choice([-1, 0, 1]))
        else:
            digs = str(5 ** (-k))
            digs = "0" * max(0, -k - len(digs) + 1) + digs
            mant = digs[:k] + "." + digs[k:]
    elif kind == 6:
        t = tie_texts(r)
        return sign + r.choice(t) + r.choice(["", "", "(3)"])
    else:
        a = "".join(r.choice("0123456789") for _ in range(r.randint(0, 6)))
        b = "".join(r.choice("0123456789") for _ in range(r.randint(0, 8)))
        if not a and not b:
            a = "7"
        mant = a + r.choice([".", "", "."]) + b if b else a + r.choice(["", "."])
    ex = ""
    c = r.random()
    if c < 0.35:
        ex = r.choice("eE") + r.choice(["", "+", "-"]) + "0" * r.choice([0, 0, 2]) + str(r.randint(0, 40))
    elif c < 0.5:
        ex = r.choice("eE") + r.choice(["", "+", "-"]) + str(r.randint(250, 400))
    elif c < 0.53:
        ex = "e" + r.choice(["", "-"]) + str(r.choice([999999999, 2147483647, 99999999999, 214748363, 2147483629, 21474836299]))
    su = ""
    if r.random() < 0.35:
        su = "(" + "0" * r.choice([0, 0, 1, 2]) + str(r.randint(0, 10 ** r.randint(1, 4))) + ")"
    return sign + mant + ex + su


INVALID = [".", "e5", "1e", "1(2", "1()", "1(2)x", "1 ", " 1", "", "+", "-", "+.", "1..2", "1.2.3", "1e+", "1e-", "1ee5", "1e5.0",
           "1(", "1)", "1(a)", "1(2)(3)", "--1", "+-1", "1-", "1e5e5", ".e5", "-.e1", "1(-2)", "1(2.0)", "0x10", "1,5", "1d5",
           "1e5(", "1e5()", "(1)", "2E-(3)", "1e+(2)", "1E+", ".5e-", "1.e+(0)", "7e-(12)", "-3.25E+", "+.5e+(1)", "1.(2", "nan", "inf", "１", "1٠"]


def generate(seed, tier):
    r = rng(seed, FAMILY)
    n = 5000 if tier == "quick" else 150000
    for s in INVALID:
        yield req_p(s)
        yield req_c(r.randint(0, 1), s)
    for s in ["+.5", "1.", "1.e5", "007", "0.0(0)", "-0", "9007199254740995", "9007199254740993", "1e308", "1.7976931348623157e308",
              "2.2250738585072014e-308", "4.9e-324", "1e-400", "1e400", "0e99999999999"]:
        yield req_p(s)
        yield req_c(0, s)
        yield req_c(1, s)
    # the systematic neighbourhood of the powers of two, as texts (reduced set; family todbl has the full one)
    for i, (d, sc, _) in enumerate(nc.pow2_neighbourhood(1)):
        yield req_p(("-" if i % 7 == 3 else "") + nc.text_of_digits(d, sc))
    for i in range(n):
        c = r.random()
        if c < 0.55:
            s = rand_valid(r)
        elif c < 0.75:
            # mutate a valid text: insert / delete / replace one character
            s = rand_valid(r)[:60]
            p = r.randint(0, len(s))
            op = r.randint(0, 2)
            ch = r.choice(ALPHA)
            s = s[:p] + ch + s[p:] if op == 0 else (s[:p] + s[p + 1:] if op == 1 else s[:p] + ch + s[p + 1:])
        else:
            s = "".join(r.choice(ALPHA) for _ in range(r.randint(0, 9)))
        if r.random() < 0.04:
            # exponent marker and sign without digits, with and without su
            base = rand_valid(r).split("e")[0].split("E")[0].split("(")[0]
            s = base + r.choice("eE") + r.choice("+-") + r.choice(["", "", "(%d)" % r.randint(0, 99)])
        if r.random() < 0.01:
            s = s[:r.randint(0, len(s))] + "\0" + "9"        # the C string ends at the NUL
        if r.random() < 0.25:
            yield req_c(r.randint(0, 1), s)
        else:
            yield req_p(s)


def text_of(req):
    t = req.split()
    u = unhexs(t[-1])
    if 0 in u:
        u = u[:u.index(0)]
    return t[1], (int(t[2]) if t[1] == "c" else 0), u


def huge_exponent(s):
    m = nc.NUM_RE.match(s)
    return bool(m and m.group(3) and abs(int(m.group(3))) >= nc.EXP_SAT)


def oracle(req, impl):
    op, q, units = text_of(req)
    s = "".join(chr(u) for u in units)
    a = nc.kv(impl)
    if not impl.startswith("nb "):
        return None     # crash handling is generic
    p = nc.parse_number_text(s) if all(u < 128 for u in units) else None
    if p is None:
        if a.get("rc") != str(nc.CIF_INVALID_NUMBER):
            return "text %r is not a number but the result code is %s" % (s, a.get("rc"))
        if a.get("unchanged") != "1":
            return "rejected text %r: the value object was modified" % s
        return None
    neg, mant, fl, ex, su = p
    if a.get("rc") != "0":
        return "text %r is a number but the result code is %s" % (s, a.get("rc"))
    digits = nc.ascii_of_hex(a["digits"])
    sud = nc.ascii_of_hex(a["su"])
    scale = int(a["scale"])
    if nc.ascii_of_hex(a["text"]) != s:
        return "text of the value is not the parsed text"
    if a["q"] != str(q):
        return "quoted flag %s, expected %d" % (a["q"], q)
    if (a["neg"] == "1") != neg:
        return "sign"
    if not re.fullmatch(r"0|[1-9]\d*", digits or "") and int(mant) != 0:
        return "digit string %r has leading zeroes or is empty" % digits
    if not re.fullmatch(r"\d+", digits or ""):
        return "digit string %r" % digits
    if (su is None) != (sud is None):
        return "su presence"
    if su is not None and (int(su) != int(sud) or not re.fullmatch(r"0|[1-9]\d*", sud)):
        return "su digits %r for (%s)" % (sud, su)
    if abs(ex) >= nc.EXP_SAT:
        return None            # "far beyond the range of type double": only "no crash" is demanded
    # exact denotation: digits * 10^-scale == mant * 10^(ex - fl)
    if int(digits) != 0 or int(mant) != 0:
        e1, e2 = -scale, ex - fl
        lo = min(e1, e2)
        if int(digits) * 10 ** (e1 - lo) != int(mant) * 10 ** (e2 - lo):
            return "digits %s scale %d do not denote %s" % (digits[:40], scale, s[:60])
    elif scale != fl - ex:
        return "scale %d of a zero, expected %d" % (scale, fl - ex)
    if len(digits) <= 2048 and abs(scale) < 3000:
        want = nc.digits_value_token(digits, scale, neg)
        if want is not None:
            if a["val"] != want:
                return "value %s, nearest double is %s" % (a["val"], want)
            if a["ref"] != "~" and a["ref"] != want:
                return "strtod reference %s differs from the exact computation %s (oracle inconsistency)" % (a["ref"], want)
        if sud is not None:
            want = nc.digits_value_token(sud, scale, False)
            if want is not None and a["suv"] != want:
                return "su %s, nearest double is %s" % (a["suv"], want)
            if want is not None and a["sref"] not in ("~", want):
                return "strtod reference for the su %s differs from the exact computation %s" % (a["sref"], want)
        elif a["suv"] != "+0:0":
            return "su of an exact number is %s" % a["suv"]
    return None


def agree(impl, model, req=None):
    return re.sub(r" ref=\S+ sref=\S+", "", impl) == model


def nontrivial(req, impl):
    return " rc=0 " in impl


def classify(req, impl):
    op, q, units = text_of(req)
    a = nc.kv(impl)
    if a.get("rc") == "0":
        n = len(nc.ascii_of_hex(a["digits"]))
        return "accept:%s:%s" % (op, "1-16d" if n <= 16 else "17-40d" if n <= 40 else "41-2048d" if n <= 2048 else ">2048d")
    return "reject:" + op if impl.startswith("nb ") else "crash"


def finding_class(req, impl, model, why):
    op, q, units = text_of(req)
    s = "".join(chr(u) for u in units)
    m = nc.NUM_RE.match(s) if all(u < 128 for u in units) else None
    if m and m.group(3) and impl.startswith("SAN:ubsan:value.c"):
        acc = 0
        for ch in m.group(3).lstrip("+-"):
            if acc < nc.EXP_SAT:
                acc = acc * 10 + int(ch)
        # the accumulated exponent plus the number of digits leaves the range of int
        if acc + len(m.group(2)) > 2147483647:
            return "exponent magnitude + digit count exceeds INT_MAX"
    if m and impl.startswith("SAN:asan:stack-buffer-overflow:value.c:to_double"):
        mant = m.group(2)
        ip = mant.split(".")[0].lstrip("0")
        sig = mant.replace(".", "").strip("0")
        ex = int(m.group(3)) if m.group(3) else 0
        if len(sig) > 2000 and len(ip) - 1 + ex > 280:
            return "to_double bignum array overflow: > 2000 significant digits with most significant place above 280"
    return None
