"""family `write` (C02, C13): whole random CIFs → cif_write → bytes compared with the model byte for byte; the real
cif_parse re-reads the bytes and the implementation-level oracle checks the round trip.  Also the helpers shared with
family `writeval` (observation parsing, dump comparison, the oracle itself)."""
import os, sys, unicodedata
sys.path.insert(0, os.path.dirname(os.path.abspath(__file__)))
from common import rng, hexs, unhexs
import cifdesc

FAMILY = "write"
HARNESS = {"source": "x_write.c", "extra_sources": ["cifio.h"], "leak_clean": True}
RULE = ("random CIFs (<= 3 blocks, frames, scalar and looped items, nested lists/tables, boundary-length strings and table keys), "
        "both output versions; non-trivial = the CIF was built and cif_write returned CIF_OK; compared: result code and the bytes "
        "written (byte-exact); oracle (implementation only): magic comment, UTF-8 / CIF 1.1 characters, lines <= 2048, re-parse "
        "without error to an equivalent CIF, refusals only with the documented codes and witnesses")

CIF_OK, CIF_ERROR, CIF_INTERNAL_ERROR = 0, 2, 5
CIF_DISALLOWED_VALUE = None     # read from cif.h below
LINE = 2048
REPO = os.environ.get("VERIF_REPO", "/repo")


def _codes():
    import re
    h = open(os.path.join(REPO, "src", "cif.h"), encoding="utf-8", errors="replace").read()
    return {n: int(v) for n, v in re.findall(r"^#define[ \t]+(CIF_[A-Z0-9_]+)[ \t]+(\d+)[ \t]*$", h, re.M)}


CODES = _codes()
CIF_DISALLOWED_VALUE = CODES["CIF_DISALLOWED_VALUE"]
CIF_DISALLOWED_CHAR = CODES["CIF_DISALLOWED_CHAR"]
CIF_EMPTY_LOOP = CODES["CIF_EMPTY_LOOP"]
CIF11 = set([9, 10, 13] + list(range(0x20, 0x7f)))

# ---------------------------------------------------------------------------------------------------------------------
# observation parsing


def parse_obs(impl):
    """'w b=0 walk=… rc=0 out=… prc=0 errs=- orig=… back=…' -> dict (multi-token fields as token lists)"""
    t = impl.split(" ")
    if not t or t[0] != "w":
        return None
    d = {}
    key = None
    for tok in t[1:]:
        k, eq, v = tok.partition("=")
        if eq and k in ("b", "walk", "walkrc", "rc", "out", "prc", "errs", "orig", "back") and k not in d:
            key = k
            d[k] = [v]
        elif key:
            d[key].append(tok)
    for k in ("b", "rc", "prc", "walkrc"):
        if k in d:
            try:
                d[k] = int(d[k][0])
            except ValueError:
                d[k] = None
    for k in ("out", "errs"):
        if k in d:
            d[k] = d[k][0]
    return d


def out_bytes(hexstr):
    return b"" if hexstr in ("-", "", None) else bytes.fromhex(hexstr)


def units_to_bytes(units):
    """UTF-16 code units -> the UTF-8 bytes ICU writes for them (well-formed input)"""
    b = bytearray()
    for u in units:
        b += u.to_bytes(2, "little")
    return bytes(b).decode("utf-16-le", "surrogatepass").encode("utf-8", "surrogatepass")


# ---------------------------------------------------------------------------------------------------------------------
# dumps (token language of harness/cifio.h) -> trees


def norm_name(units):
    s = bytes(b for u in units for b in u.to_bytes(2, "little")).decode("utf-16-le", "surrogatepass")
    try:
        s = unicodedata.normalize("NFC", unicodedata.normalize("NFD", s).casefold())
    except Exception:
        pass
    return s


def parse_value(t, i):
    tok = t[i]
    if tok in ("U", "N"):
        return (tok,), i + 1
    if tok[0] in "CM" and tok[2] == ":":
        return (tok[0], int(tok[1]), tuple(unhexs(tok[3:]))), i + 1
    if tok == "[":
        i += 1
        out = []
        while t[i] != "]":
            v, i = parse_value(t, i)
            out.append(v)
        return ("L", tuple(out)), i + 1
    if tok == "{":
        i += 1
        out = []
        while t[i] != "}":
            k = tuple(unhexs(t[i][2:]))
            v, i = parse_value(t, i + 1)
            out.append((k, v))
        return ("T", tuple(out)), i + 1
    raise ValueError("bad value token %r" % tok)


def parse_body(t, i):
    frames, loops = [], []
    while t[i] != "E":
        tok = t[i]
        if tok.startswith("F:"):
            code = tuple(unhexs(tok[2:]))
            f, l, i = parse_body(t, i + 1)
            frames.append((code, f, l))
        elif tok.startswith("L:"):
            cat, _, n = tok[2:].rpartition(":")
            n = int(n)
            names = [tuple(unhexs(x)) for x in t[i + 1:i + 1 + n]]
            i += 1 + n
            packets = []
            while t[i] == "P":
                i += 1
                vals = []
                for _ in range(n):
                    v, i = parse_value(t, i)
                    vals.append(v)
                packets.append(vals)
            if t[i] != "Z":
                raise ValueError("loop not closed")
            i += 1
            loops.append((cat, names, packets))
        else:
            raise ValueError("bad body token %r" % tok)
    return frames, loops, i + 1


def parse_cif(tokens):
    if tokens == ["-"] or tokens == [""]:
        return []
    i, blocks = 0, []
    while i < len(tokens):
        if not tokens[i].startswith("B:"):
            raise ValueError("bad block token %r" % tokens[i])
        code = tuple(unhexs(tokens[i][2:]))
        f, l, i = parse_body(tokens, i + 1)
        blocks.append((code, f, l))
    return blocks


# ---------------------------------------------------------------------------------------------------------------------
# equivalence of the property: containers by code, loops by name set, packets as multisets, values equal in text /
# quoted status / structure with number ~ unquoted string, and an unquoted string beginning with ';' may come back quoted


def overlong_unquoted(text):
    return len(text) > LINE and 10 not in text


def canon_value(v, side, tolerate):
    """side: 'orig' | 'back'.  Returns a comparable canonical form."""
    k = v[0]
    if k in ("U", "N"):
        return v
    if k in ("C", "M"):
        q, text = v[1], v[2]
        if q == 0 and text and text[0] == 59:
            q = "?"                       # an unquoted string beginning with ';' may come back quoted
        elif tolerate and side == "orig" and q == 0 and overlong_unquoted(text):
            q = "?"
        return ("S", q, text)
    if k == "L":
        return ("L", tuple(canon_value(x, side, tolerate) for x in v[1]))
    return ("T", tuple(sorted(((key, canon_value(x, side, tolerate)) for key, x in v[1]), key=repr)))


def values_match(a, b):
    if a[0] != b[0]:
        return False
    if a[0] == "S":
        return a[2] == b[2] and (a[1] == b[1] or a[1] == "?" or (b[1] == "?" and a[1] == 0))
    if a[0] == "L":
        return len(a[1]) == len(b[1]) and all(values_match(x, y) for x, y in zip(a[1], b[1]))
    if a[0] == "T":
        return len(a[1]) == len(b[1]) and all(k1 == k2 and values_match(x, y) for (k1, x), (k2, y) in zip(a[1], b[1]))
    return a == b


def canon_loop(loop, side, tolerate):
    cat, names, packets = loop
    order = sorted(range(len(names)), key=lambda j: norm_name(names[j]))
    nn = tuple(norm_name(names[j]) for j in order)
    pk = [tuple(canon_value(p[j], side, tolerate) for j in order) for p in packets]
    return nn, pk


def packets_match(pa, pb):
    """multiset equality under values_match (small lists: greedy matching on a sorted order is enough because
    values_match only relaxes the quoted flag)"""
    if len(pa) != len(pb):
        return False
    rest = list(pb)
    for p in pa:
        for j, q in enumerate(rest):
            if len(p) == len(q) and all(values_match(x, y) for x, y in zip(p, q)):
                del rest[j]
                break
        else:
            return False
    return True


def containers_match(a, b, tolerate, path="cif"):
    """a, b: lists of (code, frames, loops); returns None or a reason"""
    da = {norm_name(c[0]): c for c in a}
    db = {norm_name(c[0]): c for c in b}
    if len(da) != len(a) or len(db) != len(b) or set(da) != set(db):
        return "%s: container codes differ: %s vs %s" % (path, sorted(da), sorted(db))
    for code in da:
        ca, cb = da[code], db[code]
        r = containers_match(ca[1], cb[1], tolerate, path + "/" + code)
        if r:
            return r
        # the scalar loop may be absent on one side only if it is empty on the other
        la = {canon_loop(l, "orig", tolerate)[0]: canon_loop(l, "orig", tolerate)[1] for l in ca[2]}
        lb = {canon_loop(l, "back", tolerate)[0]: canon_loop(l, "back", tolerate)[1] for l in cb[2]}
        # scalar items: one loop on each side holding all scalars — compare item-wise (a CIF file cannot tell one
        # scalar loop from several one-packet loops; the API's scalar loop collects them)
        if set(la) != set(lb):
            return "%s/%s: loops differ by item-name set: %s vs %s" % (path, code, sorted(la), sorted(lb))
        for names in la:
            if not packets_match(la[names], lb[names]):
                return "%s/%s: packets of loop %s differ" % (path, code, list(names))
    return None


def equivalent(orig_tokens, back_tokens, tolerate=False):
    try:
        a, b = parse_cif(orig_tokens), parse_cif(back_tokens)
    except (ValueError, IndexError) as e:
        return "unparseable dump: %s" % e
    return containers_match(a, b, tolerate)


# ---------------------------------------------------------------------------------------------------------------------
# what the request holds (for the refusal witnesses)


def request_strings(tokens):
    """(codes+names, strings, keys, has_list_or_table) found in request tokens"""
    names, strings, keys, nested = [], [], [], False
    it = iter(range(len(tokens)))
    i = 0
    while i < len(tokens):
        t = tokens[i]
        if t.startswith(("B:", "F:")):
            names.append(unhexs(t[2:]))
        elif t.startswith("L:"):
            n = int(t.rpartition(":")[2])
            for x in tokens[i + 1:i + 1 + n]:
                names.append(unhexs(x))
            i += n
        elif t[:1] in "CM" and t[2:3] == ":":
            strings.append((t[0], int(t[1]), unhexs(t[3:])))
        elif t.startswith("K:"):
            keys.append(unhexs(t[2:]))
        elif t in ("[", "{"):
            nested = True
        i += 1
    return names, strings, keys, nested


def key_quotable(key):
    """can the key be written as a quoted or triple-quoted string, followed by its colon, within the line limit?"""
    if not key:
        return True
    lines = []
    cur = []
    for u in key:
        if u == 10:
            lines.append(cur)
            cur = []
        else:
            cur.append(u)
    lines.append(cur)
    s = key

    def has3(q):
        return any(s[j:j + 3] == [q, q, q] for j in range(len(s) - 2))
    triple_ok = (s[-1] != 39 and not has3(39)) or (s[-1] != 34 and not has3(34))
    if len(lines) == 1:
        if len(s) + 3 <= LINE and (39 not in s or 34 not in s):
            return True
        return len(s) + 7 <= LINE and triple_ok
    if max(len(l) for l in lines) > LINE or len(lines[0]) + 3 > LINE or len(lines[-1]) + 4 > LINE:
        return False
    return triple_ok


def cif2_disallowed(units):
    """does the string hold a character CIF 2.0 does not allow (cif_has_disallowed_chars of utils.c): C0 controls except TAB LF
    CR, U+007F-U+009F, U+FDD0-U+FDEF, U+FFFE, U+FFFF, an unpaired surrogate, U+xxFFFE / U+xxFFFF"""
    i, n = 0, len(units)
    while i < n:
        c = units[i]
        if c < 0xD800 or c > 0xDFFF:
            if (c < 0x20 and c not in (9, 10, 13)) or 0x7F <= c < 0xA0 or 0xFDCF < c < 0xFDF0 or c > 0xFFFD:
                return True
        elif c >= 0xDC00:
            return True
        else:
            if i + 1 >= n or not (0xDC00 <= units[i + 1] <= 0xDFFF):
                return True
            if (units[i + 1] & 0x3FE) == 0x3FE and (c & 0x3F) == 0x3F:
                return True
            i += 1
        i += 1
    return False


def first_line_fills(key):
    """several lines, the first of exactly LINE - 3 units: the opening triple delimiter + first line fill a line"""
    return 10 in key and list(key).index(10) + 3 == LINE


# ---------------------------------------------------------------------------------------------------------------------
# the oracle (shared): `ver`, request tokens describing the CIF, parsed observation


def check_output(ver, req_tokens, d):
    if d is None:
        return None                                   # crash handling is generic
    if d.get("b") != 0:
        return None                                   # the CIF could not be built: nothing to write
    rc = d.get("rc")
    names, strings, keys, nested = request_strings(req_tokens)
    if rc is None:
        return "no result code in the observation"
    if rc != CIF_OK:
        if d.get("walkrc") == rc == CIF_EMPTY_LOOP:
            return None                               # a loop without packets: outside the property's precondition
        if ver == 1:
            if rc == CIF_DISALLOWED_CHAR:
                if any(u not in CIF11 for s in names for u in s) or any(u not in CIF11 for _, _, s in strings for u in s):
                    return None
                return "CIF 1.1: CIF_DISALLOWED_CHAR without a character outside the CIF 1.1 set"
            if rc == CIF_DISALLOWED_VALUE:
                if nested or any(any(s[j] in (10, 13) and s[j + 1] == 59 for j in range(len(s) - 1)) for _, _, s in strings) \
                        or any(13 in s for _, _, s in strings):
                    return None
                return "CIF 1.1: CIF_DISALLOWED_VALUE without a list, a table, a string containing a line terminator followed by ; or a CR"
            return "CIF 1.1: cif_write failed with code %d (only CIF_DISALLOWED_VALUE / CIF_DISALLOWED_CHAR are documented)" % rc
        if rc == CIF_DISALLOWED_VALUE and any(not key_quotable(k) for k in keys):
            return None
        if rc == CIF_DISALLOWED_VALUE and (any(13 in s for _, _, s in strings) or any(13 in k for k in keys)):
            return None                               # a string holding a CR is refused: outside the totality clause ("no CR")
        if rc == CIF_DISALLOWED_CHAR and (any(cif2_disallowed(s) for _, _, s in strings) or any(cif2_disallowed(k) for k in keys)):
            return None                               # not "strings of CIF 2.0 characters": refused, outside the totality clause
        return "cif_write failed with code %d on a writable CIF" % rc
    if any(13 in s for _, _, s in strings) or any(13 in k for k in keys):
        return "cif_write succeeded on a CIF holding a carriage return in a string or key (no reader gives it back)"
    if ver != 1 and (any(cif2_disallowed(s) for _, _, s in strings) or any(cif2_disallowed(k) for k in keys)):
        return "cif_write (CIF 2.0) succeeded on a CIF holding a character CIF 2.0 does not allow"
    data = out_bytes(d.get("out"))
    magic = b"#\\#CIF_1.1\n" if ver == 1 else b"#\\#CIF_2.0\n"
    if not data.startswith(magic):
        return "output does not start with the version comment"
    if ver == 1:
        bad = [b for b in data if b not in CIF11]
        if bad:
            return "CIF 1.1 output contains byte 0x%02x outside the CIF 1.1 character set" % bad[0]
        text = data.decode("latin-1")
    else:
        try:
            text = data.decode("utf-8")
        except UnicodeDecodeError as e:
            return "output is not valid UTF-8: %s" % e
    longest = max(len(l) for l in text.split("\n"))
    if longest > LINE:
        return "output has a line of %d characters" % longest
    if d.get("prc") != 0:
        return "re-parse returned %s" % d.get("prc")
    if d.get("errs") != "-":
        return "re-parse reported error(s) %s" % d.get("errs")
    why = equivalent(d.get("orig", ["-"]), d.get("back", ["-"]))
    if why:
        return "re-parsed CIF is not equivalent: " + why
    return None


def known_class(ver, req_tokens, d):
    """class of the open finding (known_findings.d/C02.json, C13.json): an unquoted string — or an unquoted number — whose
    single line exceeds the line limit can only be written as a text field and comes back as a quoted string.  (The classes of the five writer defects repaired by 0543b02, 634c0d5, 098a48f, bf64cbf,
    40af3df are gone: a recurrence is a violation.)"""
    if d is None or d.get("b") != 0:
        return None
    if d.get("rc") != 0:
        return None
    why0 = check_output(ver, req_tokens, d)
    if why0 is None:
        return None
    if d.get("prc") == 0 and d.get("errs") == "-" and equivalent(d.get("orig", ["-"]), d.get("back", ["-"]), tolerate=True) is None:
        # everything else of the oracle holds?
        d2 = dict(d)
        d2["back"] = d2["orig"]
        if check_output(ver, req_tokens, d2) is None:
            return "unquoted-overlong-line-comes-back-quoted"
    return None


def agree_obs(impl, model):
    d = parse_obs(impl)
    if d is None:
        return impl == model
    if d.get("b") != 0:
        return True
    if "walkrc" in d:
        # the recording walk failed (a loop without packets): the order in which the writer saw the CIF is unknown, the
        # model cannot be run; the oracle still judges the result code
        return True
    m = model.split(" ")
    if len(m) != 3 or m[0] != "w" or not m[1].startswith("rc=") or not m[2].startswith("out="):
        return False
    if m[1] != "rc=%s" % d.get("rc"):
        return False
    if d.get("rc") != 0:
        return True
    try:
        return units_to_bytes(unhexs(m[2][4:]) or []) == out_bytes(d.get("out"))
    except Exception:
        return False


def presentation(d):
    if d is None or d.get("b") != 0:
        return "not-built"
    if d.get("rc") != 0:
        return "rc=%s" % d.get("rc")
    data = out_bytes(d.get("out"))
    lab = []
    if b"\n;> \\\\\n" in data:
        lab.append("text+prefix+fold")
    elif b"\n;> \\\n" in data:
        lab.append("text+prefix")
    elif b"\n;\\\n" in data:
        lab.append("text+fold")
    elif b"\n;" in data:
        lab.append("text")
    if b"'''" in data or b'"""' in data:
        lab.append("triple")
    return "+".join(lab) or "plain"


# ---------------------------------------------------------------------------------------------------------------------
# family `write`

LONGS = [2030, 2040, 2043, 2044, 2045, 2046, 2047, 2048, 2049, 2050, 2060]


def boundary_text(r, ver):
    """a string built around the line-length boundary"""
    n = r.choice(LONGS)
    fill = r.choice("aa;; \\'\"") if ver != 1 or True else "a"
    s = [fill] * n
    for _ in range(r.randint(0, 3)):
        s[r.randrange(n)] = r.choice(" \t;\\'\"a")
    head = r.choice(["", "", ";", "\\", "> \\", "a\n", "\n", "'''", '"""'])
    tail = r.choice(["", "", "\\", "\n", " ", "\\\n", "\n;", "'", '"'])
    return head + "".join(s) + tail


def rand_text(r, ver=2):
    k = r.random()
    if k < 0.06:
        return boundary_text(r, ver)
    al = None
    if ver == 1:
        al = list("abdegloptsv_#$'\";:\\?.[]{} \t\n") + (["é"] if r.random() < 0.01 else [])
    return cifdesc.rand_text(r, 8, al)


def rand_key(r, ver=2):
    k = r.random()
    if k < 0.05:
        n = r.choice([2030, 2038, 2039, 2040, 2041, 2042, 2043, 2044, 2045, 2046, 2047])
        return r.choice(["", "'", '"', " "]) + "k" * n
    return cifdesc.rand_key(r)


def make_value_fn(ver):
    def text(r):
        return rand_text(r, ver)

    def value(r, depth=2, width=3):
        k = r.random()
        if ver == 1 and k < 0.97:
            depth = 0
        if depth > 0 and k < 0.16:
            out = ["["]
            for _ in range(r.randint(0, width)):
                out += value(r, depth - 1, width)
            return out + ["]"]
        if depth > 0 and k < 0.30:
            out = ["{"]
            keys = set()
            for _ in range(r.randint(0, width)):
                key = rand_key(r, ver)
                if key in keys:
                    continue
                keys.add(key)
                out += ["K:" + hexs(key)] + value(r, depth - 1, width)
            return out + ["}"]
        return cifdesc.rand_value(r, 0, 0, True, text)
    return value


VERSION = 2          # family `write11` (tools/gen/write11.py) is this module with VERSION = 1

CODES2 = ["a", "b", "Blk", "d1", "é", "x_y", "\U0001f600z"]
CODES1 = ["a", "b", "Blk", "d1", "x_y", "z.9"]
NAMES2 = ["_a", "_b", "_c", "_d", "_e", "_item.x", "_item.y", "_Q", "_été"]
NAMES1 = ["_a", "_b", "_c", "_d", "_e", "_item.x", "_item.y", "_Q", "_z[1]"]


def w_name(r, ver, used):
    for _ in range(40):
        k = r.random()
        if k < 0.04:
            n = "_" + "n" * (r.choice([2030, 2040, 2044, 2045, 2046, 2047, 2048]) - 1)
        elif ver == 1 and k < 0.06:
            n = "_é"
        elif ver != 1 and k < 0.06:
            n = "_\U0001f600" + r.choice(["", "x"])
        else:
            n = r.choice(NAMES1 if ver == 1 else NAMES2)
        if n.lower() not in used:
            used.add(n.lower())
            return n
    n = "_n%d" % len(used)
    used.add(n)
    return n


def w_loop(r, ver, used, scalar, value):
    n = r.randint(1, 3)
    names = [w_name(r, ver, used) for _ in range(n)]
    if scalar:
        toks = ["L:-:%d" % n] + [hexs(x) for x in names] + ["P"]
        for _ in names:
            toks += value(r)
        return toks + ["Z"]
    toks = ["L:%s:%d" % (r.choice(["~", hexs("cat"), hexs("c2")]), n)] + [hexs(x) for x in names]
    for _ in range(r.randint(0 if r.random() < 0.02 else 1, 3)):
        toks.append("P")
        for _ in names:
            toks += value(r)
    return toks + ["Z"]


def w_body(r, ver, depth, value):
    used, toks, codes = set(), [], set()
    if depth > 0:
        for _ in range(r.randint(0, 2)):
            c = r.choice(["f1", "f2", "F3", "s"] + ([] if ver == 1 else ["fé"]))
            if c.lower() in codes:
                continue
            codes.add(c.lower())
            toks += ["F:" + hexs(c)] + w_body(r, ver, depth - 1, value) + ["E"]
    have_scalar = False
    for _ in range(r.randint(0, 3)):
        scalar = (not have_scalar) and r.random() < 0.5
        have_scalar |= scalar
        toks += w_loop(r, ver, used, scalar, value)
    return toks


def w_cif(r, ver, value):
    toks, codes = [], set()
    for _ in range(r.randint(1, 3)):
        k = r.random()
        if k < 0.03:
            c = "c" * r.choice([2040, 2042, 2043])
        elif ver == 1 and k < 0.05:
            c = "é"
        else:
            c = r.choice(CODES1 if ver == 1 else CODES2)
        if c.lower() in codes:
            continue
        codes.add(c.lower())
        toks += ["B:" + hexs(c)] + w_body(r, ver, 2 if r.random() < 0.25 else (1 if r.random() < 0.6 else 0), value) + ["E"]
    return toks


def order_case(r):
    """CIF 1.1 mode, C13_first_refused: a CIF holding elements of BOTH refusal kinds (a character outside CIF 1.1 in a code, a
    data name or a string: CIF_DISALLOWED_CHAR; a list, a table, a string that needs a text field and holds <LF>; :
    CIF_DISALLOWED_VALUE) in random order among harmless items, as scalars or in a loop, in a block or a save frame — the code
    cif_write returns is that of the element its walk meets first"""
    bad_char = [["C1:" + hexs("\u00e9")], ["C0:" + hexs("x\u00e9")], ["C1:" + hexs("\u00e9\n;x")]]
    bad_value = [["[", "]"], ["{", "}"], ["[", "C1:" + hexs("\u00e9"), "]"], ["C1:" + hexs("y\n;x")], ["{", "K:" + hexs("\u00e9"), "U", "}"]]
    good = [["U"], ["N"], ["C0:" + hexs("v")], ["C1:" + hexs("a b")], ["M0:" + hexs("12")]]
    vals = [r.choice(bad_char), r.choice(bad_value)] + [r.choice(good) for _ in range(r.randint(0, 2))]
    if r.random() < 0.3:
        vals.append(r.choice(bad_char + bad_value))
    r.shuffle(vals)
    names = ["_a", "_b", "_c", "_d", "_e"][:len(vals)]
    if r.random() < 0.25:
        names[r.randrange(len(names))] = "_\u00e9"                  # a bad data name: met before its value
    if r.random() < 0.5:
        loop = ["L:-:%d" % len(vals)] + [hexs(x) for x in names] + ["P"] + [t for v in vals for t in v] + ["Z"]
    else:
        loop = ["L:~:%d" % len(vals)] + [hexs(x) for x in names] + ["P"] + [t for v in vals for t in v] + ["Z"]
    code = "\u00e9" if r.random() < 0.15 else "b"
    if r.random() < 0.3:
        body = ["F:" + hexs("f")] + loop + ["E"] + (["L:-:1", hexs("_z")] + ["P"] + r.choice(bad_char + bad_value + good) + ["Z"])
    else:
        body = loop
    return ["B:" + hexs(code)] + body + ["E"]


def generate_for(ver, family, seed, tier):
    r = rng(seed, family)
    n = 500 if tier == "quick" else 12000
    for i in range(n):
        if ver == 1 and r.random() < 0.08:
            yield "write %d %s" % (ver, " ".join(order_case(r)))
            continue
        toks = w_cif(r, ver, make_value_fn(ver))
        yield "write %d %s" % (ver, " ".join(toks) if toks else "-")


def generate(seed, tier):
    return generate_for(VERSION, FAMILY, seed, tier)


def _split(req):
    t = req.split(" ")
    return int(t[1]), t[2:]


def model_request(req, impl):
    d = parse_obs(impl)
    ver, _ = _split(req)
    if d is None or d.get("b") != 0 or "walk" not in d:
        return "write %d -" % ver
    return "write %d %s" % (ver, " ".join(d["walk"]))


def oracle(req, impl):
    ver, toks = _split(req)
    d = parse_obs(impl)
    if d is not None and d.get("b") not in (0, None) and d.get("b") < 0:
        return None
    return check_output(ver, toks, d)


def agree(impl, model, req=None):
    return agree_obs(impl, model)


def nontrivial(req, impl):
    d = parse_obs(impl)
    return bool(d) and d.get("b") == 0 and d.get("rc") == 0


def classify(req, impl):
    ver, _ = _split(req)
    return "v%d:%s" % (ver, presentation(parse_obs(impl)))


def finding_class(req, impl, model, why):
    ver, toks = _split(req)
    return known_class(ver, toks, parse_obs(impl))
