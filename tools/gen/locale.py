"""family `locale` (C16): cif_value_init_numb / cif_value_autoinit_numb leave LC_NUMERIC and the rounding mode as found,
on every path (success, argument error, each allocation failure)"""
FAMILY = "locale"
HARNESS = {"source": "x_locale.c", "leak_clean": True}
ENV = {"VERIF_LEAKCHECK": "1"}
RULE = ("exhaustive: fn in {init, autoinit} x exact in {0,1} x arguments valid/invalid x failing allocation k = 0..12; "
        "non-trivial = the call gets past its argument check; oracle: locale name and fegetround() unchanged, no leak")


def generate(seed, tier):
    for fn in ("init", "autoinit"):
        for exact in (0, 1):
            for valid in (0, 1):
                for k in range(0, 13):
                    yield "locale %s %d %d %d" % (fn, exact, valid, k)


def nontrivial(req, impl):
    return req.split()[3] == "1"


def classify(req, impl):
    t = req.split()
    return "%s:%s" % (t[1], "valid" if t[3] == "1" else "badargs")


def oracle(req, impl):
    if not impl.startswith("lc "):
        return None
    if "loc=changed" in impl:
        return "LC_NUMERIC is not what it was before the call"
    if "round=changed" in impl:
        return "the floating-point rounding mode was changed"
    if "!LEAK" in impl:
        return "memory leaked"
    return None


def agree(impl, model, req=None):
    # with a failing allocation the result class depends on which allocation it is (the model abstracts the formatting
    # body to one step); the locale / rounding observations must agree exactly, the result class when no fault is injected
    if req and req.split()[4] != "0":
        return impl.split()[2:] == model.split()[2:]
    return impl == model
