"""family `bufscan` (C08, buffer level): the REAL next_token() and scan functions of parser.c, run with a CHOSEN (small) initial
scan buffer and a CHOSEN chunking of the character stream, against Model.BufScan (the scanner written over buffer offsets with
get_more_chars called in the middle of tokens).  See harness/x_bufscan.c for the request language.

Request:  bufscan <dialect 1|2> <initial buffer size> <policy a|r<k>> <dochex> <cuts>
Answer:   bs toks=<ty>:<hex>:<line>:<col>,… rc=<n> errs=<code>:<line>:<col>,… buf=<size>:<limit>:<next>:<text>:<tvalue>,… ref=<=|…>
"""
import itertools, os, re, sys
sys.path.insert(0, os.path.dirname(os.path.abspath(__file__)))
from common import hexs, unhexs, rng
import fills as F

FAMILY = "bufscan"
HARNESS = {"source": "x_bufscan.c", "exclude_objs": ["parser"], "leak_clean": True}
RULE = ("EVERY string over {a, blank, LF, CR, ', ;} up to length 4 (quick) / 5 (thorough) x EVERY chunking x initial buffer sizes 2 and 3, "
        "CIF 2.0; every string over {a,_,#,\",:,[,LF,CR-LF} of length <= 3/4 likewise; random CIF documents (text fields, triple quotes, "
        "tables with keys, surrogate pairs, reserved words, comments, defects, unpaired surrogates) re-spelled with LF / CR LF / CR "
        "mixtures, both dialects, under random chunkings (sizes 1, 2, 3, cuts after CR / lead surrogate / delimiters / backslash) "
        "and initial buffer sizes 2..100 and around BUF_MIN_FILL (2049..2052, 4100, 5000: the append path); single tokens of every "
        "kind longer than the buffer (doubling in the middle of the token) and ending exactly on the buffer limit; accept-all and "
        "reject-the-k-th policies.  non-trivial = more than one chunk, or a CR in the document, or an initial buffer shorter than "
        "the document.  oracle (implementation only): tokens (type, text, line, column), return value and reports (code, line, "
        "column) equal those of the EOL-normalised document delivered in ONE chunk through a buffer that holds all of it; the "
        "buffer offsets satisfy 0 <= text_start <= tvalue_start <= next_char <= buffer_limit <= buffer_size and the size is "
        "initial * 2^k")

CR, LF = 13, 10
PAIR = [0xD83D, 0xDE00]


def req(dia, size, pol, units, cuts, ops=None):
    return "bufscan %d %d %s %s %s" % (dia, size, pol, hexs(units), cuts) + (" " + ops if ops else "")


def u(s):
    return unhexs(hexs(s)) if s else []


TOKENS2 = ["abc", "_name", "'q v'", '"dq"', "'''tri\nple'''", '"""t"q"""', "\n;text\nfield\n;", "\n;\n;", "[", "]", "{", "}", "'k':", '"""tk""":',
           "data_blk", "save_fr", "save_", "loop_", "stop_", "global_", "data_", "DATA_X", "#comment\n", "x'y", "a;b", "?", ".", "12.5(3)",
           "'it''s'", "''", '""', "''''''", "'''a''b'''", "'unterminated\n", "\n;unclosed text", "'''unclosed", "a[b", "data_[x]", "save_{y}",
           "a]b", "$x", "\x07", "﻿", "é中", "\n;a\r\n;", "\n;\\\nfold\\\n\n;", "'a'b", "'a':x", "\n;t\n;:v"]
TOKENS1 = ["abc", "_name", "'q v'", '"dq"', "'it's'", "'a'b c'", "\n;text\nfield\n;", "[a]", "{b}", "data_blk", "save_fr", "save_", "loop_",
           "stop_", "global_", "#c\n", "'unterminated\n", "\n;unclosed", "x~", "'a' ", "'a'\n", "'''", "''", "\x7f", "é"]
SEPS = [" ", "  ", "\n", "\n\n", "\t", " \n ", "\r\n", "\r", " #c\n", "\n#c c\r\n", ""]


def rand_stream(r, dia):
    toks = TOKENS2 if dia == 2 else TOKENS1
    parts = []
    if r.random() < 0.3:
        parts.append(r.choice(SEPS))
    for _ in range(r.randint(1, 8)):
        t = r.choice(toks)
        k = r.random()
        if k < 0.08 and dia == 2:
            t = t + "".join(chr(c) for c in PAIR)
        parts.append(t)
        parts.append(r.choice(SEPS))
    s = u("".join(parts))
    # unpaired surrogates / swapped pairs / not-a-character pairs
    if r.random() < 0.15 and s:
        i = r.randrange(len(s) + 1)
        s[i:i] = r.choice([[0xD83D], [0xDE00], [0xDE00, 0xD83D], [0xD83F, 0xDFFE], [0xD83D, 0xD83D, 0xDE00], [0xFFFE], [0xFDD0]])
    if r.random() < 0.2:
        s = F.respell(r, [LF if x == CR else x for x in s]) if r.random() < 0.5 else s
    return s


def rand_size(r, n):
    k = r.random()
    if k < 0.35:
        return r.choice([2, 2, 3, 3, 4, 5])
    if k < 0.7:
        return r.choice([6, 7, 8, 9, 12, 16, 17, 31, 32, 33, 64, 100])
    if k < 0.8:
        return max(2, n + r.choice([-3, -2, -1, 0, 1, 2]))
    if k < 0.9:
        return max(2, n // 2 + r.choice([-1, 0, 1]))
    return r.choice([2049, 2050, 2051, 2052, 4100, 5000])


def rand_pol(r):
    return "a" if r.random() < 0.8 else "r%d" % r.choice([0, 0, 1, 2, 3])


def long_token_cases(r, thorough):
    """single tokens of every kind longer than the buffer / ending exactly on the buffer limit"""
    out = []
    lens = [1, 2, 3, 4, 5, 6, 7, 8, 9, 15, 16, 17, 31, 32, 33, 63, 64, 65] + ([127, 128, 129, 255, 256, 257, 1000] if thorough else [128])
    for n in lens:
        body = "".join(r.choice("abcxyz") for _ in range(n))
        kinds2 = ["%s", "_%s", "'%s'", '"%s":', "'''%s'''", '"""%s""":', "\n;%s\n;", "\n;%s\r\n;", "#%s\n", "data_%s", "save_%s", " %s ",
                  "'%s", "'''%s", "\n;%s", "[%s]", "{'%s':%s}", "%s😀", "'%s\ud83d'", "%s\ud83d"]
        for kd in kinds2:
            try:
                txt = kd % body if kd.count("%s") == 1 else kd % (body, body)
            except TypeError:
                continue
            s = u(txt)
            for size in sorted(set([2, 3, 4, max(2, n - 1), max(2, n), n + 1, n + 2, n + 3, max(2, n // 2)])):
                if not thorough and r.random() < 0.6:
                    continue
                cuts = r.choice(["-", "*1", "*2", "*3", "*%d" % max(1, size - 1), "*%d" % size, "*%d" % (size + 1), F.rand_cuts(r, s)])
                out.append(req(2, size, "a", s, cuts))
        for kd in ["%s", "_%s", "'%s'", "'%s'x '", "\n;%s\n;", "#%s\n", "data_%s", "'%s", "[%s]"]:
            s = u(kd % body)
            size = r.choice([2, 3, max(2, n), n + 1, n + 2])
            out.append(req(1, size, "a", s, r.choice(["-", "*1", "*2", "*%d" % size, F.rand_cuts(r, s)])))
    return out


def append_path_cases(r, thorough):
    """buffers of at least BUF_MIN_FILL + something: the `append` case (room >= BUF_MIN_FILL left) next to move / doubling"""
    out = []
    for _ in range(12 if thorough else 4):
        size = r.choice([2051, 2052, 2060, 2100, 4100, 4200, 5000])
        parts = []
        while sum(len(p) for p in parts) < r.choice([60, 300, 3000] if not thorough else [300, 3000, 9000]):
            t = r.choice(TOKENS2)
            if r.random() < 0.1:
                t = "'" + "z" * r.choice([40, 700, 2100]) + "'"
            if r.random() < 0.05:
                t = "\n;" + ("line\n" * r.choice([10, 300])) + ";"
            parts.append(t + r.choice(SEPS))
        s = u("".join(parts))
        if r.random() < 0.5:
            s = F.respell(r, [LF if x == CR else x for x in s])
        cuts = r.choice(["*1", "*2", "*3", "*7", "*64", "*2049", "*2050", F.rand_cuts(r, s)])
        out.append(req(2, size, "a", s, cuts))
    return out


def _generate(seed, tier):
    r = rng(seed, FAMILY)
    thorough = tier != "quick"
    # 1. exhaustive short streams x every chunking x buffer sizes 2, 3
    nmax = 5 if thorough else 4
    for n in range(0, nmax + 1):
        for s in itertools.product((97, 32, LF, CR, 39, 59), repeat=n):
            for sizes in F.compositions(n):
                c = F.cuts_arg(sizes)
                yield req(2, 2, "a", s, c)
                if n <= nmax - 1:
                    yield req(2, 3, "a", s, c)
    atoms = [[97], [95], [35], [34], [58], [91], [LF], [CR, LF]]
    for n in range(1, (4 if thorough else 3) + 1):
        for t in itertools.product(atoms, repeat=n):
            s = [x for a in t for x in a]
            for sizes in F.compositions(len(s)):
                yield req(2, 2, "a", s, F.cuts_arg(sizes))
    # 2. random token streams, both dialects
    for _ in range(12000 if thorough else 1500):
        dia = r.choice([1, 2, 2])
        s = rand_stream(r, dia)
        yield req(dia, rand_size(r, len(s)), rand_pol(r), s, F.rand_cuts(r, s) if r.random() < 0.85 else r.choice(["-", "*1", "*2"]))
    # 2b. the token manipulations of the grammar productions (TRIM_TOKEN, colon push-back) on the pending token, then the
    #     pushed-back units are scanned again — with refills / buffer moves in between
    OPTOK = ["a:b", ":x", "ab:cd:e", "'k':v", '"""t""":w', "\n;t\n;:z", "x\U0001F600y", "\U0001F600\U0001F600z", "q\ud83d", "abc", "{", "}", "1.5", "'q'"]
    for _ in range(6000 if thorough else 700):
        parts = []
        for _ in range(r.randint(1, 6)):
            parts.append(r.choice(OPTOK))
            parts.append(r.choice([" ", "\n", "", " ", "\r\n"]))
        s = u("".join(parts))
        if r.random() < 0.3:
            s = F.respell(r, [LF if x == CR else x for x in s])
        yield req(2, rand_size(r, len(s)), rand_pol(r), s, F.rand_cuts(r, s) if r.random() < 0.8 else r.choice(["-", "*1", "*2"]),
                  r.choice(["t", "c", "tc"]))
    # 3. random CIF documents of the fills family, re-spelled
    for _ in range(3000 if thorough else 300):
        d = F.respell(r, F.to_units(F.rand_doc(r)))
        dia = 2 if d[:10] == u("#\\#CIF_2.0") else r.choice([1, 2])
        yield req(dia, rand_size(r, len(d)), rand_pol(r), d, F.rand_cuts(r, d))
    # 4. long tokens of every kind against the buffer size
    for q in long_token_cases(r, thorough):
        yield q
    # 5. the append path
    for q in append_path_cases(r, thorough):
        yield q


def generate(seed, tier):
    for q in _generate(seed, tier):
        yield q


def _kv(obs):
    return dict(t.split("=", 1) for t in obs.split(" ")[1:] if "=" in t)


def agree(impl, model, req_=None):
    if not impl.startswith("bs "):
        return impl == model
    a, b = _kv(impl), _kv(model)
    return all(a.get(k) == b.get(k) for k in ("toks", "rc", "errs", "buf"))


def oracle(req_, impl):
    t = req_.split(" ")
    if len(t) not in (6, 7) or not impl.startswith("bs "):
        return None
    a = _kv(impl)
    if a.get("ref") != "=":
        return "token stream / reports differ from those of the EOL-normalised document delivered in one chunk through a large buffer"
    size0 = int(t[2])
    if a.get("buf", "-") != "-":
        for k, rec in enumerate(a["buf"].split(",")):
            size, limit, nxt, text, tval = map(int, rec.split(":"))
            if not (0 <= text <= tval <= nxt <= limit <= size):
                return "token %d: buffer offsets out of order: size %d limit %d next %d text %d tvalue %d" % (k, size, limit, nxt, text, tval)
            q = size
            while q > size0 and q % 2 == 0:
                q //= 2
            if q != size0:
                return "token %d: buffer size %d is not the initial size %d doubled some times" % (k, size, size0)
    return None


def finding_class(req_, impl, model, why):
    return None


def nontrivial(req_, impl):
    t = req_.split(" ")
    if len(t) not in (6, 7):
        return False
    n = 0 if t[4] == "-" else len(t[4]) // 4
    return t[5] != "-" or "000d" in re.findall("....", t[4]) or int(t[2]) < n


def classify(req_, impl):
    t = req_.split(" ")
    if len(t) not in (6, 7):
        return "?"
    n = 0 if t[4] == "-" else len(t[4]) // 4
    size = int(t[2])
    sz = "buf<doc" if size < n else "buf>=doc"
    if size >= 2049:
        sz = "buf>=minfill"
    a = _kv(impl) if impl.startswith("bs ") else {}
    grown = "-"
    if a.get("buf", "-") != "-":
        last = int(a["buf"].split(",")[-1].split(":")[0])
        grown = "doubled" if last > size else "same"
    return "v%s/%s/%s/%s/%s%s" % (t[1], sz, "1chunk" if t[5] == "-" else "chunked", grown, "accept" if t[3] == "a" else "reject",
                                  "/ops-" + t[6] if len(t) == 7 else "")


def shrink(req_):
    t = req_.split(" ")
    if len(t) not in (6, 7):
        return
    dia, size, pol, doc, cuts = int(t[1]), int(t[2]), t[3], unhexs(t[4]), t[5]
    ops = t[6] if len(t) == 7 else None
    for c in ("-", "*1", "*2"):
        if c != cuts and len(c) < len(cuts):
            yield req(dia, size, pol, doc, c, ops)
    for sz in (2, 3, 4, 8):
        if sz < size:
            yield req(dia, sz, pol, doc, cuts, ops)
    n = len(doc)
    step = n // 2
    while step >= 1:
        for s in range(0, n, step):
            yield req(dia, size, pol, doc[:s] + doc[s + step:], cuts, ops)
        step //= 2
