"""family `todbl` (C10): the file-static to_double(digits, scale) of src/value.c"""
import os, re, sys
sys.path.insert(0, os.path.dirname(os.path.abspath(__file__)))
from common import hexs, unhexs, rng
import numbcommon as nc

FAMILY = "todbl"
HARNESS = {"source": "x_todbl.c", "extra_sources": ["x_numb_dbl.h"], "exclude_objs": ["value"], "leak_clean": True}
RULE = ("non-trivial = a distinct (digit string, scale) whose value is non-zero and in the normal range of double; oracle "
        "(implementation only): for at most 2048 significant digits the result is the double nearest to digits*10^-scale, "
        "ties to even, computed with exact integers, and equals glibc strtod (computed in the executor); zero digit strings give +0")


def req(digits, scale):
    return "todbl %s %d" % (hexs(digits), scale)


def ties(r):
    """(digits, scale) exactly half-way between two adjacent doubles; also +-1 in a last digit far out"""
    m = r.getrandbits(52) | (1 << 52)
    m = m | 1 if r.random() < 0.5 else m & ~1
    e = r.choice([r.randint(-1070, 960), r.randint(-80, 40), r.randint(-10, 10)])
    num, ex = 2 * m + 1, e - 1
    if ex >= 0:
        digs, scale = str(num << ex), 0
    else:
        digs, scale = str(num * 5 ** (-ex)), -ex
    out = [(digs, scale)]
    if len(digs) < 2040:
        pad = r.choice([1, 3, 9, 2046 - len(digs), 2047 - len(digs), 2048 - len(digs)])
        if pad > 0:
            out.append((digs + "0" * (pad - 1) + "1", scale + pad))
            out.append((str(int(digs) - 1) + "9" * pad, scale + pad))
        out.append((str(int(digs) + 1), scale))
        out.append((str(int(digs) - 1), scale))
    return out


def generate(seed, tier):
    r = rng(seed, FAMILY)
    n = 5000 if tier == "quick" else 150000
    for d, s in [("", 0), ("0", 0), ("000", 5), ("9007199254740995", 0), ("9007199254740993", 0), ("1", 0), ("1", -308), ("17976931348623157", -292),
                 ("17976931348623158", -292), ("17976931348623159", -292), ("22250738585072014", 324), ("1", 400), ("1", -400), ("49", 325)]:
        yield req(d, s)
    # the (leading digit x decimal exponent) table: the libm estimates of right_shift_min/max
    for msp in range(-323, 310):
        for d0 in "123456789":
            yield req(d0, -msp)
    for msp in range(-30, 30):
        for d0 in "1248":
            yield req(d0 + "0000000000000000000001", -msp + 22)
    # the systematic neighbourhood of the powers of two (numbcommon.pow2_neighbourhood): 2^k +- f*ulp for f around 1/2, 3/4, 1 - eps
    for d, s, _ in nc.pow2_neighbourhood(2):
        yield req(d, s)
    for i in range(n):
        c = r.random()
        if c < 0.25:
            for d, s in ties(r):
                yield req(d, s)
        elif c < 0.4:   # binade boundaries
            k = r.randint(-1000, 1000)
            if k >= 0:
                v, sc = 2 ** k + r.choice([-1, 0, 1]), 0
            else:
                v, sc = 5 ** (-k) + r.choice([-1, 0, 1]), -k
            yield req(str(v), sc)
        elif c < 0.55:  # limb boundaries
            nd = 9 * r.randint(1, 8) + r.choice([-1, 0, 1])
            d = str(r.randint(10 ** (nd - 1), 10 ** nd - 1))
            yield req(d, r.choice([0, nd, nd // 2, r.randint(-300, 320)]))
        elif c < 0.75:  # 17-40 digit mantissas, exponents -400..400
            nd = r.randint(17, 40)
            yield req(str(r.randint(10 ** (nd - 1), 10 ** nd - 1)), r.randint(-400, 400))
        elif c < 0.8:   # very long
            nd = r.choice([2040, 2047, 2048, 2049, 2100, 3000])
            d = str(r.randint(1, 9)) + "".join(r.choice("0123456789") for _ in range(nd - 1))
            yield req(d, r.choice([0, nd - 1, nd + 300, nd - 300, r.randint(0, nd), nd - 1 - r.randint(295, 308), nd - 1 + r.randint(300, 321)]))
        elif c < 0.85:  # leading / trailing zeros
            d = "0" * r.randint(0, 12) + str(r.getrandbits(r.randint(1, 64))) + "0" * r.randint(0, 30)
            yield req(d, r.randint(-40, 60))
        elif c < 0.9:   # denormal-adjacent and huge
            nd = r.randint(1, 25)
            d = str(r.randint(10 ** (nd - 1), 10 ** nd - 1))
            yield req(d, r.choice([r.randint(300, 345) + nd, -r.randint(285, 310) + nd]))
        else:
            d = str(r.getrandbits(r.randint(1, 200)))
            yield req(d, r.randint(-50, 80))


def parts(rq):
    t = rq.split()
    return nc.ascii_of_hex(t[1]), int(t[2])


def oracle(rq, impl):
    if not impl.startswith("td "):
        return None
    digits, scale = parts(rq)
    got = impl.split()[1]
    a = nc.kv(impl)
    sig = digits.lstrip("0").rstrip("0")
    if not digits.strip("0"):
        return None if got == "+0:0" else "zero digit string gives %s" % got
    if len(sig) > 2048:
        return None
    want = nc.digits_value_token(digits, scale)
    if want is None:
        return None
    if got != want:
        return "to_double gives %s, the nearest double is %s" % (got, want)
    if a.get("ref") not in (None, "~", want):
        return "strtod reference %s differs from the exact computation %s" % (a.get("ref"), want)
    return None


def agree(impl, model, rq=None):
    return re.sub(r" ref=\S+", "", impl) == model


def nontrivial(rq, impl):
    digits, scale = parts(rq)
    return bool(digits.strip("0")) and nc.digits_value_token(digits, scale) is not None


def classify(rq, impl):
    digits, scale = parts(rq)
    n = len(digits.strip("0"))
    got = impl.split()[1] if impl.startswith("td ") else "crash"
    rng_ = "zero" if got == "+0:0" else "inf" if "inf" in got else "subnormal" if got.endswith(":-1074") and int(got[1:].split(":")[0]) < 2 ** 52 else "normal"
    return "%s:%s" % (rng_, "0d" if n == 0 else "1-16d" if n <= 16 else "17-40d" if n <= 40 else "41-2048d" if n <= 2048 else ">2048d")


def finding_class(rq, impl, model, why):
    digits, scale = parts(rq)
    sig = digits.lstrip("0")
    if impl.startswith("SAN:asan:stack-buffer-overflow:value.c:to_double") and len(sig.rstrip("0")) > 2000 and len(sig) - 1 - scale > 280:
        return "to_double bignum array overflow: > 2000 significant digits with most significant place above 280"
    return None
