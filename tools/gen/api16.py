"""family `api16` (C16): size-boundary stress of the public API under ASan/UBSan with exact leak accounting — strings whose
normalised forms change length (NFC / NFD / case folding expansions and contractions, composition exclusions), at the
positions where the library sizes buffers from one form and fills them with another; lists around their capacity steps,
cloned and then grown; values written in both dialects.  Implementation-only (no model): the oracle is 'returns normally,
nothing leaked'."""
import os, sys, unicodedata
sys.path.insert(0, os.path.dirname(os.path.abspath(__file__)))
from common import hexs, rng

FAMILY = "api16"
HARNESS = {"source": "x_api16.c", "leak_clean": True}
ENV = {"VERIF_LEAKCHECK": "1"}
RULE = ("strings built around every BMP character (thorough: every Unicode character) whose NFC, NFD or case-folded form has a "
        "different length than the character itself, alone and embedded in ASCII, used as table key, packet item name, block "
        "code, frame code, data name and character value; lists of 0..13 elements cloned and grown by 0..7; "
        "misc / verr / herr: the public functions no other family calls and the documented non-memory error exits of the value "
        "and handle functions (wrong kind, bad index, NULL, invalid code, stale / NULL handles, duplicates, CIF_CAT_NOT_UNIQUE); "
        "non-trivial = every distinct request; oracle: no sanitizer report, no leaked block")


def changing_chars(limit):
    out = []
    for cp in range(0x80, limit):
        if 0xD800 <= cp <= 0xDFFF:
            continue
        c = chr(cp)
        u16 = lambda s: len(s.encode("utf-16-le")) // 2
        n = u16(c)
        if u16(unicodedata.normalize("NFC", c)) != n or u16(unicodedata.normalize("NFD", c)) != n or u16(c.casefold()) != n \
                or u16(unicodedata.normalize("NFC", unicodedata.normalize("NFD", c).casefold())) != n:
            out.append(c)
    return out


def generate(seed, tier):
    r = rng(seed, FAMILY)
    chars = changing_chars(0x10000 if tier == "quick" else 0x110000)
    if tier == "quick":
        # a fixed set of known length-changing classes first, then a seeded sample of the rest
        must = [c for c in "क़य़ড়ਲ਼གྷיִ⫝̸ßİﬃẞŉǰΐᾀÅΩ한ཱི̈́"]
        chars = must + r.sample(chars, min(len(chars), 500))
    # public functions / documented error exits that no other leak-swept family reaches (tools/dev/api_coverage.py)
    for sc in ("misc", "verr", "herr"):
        yield "api16 %s 0" % sc
    for c in chars:
        for kind in ("key", "name"):
            yield "api16 %s %s" % (kind, hexs(c))
        if r.random() < 0.3:
            yield "api16 key %s" % hexs("a" + c + "b")
            yield "api16 key %s" % hexs(c + c)
            yield "api16 name %s" % hexs("x" + c)
            yield "api16 text %s" % hexs(c + " " + c)
    for n in range(0, 14):
        for m in (0, 1, 3, 7):
            for at in (0, 1, 99):
                yield "api16 list %d %d %d" % (n, m, at)
    for s in ["", "a", "a b", "'\"", ";x", "a\nb", "x" * 2050, "data_x", "?", "\U0001f600" * 3, "a\\\n", "\t "]:
        yield "api16 text %s" % hexs(s)


def classify(req, impl):
    return req.split()[1]


def oracle(req, impl):
    if "!LEAK" in impl:
        return "memory leaked"
    return None


def agree(impl, model, req=None):
    return True


def model_request(req, impl):
    return "oomnull"
