"""family `reserved` (C18): cif_is_reserved_string against the model and against the reserved forms of CIF 2.0"""
import itertools, os, re, sys
sys.path.insert(0, os.path.dirname(os.path.abspath(__file__)))
from common import hexs, unhexs, rng

FAMILY = "reserved"
HARNESS = {"source": "x_reserved.c", "leak_clean": True}
RULE = ("exhaustive: every upper/lower-case mixture of data_ save_ loop_ stop_ global_, bare and with suffixes; every single-unit "
        "deletion, substitution and insertion in them (near misses); all strings of length <= 3 (quick) / <= 4 (thorough) over "
        "_ # $ ' \" ; ? . d D a s S t l g o p _; seeded mutations with arbitrary units incl. U+017F, U+FB06, U+0130; "
        "non-trivial = non-empty; oracle: reserved first character, or ASCII-case-insensitive data_* / save_* / loop_ / stop_ / global_")

WORDS = ["data_", "save_", "loop_", "stop_", "global_"]
SMALL = [ord(c) for c in "_#$'\";?.dDasStlgop"]
SPEC = re.compile(r"^([_#$'\"].*|[dD][aA][tT][aA]_.*|[sS][aA][vV][eE]_.*|[lL][oO][oO][pP]_|[sS][tT][oO][pP]_|[gG][lL][oO][bB][aA][lL]_)$", re.S)


def mixtures(w):
    letters = [i for i, c in enumerate(w) if c.isalpha()]
    for mask in range(1 << len(letters)):
        s = list(w)
        for b, i in enumerate(letters):
            if mask >> b & 1:
                s[i] = s[i].upper()
        yield "".join(s)


def generate(seed, tier):
    r = rng(seed, FAMILY)
    seen = set()

    def out(units):
        units = [u for u in units if u != 0]
        k = hexs(units)
        if k not in seen:
            seen.add(k)
            return "reserved " + k
        return None
    cands = []
    for w in WORDS:
        for m in mixtures(w):
            for suf in ("", "x", "_", "_x", " ", "1"):
                cands.append([ord(c) for c in m + suf])
        base = [ord(c) for c in w]
        subs = [95, 45, 97, 65, 32, 0x17f, 0xfb06, 0x130, 0x212a, 0xff44, 100 + 0x100]
        for i in range(len(base)):
            cands.append(base[:i] + base[i + 1:])                                   # deletion
            cands.append(base[:i] + base[i + 1:] + [120])
            for c in subs:
                cands.append(base[:i] + [c] + base[i + 1:])                         # substitution
                cands.append(base[:i] + [c] + base[i:])                             # insertion
        for c in subs:
            cands.append(base + [c])
            cands.append([c] + base)
    cands += [[0x17f] + [ord(c) for c in "ave_x"], [0xfb06] + [ord(c) for c in "op_"], [0x17f] + [ord(c) for c in "top_"]]
    for n in range(0, (4 if tier == "thorough" else 3) + 1):
        for s in itertools.product(SMALL, repeat=n):
            cands.append(list(s))
    for _ in range(2000 if tier == "quick" else 20000):
        w = [ord(c) for c in r.choice(list(mixtures(r.choice(WORDS))))]
        for _ in range(r.randrange(1, 3)):
            op = r.randrange(3)
            i = r.randrange(len(w) + 1)
            c = r.choice([r.randrange(1, 0x10000), r.choice(SMALL)])
            if op == 0 and i < len(w):
                w[i] = c
            elif op == 1:
                w.insert(i, c)
            elif i < len(w) and len(w) > 1:
                del w[i]
        cands.append(w)
    for c in cands:
        q = out(c)
        if q:
            yield q


def oracle(req, impl):
    t = impl.split()
    if len(t) != 2 or t[0] != "rs":
        return None
    s = "".join(chr(u) for u in unhexs(req.split()[1]))
    want = 1 if SPEC.match(s) else 0
    if int(t[1]) != want:
        return "cif_is_reserved_string = %s, reserved form: %d" % (t[1], want)
    return None


def nontrivial(req, impl):
    return req.split()[1] != "-"


def classify(req, impl):
    return "reserved" if impl == "rs 1" else "free"


def finding_class(req, impl, model, why):
    return None
