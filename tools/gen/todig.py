"""family `todig` (C10): the file-static to_digits(d, scale) of src/value.c"""
import os, re, sys
sys.path.insert(0, os.path.dirname(os.path.abspath(__file__)))
from common import hexs, unhexs, rng
import numbcommon as nc
from fractions import Fraction

FAMILY = "todig"
HARNESS = {"source": "x_todig.c", "extra_sources": ["x_numb_dbl.h"], "exclude_objs": ["value"], "leak_clean": True}
RULE = ("non-trivial = a distinct (double, scale) with non-zero rounded result; oracle (implementation only): the digit string "
        "is the decimal numeral (no leading zeroes) of |d|*10^scale rounded half-even to an integer, computed with exact "
        "rationals; a result that rounds to zero is the empty string or \"0\"; the rounding mode is untouched; scales within "
        "the range cif_value_init_numb admits (-308..321)")


def req(d, scale):
    neg, m, e = d
    return "todig %s %d" % (nc.tok(neg, m, e), scale)


def generate(seed, tier):
    r = rng(seed, FAMILY)
    n = 5000 if tier == "quick" else 150000
    for x, s in [(0.0004, 2), (0.5, 0), (1.5, 0), (2.5, 0), (0.125, 2), (0.375, 2), (1e-20, 2), (999999999.5, 0), (999999999.6, 0), (0.0, 3),
                 (1e22, -22), (1e23, -22), (5e-324, 321), (1.7976931348623157e308, -308), (1.7976931348623157e308, 0), (0.05, 1), (0.15, 1),
                 (1e9, 0), (1e9 - 0.5, 0), (123456789.5, 0), (4.5e8, -9), (5e8, -9), (5.000000001e8, -9), (1.5e9, -9), (2.5e9, -9)]:
        t = nc.parse_dbl(nc.dbl_token(x))
        yield req((False, t[2], t[3]), s)
    for x, sc in [(1999999999.96, 1), (1999999999.996, 2), (12999999999.9996, 3), (1999999999.6, 0), (999999999999999999.0, 0),
                  (1.9999999999996e18, -6), (999999999.96, 1), (99999999999999.96, 1)]:
        t = nc.parse_dbl(nc.dbl_token(x))
        yield req((False, t[2], t[3]), sc)
    for i in range(300 if tier == "quick" else 6000):
        d, sc = nc.carry_ripple_case(r) if i % 2 == 0 else nc.nines_case(r)
        yield req(d, sc)
    for i in range(n):
        d = nc.rand_double(r)
        neg, m, e = d
        v = Fraction(m) * Fraction(2) ** e
        k = nc.floor_log10(v) if m else 0
        c = r.random()
        if c < 0.35:
            scale = r.randint(0, 20) - k                 # a handful of significant digits
        elif c < 0.5:
            scale = -k + r.choice([-2, -1, 0, 1])         # rounds to zero / one digit
        elif c < 0.65:
            scale = 9 * r.randint(-3, 5) + r.choice([-1, 0, 1])   # limb boundaries
        elif c < 0.8:
            # exact decimal ties: d = (2j+1)/2 * 10^-s when representable
            j = r.getrandbits(r.randint(1, 40))
            s = r.randint(0, 8)
            x = (2 * j + 1) * 5 ** 0 / 2.0
            t = nc.parse_dbl(nc.dbl_token(float(2 * j + 1) / 2))
            d = (neg, t[2], t[3])
            scale = 0 if s < 6 else -9 * 0
        else:
            scale = r.randint(-308, 321)
        scale = max(-308, min(321, scale))
        yield req(d, scale)


def parts(rq):
    t = rq.split()
    return nc.parse_dbl(t[1]), int(t[2])


def oracle(rq, impl):
    if not impl.startswith("tg "):
        return None
    d, scale = parts(rq)
    got = nc.ascii_of_hex(impl.split()[1])
    a = nc.kv(impl)
    if a.get("rnd") != "0":
        return "the floating-point rounding mode changed"
    v = abs(nc.frac_of(d))
    if v == 0:
        return None if got == "0" else "zero gives %r" % got
    z = nc.scaled_round(v, scale)
    if z == 0:
        return None if got in ("", "0") else "value rounds to zero at scale %d, digits %r" % (scale, got)
    if got != str(z):
        return "digits %s, correctly rounded %s" % (got[:60], str(z)[:60])
    return None


def nontrivial(rq, impl):
    return impl.startswith("tg ") and impl.split()[1] not in ("-", "0030")


def classify(rq, impl):
    if not impl.startswith("tg "):
        return "crash"
    g = nc.ascii_of_hex(impl.split()[1])
    return "empty" if g == "" else "zero" if g == "0" else "1-17d" if len(g) <= 17 else "18-60d" if len(g) <= 60 else ">60d"


def finding_class(rq, impl, model, why):
    return None
