"""family `err` (C20): the compiled cif_errlist / cif_nerr against the translated table, exhaustively"""
import os, re, sys
sys.path.insert(0, os.path.dirname(os.path.abspath(__file__)))
from common import hexs, unhexs

FAMILY = "err"
HARNESS = {"source": "x_err.c"}
RULE = ("exhaustive: every integer 0..max(code)+8 and `nerr`; non-trivial = a code defined by cif.h; "
        "oracle (implementation only): compiled message of every defined code is inside the table, non-empty and "
        "contains the spec keywords of tools/gen/err.py (same table as Spec/ErrWords.lean)")
REPO = os.environ.get("VERIF_REPO", "/repo")


def header_codes():
    h = open(os.path.join(REPO, "src", "cif.h"), encoding="utf-8", errors="replace").read()
    m = re.search(r"@defgroup\s+return_codes\b(.*?)\n \* @\}", h, re.S)
    body = m.group(1) if m else h
    out = {}
    for name, val in re.findall(r"^#define[ \t]+(CIF_[A-Z0-9_]+)[ \t]+(\d+)[ \t]*$", body, re.M):
        if not name.startswith("CIF_TRAVERSE_"):
            out[int(val)] = name
    return out


def spec_table():
    """keyword groups, read from the Lean spec so that there is one source of truth"""
    src = open(os.path.join(os.path.dirname(__file__), "..", "..", "lean", "CifModel", "Spec", "ErrWords.lean"), encoding="utf-8").read()
    tbl = {}
    for name, groups in re.findall(r'\(a!"(CIF_[A-Z0-9_]+)",\s*\[(.*?)\]\)\s*,?\s*$', src, re.M):
        tbl[name] = [re.findall(r'a!"([^"]*)"', g) for g in re.findall(r"\[(.*?)\]", groups)]
    return tbl


def row_width():
    """declared width of one message slot (`const char cif_errlist[][80]`), None when the table is declared otherwise"""
    for f in ("cif.c", "cif_error.h", "cif.h"):
        try:
            src = open(os.path.join(REPO, "src", f), encoding="utf-8", errors="replace").read()
        except OSError:
            continue
        m = re.search(r"cif_errlist\s*\[\s*\]\s*\[\s*(\d+)\s*\]", src)
        if m:
            return int(m.group(1))
    return None


_codes = None
_spec = None
_width = -1


def generate(seed, tier):
    codes = header_codes()
    top = (max(codes) if codes else 150) + 8
    yield "err nerr"
    for c in range(0, top + 1):
        yield "err %d" % c


def nontrivial(req, impl):
    global _codes
    _codes = _codes or header_codes()
    t = req.split()
    return t[1].isdigit() and int(t[1]) in _codes


def classify(req, impl):
    t = req.split()
    if t[1] == "nerr":
        return "nerr"
    if not nontrivial(req, impl):
        return "undefined-code"
    return "defined-code"


def oracle(req, impl):
    global _codes, _spec
    _codes = _codes or header_codes()
    _spec = _spec or spec_table()
    t = req.split()
    if t[1] == "nerr" or int(t[1]) not in _codes:
        return None
    name = _codes[int(t[1])]
    a = impl.split()
    if len(a) != 2 or a[0] != "er":
        return None  # crash handling is generic
    if a[1] == "~":
        return "%s (%s) is not below cif_nerr" % (name, t[1])
    msg = "".join(chr(u) for u in unhexs(a[1])).lower()
    if not msg:
        return "cif_errlist[%s] (%s) is empty" % (t[1], name)
    global _width
    if _width == -1:
        _width = row_width()
    if _width is not None and len(msg) >= _width:
        # the initialiser filled the whole slot: no terminator, an application printing cif_errlist[rc] runs on into the next slot
        return ("cif_errlist[%s] (%s) is not terminated inside its %d-byte slot: printed as a string it reads %r"
                % (t[1], name, _width, msg[:200]))
    groups = _spec.get(name)
    if groups is None:
        groups = [[w.lower() for w in name.split("_") if len(w) >= 4]]
    why = describes(groups, msg)
    if why:
        return "cif_errlist[%s] = %r does not describe %s (%s)" % (t[1], msg, name, why)
    return None


def describes(groups, msg):
    """None when the lower-cased message satisfies every keyword group; a group beginning with '!' is negative"""
    for alts in groups:
        if alts and alts[0] == "!":
            hit = [w for w in alts[1:] if w in msg]
            if hit:
                return "contains %s" % hit
        elif not any(w in msg for w in alts):
            return "none of %s" % alts
    return None


def finding_class(req, impl, model, why):
    return None
